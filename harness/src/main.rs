//! agverif: correspondence harness between /repo (real code, in-process) and the Lean model driver.
mod canon;
mod driver;
mod enc;
mod gen;
mod imp;
mod props;
mod rng;
mod vals;

use std::collections::{BTreeMap, BTreeSet};
use std::io::{BufRead, BufReader};
use std::process::{Command, Stdio};

pub struct Ctx {
    pub prop: String,
    pub tier: String,
    pub seed: u64,
    pub shard: usize,
    pub nshards: usize,
    pub rng: rng::Rng,
    pub drv: driver::Driver,
    pub replay: Option<String>,
}

impl Ctx {
    pub fn thorough(&self) -> bool {
        self.tier == "thorough"
    }
    /// number of cases for this shard given a total budget for (quick, thorough)
    pub fn budget(&self, quick: usize, thorough: usize) -> usize {
        let total = if self.thorough() { thorough } else { quick };
        (total + self.nshards - 1) / self.nshards
    }
    /// report one evaluated case. `key` identifies distinct non-trivial cases ("" = trivial).
    pub fn case(&mut self, family: &str, key: &str, verdict: &str, info: serde_json::Value) {
        let line = serde_json::json!({"k": "case", "family": family, "key": key, "verdict": verdict, "info": info});
        imp::emit(&line.to_string());
    }
    pub fn count(&mut self, what: &str) {
        imp::emit(&serde_json::json!({"k": "count", "what": what}).to_string());
    }
}

fn arg(args: &[String], name: &str) -> Option<String> {
    args.iter().position(|a| a == name).and_then(|i| args.get(i + 1)).cloned()
}

fn main() {
    let args: Vec<String> = std::env::args().collect();
    if args.len() < 2 {
        eprintln!("usage: agverif <Cxx> --tier quick|thorough --seed N --driver PATH --out FILE [--replay FILE]");
        std::process::exit(2);
    }
    let prop = args[1].clone();
    if prop == "GEN-CHARWIDTH" {
        // regenerate /verif/lean/AgModel/CharWidth.lean from the `unicode-width` crate:
        //   target/debug/agverif GEN-CHARWIDTH > /verif/lean/AgModel/CharWidth.lean
        print!("{}", props::c19::char_width_lean());
        return;
    }
    let tier = arg(&args, "--tier").unwrap_or_else(|| "quick".into());
    let seed: u64 = arg(&args, "--seed").and_then(|s| s.parse().ok()).unwrap_or(20260930);
    let drv_path = arg(&args, "--driver").unwrap_or_else(|| "/verif/lean/.lake/build/bin/agdriver".into());
    if args.iter().any(|a| a == "--worker") {
        let shard: usize = arg(&args, "--shard").and_then(|s| s.parse().ok()).unwrap_or(0);
        let nshards: usize = arg(&args, "--nshards").and_then(|s| s.parse().ok()).unwrap_or(1);
        imp::init_worker();
        let mut ctx = Ctx {
            prop: prop.clone(),
            tier,
            seed,
            shard,
            nshards,
            rng: rng::Rng::new(seed.wrapping_mul(1000003).wrapping_add(shard as u64)),
            drv: driver::Driver::spawn(&drv_path),
            replay: arg(&args, "--replay"),
        };
        props::dispatch(&mut ctx);
        imp::emit(&serde_json::json!({"k": "done", "driver_requests": ctx.drv.requests}).to_string());
        // leaked hung threads must not keep the worker alive
        std::process::exit(0);
    }
    orchestrate(&prop, &tier, seed, &drv_path, &args);
}

fn orchestrate(prop: &str, tier: &str, seed: u64, drv_path: &str, args: &[String]) {
    let out_path = arg(args, "--out").unwrap_or_else(|| format!("/verif/evidence/{}.corr.json", prop));
    let replay = arg(args, "--replay");
    let nshards: usize = if replay.is_some() {
        1
    } else {
        arg(args, "--jobs").and_then(|s| s.parse().ok()).unwrap_or(16)
    };
    let exe = std::env::current_exe().unwrap();
    let t0 = std::time::Instant::now();
    let mut children = vec![];
    for sh in 0..nshards {
        let mut c = Command::new(&exe);
        c.arg(prop)
            .arg("--worker")
            .args(["--tier", tier, "--seed", &seed.to_string(), "--driver", drv_path])
            .args(["--shard", &sh.to_string(), "--nshards", &nshards.to_string()])
            .stdout(Stdio::piped())
            .stdin(Stdio::null());
        if let Some(r) = &replay {
            c.args(["--replay", r]);
        }
        children.push(c.spawn().expect("spawn worker"));
    }
    let mut evaluations = 0usize;
    let mut keys: BTreeSet<String> = BTreeSet::new();
    let mut counts: BTreeMap<String, usize> = BTreeMap::new();
    let mut samples: Vec<serde_json::Value> = vec![];
    let mut violations: Vec<serde_json::Value> = vec![];
    let mut disagreements: Vec<serde_json::Value> = vec![];
    let mut known: Vec<serde_json::Value> = vec![];
    let mut skips = 0usize;
    let mut done = 0usize;
    let mut driver_requests = 0u64;
    // drain every worker's pipe concurrently (a worker blocks once its 64 KB pipe is full, which
    // serialised thorough runs), then merge in shard order so the result does not depend on timing
    let readers: Vec<std::thread::JoinHandle<Vec<String>>> = children
        .iter_mut()
        .map(|ch| {
            let out = ch.stdout.take().unwrap();
            std::thread::spawn(move || BufReader::new(out).lines().flatten().collect::<Vec<String>>())
        })
        .collect();
    for (mut ch, rd) in children.into_iter().zip(readers) {
        for line in rd.join().unwrap_or_default() {
            let v: serde_json::Value = match serde_json::from_str(&line) {
                Ok(v) => v,
                Err(_) => continue,
            };
            match v["k"].as_str() {
                Some("case") => {
                    evaluations += 1;
                    let fam = v["family"].as_str().unwrap_or("").to_string();
                    *counts.entry(format!("family:{}", fam)).or_insert(0) += 1;
                    let key = v["key"].as_str().unwrap_or("");
                    if !key.is_empty() {
                        keys.insert(format!("{}|{}", fam, key));
                    }
                    match v["verdict"].as_str().unwrap_or("") {
                        "pass" => {
                            if samples.iter().filter(|s| s["family"] == v["family"]).count() < 2 {
                                samples.push(serde_json::json!({"family": v["family"], "case": v["info"]}));
                            }
                        }
                        "skip" => {
                            skips += 1;
                            let why = v["info"]["why"].as_str().unwrap_or("?").to_string();
                            *counts.entry(format!("skip:{}", why)).or_insert(0) += 1;
                        }
                        "viol" => violations.push(v.clone()),
                        "fdis" => disagreements.push(v.clone()),
                        "known" => known.push(v.clone()),
                        _ => {}
                    }
                }
                Some("count") => {
                    *counts.entry(v["what"].as_str().unwrap_or("?").to_string()).or_insert(0) += 1;
                }
                Some("done") => {
                    done += 1;
                    driver_requests += v["driver_requests"].as_u64().unwrap_or(0);
                }
                _ => {}
            }
        }
        let _ = ch.wait();
    }
    if done != nshards {
        violations.push(serde_json::json!({"family": "harness", "key": "", "info": {"what": "a worker died before finishing (crash/abort in the implementation or the driver)", "workers_done": done, "workers": nshards}}));
    }
    let res = serde_json::json!({
        "property": prop, "tier": tier, "seed": seed,
        "evaluations": evaluations, "distinct_nontrivial": keys.len(),
        "skipped_unmodelled": skips, "driver_requests": driver_requests,
        "counts": counts, "samples": samples,
        "violations": violations, "disagreements": disagreements, "known": known,
        "wall_s": t0.elapsed().as_secs_f64(),
    });
    std::fs::write(&out_path, serde_json::to_string_pretty(&res).unwrap()).expect("write result");
    println!(
        "agverif {}: {} cases, {} distinct non-trivial, {} skipped, {} P-violations, {} F-disagreements, {} known, {:.1}s",
        prop,
        evaluations,
        keys.len(),
        skips,
        res["violations"].as_array().unwrap().len(),
        res["disagreements"].as_array().unwrap().len(),
        res["known"].as_array().unwrap().len(),
        t0.elapsed().as_secs_f64()
    );
}
