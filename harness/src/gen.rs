//! Structure-aware generators: input documents and query texts.
use crate::rng::Rng;

pub const KEYS: &[&str] = &["k", "n", "x", "s", "b", "o", "arr", "msg", "m"];

pub fn small_int(r: &mut Rng) -> i64 {
    match r.below(10) {
        0 => 0,
        1 => -1,
        2 => r.range(-1000000, 1000000),
        3 => *r.pick(&[2147483647i64, -2147483648, 4294967296, 9007199254740992, 9007199254740993, -9007199254740993]),
        _ => r.range(-20, 50),
    }
}

/// decimal literal inside the class where serde_json and a correctly rounded parser agree
/// (≤ 15 significant digits, |exp10| ≤ 22)
pub fn short_decimal(r: &mut Rng) -> String {
    let ip = r.range(0, 9999);
    let fd = r.below(5);
    let mut s = format!("{}", ip);
    if fd > 0 {
        s.push('.');
        for _ in 0..fd {
            s.push((b'0' + r.below(10) as u8) as char);
        }
    }
    if r.chance(15) {
        s.push_str(&format!("e{}", r.range(-8, 8)));
    }
    if r.chance(25) {
        s.insert(0, '-');
    }
    s
}

pub fn word(r: &mut Rng) -> String {
    let pool = [
        "alpha", "beta", "Gamma", "delta", "err", "ERROR", "warn", "info", "GET", "POST", "a", "b", "c", "x1", "foo bar",
        "", " ", "42", "-5", "1e3", "3.50", "true", "007", " 7 ", "1,000", "NaN", "inf", "héllo", "日本", "a*b", "a.b",
        "q\"uote", "tab\there", "back\\slash", "UPPER", "MiXeD", "0x1f", "+3", ".5", "5.", "--1",
    ];
    r.pick(&pool).to_string()
}

pub fn json_string(s: &str) -> String {
    serde_json::to_string(s).unwrap()
}

pub fn json_scalar(r: &mut Rng) -> String {
    match r.below(9) {
        0 => "null".into(),
        1 => (if r.chance(50) { "true" } else { "false" }).into(),
        2 | 3 => format!("{}", small_int(r)),
        4 | 5 => short_decimal(r),
        _ => json_string(&word(r)),
    }
}

pub fn json_value(r: &mut Rng, depth: usize) -> String {
    if depth == 0 || r.chance(60) {
        return json_scalar(r);
    }
    if r.chance(50) {
        let n = r.below(4);
        let items: Vec<String> = (0..n).map(|_| json_value(r, depth - 1)).collect();
        format!("[{}]", items.join(","))
    } else {
        let n = r.below(4);
        let items: Vec<String> = (0..n)
            .map(|_| format!("{}:{}", json_string(*r.pick(&["p", "q", "r", "k"])), json_value(r, depth - 1)))
            .collect();
        format!("{{{}}}", items.join(","))
    }
}

pub struct DocCfg {
    pub key_domain: usize,
    pub numeric_only: bool,
}

/// a document with every schema key present and non-null (k, n, x, s, b), ints and strings only
pub fn dense_doc(r: &mut Rng) -> String {
    let kd = ["a", "b", "c"];
    format!(
        "{{\"k\":{},\"n\":{},\"x\":{},\"s\":{},\"b\":{}}}",
        json_string(kd[r.below(3)]),
        r.range(-20, 50),
        if r.chance(50) { format!("{}", r.range(-50, 50)) } else { format!("{}.{}", r.range(-50, 50), r.range(1, 9)) },
        json_string(*r.pick(&["alpha", "beta", "GET", "err", "x1", "foo bar", "héllo"])),
        r.pick(&["true", "false"])
    )
}

pub fn dense_input(r: &mut Rng, rows: usize) -> Vec<u8> {
    let mut out = vec![];
    for _ in 0..rows {
        out.extend(dense_doc(r).into_bytes());
        out.push(b'\n');
    }
    out
}

/// one JSON object line drawn from the shared schema
pub fn json_doc(r: &mut Rng, cfg: &DocCfg) -> String {
    let mut members: Vec<String> = vec![];
    if r.chance(90) {
        let kd = ["a", "b", "c", "d", "e"];
        let v = match r.below(10) {
            0 => format!("{}", r.range(0, 3)),
            1 => "null".into(),
            _ => json_string(kd[r.below(cfg.key_domain.min(kd.len()).max(1))]),
        };
        members.push(format!("\"k\":{}", v));
    }
    if r.chance(90) {
        members.push(format!("\"n\":{}", small_int(r)));
    }
    if r.chance(85) {
        let v = if cfg.numeric_only {
            if r.chance(50) { short_decimal(r) } else { format!("{}", small_int(r)) }
        } else {
            match r.below(10) {
                0 => json_string(&word(r)),
                1 => "null".into(),
                2 | 3 | 4 => format!("{}", r.range(-50, 50)),
                _ => short_decimal(r),
            }
        };
        members.push(format!("\"x\":{}", v));
    }
    if r.chance(80) {
        members.push(format!("\"s\":{}", json_string(&word(r))));
    }
    if r.chance(40) {
        members.push(format!("\"b\":{}", r.pick(&["true", "false", "null", "1", "\"true\""])));
    }
    if r.chance(40) {
        members.push(format!(
            "\"o\":{{\"p\":{},\"q\":[{},{}],\"r\":{{\"z\":{}}}}}",
            small_int(r),
            json_scalar(r),
            json_scalar(r),
            json_scalar(r)
        ));
    }
    if r.chance(40) {
        let n = r.below(4);
        let items: Vec<String> = (0..n).map(|_| json_scalar(r)).collect();
        members.push(format!("\"arr\":[{}]", items.join(",")));
    }
    if r.chance(40) {
        members.push(format!(
            "\"msg\":{}",
            json_string(&format!("{} user={} took {}ms status={}", r.pick(&["GET", "POST", "put"]), word(r), r.range(0, 900), r.pick(&["200", "404", "500"])))
        ));
    }
    if r.chance(10) {
        members.push(format!("\"m\":{}", json_value(r, 2)));
    }
    if r.chance(5) {
        // duplicate key: last wins
        members.push(format!("\"n\":{}", small_int(r)));
    }
    let mut rr = r.fork();
    rr.shuffle(&mut members);
    format!("{{{}}}", members.join(if r.chance(20) { " , " } else { "," }))
}

pub fn junk_line(r: &mut Rng) -> Vec<u8> {
    match r.below(6) {
        0 => b"not json at all".to_vec(),
        1 => b"{\"k\": \"a\", \"n\": ".to_vec(),
        2 => vec![0xff, 0xfe, b'{', b'}', 0x80],
        3 => b"[1,2,3]".to_vec(),
        4 => b"".to_vec(),
        _ => b"{\"k\":\"a\"} trailing".to_vec(),
    }
}

pub fn json_input(r: &mut Rng, rows: usize, cfg: &DocCfg, junk_pct: usize) -> Vec<u8> {
    let mut out = vec![];
    for i in 0..rows {
        if r.chance(junk_pct) {
            out.extend(junk_line(r));
        } else {
            out.extend(json_doc(r, cfg).into_bytes());
        }
        if i + 1 < rows || r.chance(85) {
            out.push(b'\n');
        }
    }
    out
}

/* ---------- expressions (as text) ---------- */

pub fn num_atom(r: &mut Rng) -> String {
    match r.below(12) {
        0 | 1 | 2 => "n".into(),
        3 | 4 => "x".into(),
        5 => "o.p".into(),
        6 => "arr[0]".into(),
        7 => "arr[-1]".into(),
        8 => format!("{}", r.range(0, 20)),
        9 => "o.q[1]".into(),
        10 => "missing".into(),
        _ => format!("{}", r.range(0, 100000)),
    }
}

pub fn num_expr(r: &mut Rng, depth: usize) -> String {
    if depth == 0 || r.chance(45) {
        return num_atom(r);
    }
    match r.below(9) {
        0 => format!("{} + {}", num_expr(r, depth - 1), num_expr(r, depth - 1)),
        1 => format!("{} - {}", num_expr(r, depth - 1), num_expr(r, depth - 1)),
        2 => format!("{} * {}", num_expr(r, depth - 1), num_expr(r, depth - 1)),
        3 => format!("{} / {}", num_expr(r, depth - 1), num_expr(r, depth - 1)),
        4 => format!("({})", num_expr(r, depth - 1)),
        5 => format!("{}({})", r.pick(&["abs", "floor", "ceil", "round", "num"]), num_expr(r, depth - 1)),
        6 => format!("length({})", r.pick(&["s", "arr", "o", "k"])),
        7 => format!("if({}, {}, {})", bool_expr(r, depth - 1), num_expr(r, depth - 1), num_expr(r, depth - 1)),
        _ => format!("{}*{}+{}", num_atom(r), num_atom(r), num_atom(r)),
    }
}

pub fn str_lit(r: &mut Rng) -> String {
    let w = *r.pick(&["a", "b", "alpha", "err", "GET", "42", "true", "", "x y"]);
    if r.chance(50) { format!("\"{}\"", w) } else { format!("'{}'", w) }
}

pub fn bool_expr(r: &mut Rng, depth: usize) -> String {
    if depth == 0 || r.chance(40) {
        return match r.below(8) {
            0 => format!("{} {} {}", num_atom(r), r.pick(&["==", "!=", "<", "<=", ">", ">=", "<>"]), num_atom(r)),
            1 => format!("k == {}", str_lit(r)),
            2 => format!("s {} {}", r.pick(&["==", "!=", "<", ">"]), str_lit(r)),
            3 => format!("isNull({})", r.pick(&["b", "k", "missing", "x"])),
            4 => format!("contains(s, {})", str_lit(r)),
            5 => format!("{}({})", r.pick(&["isEmpty", "isBlank", "isNumeric"]), r.pick(&["s", "x", "b", "k"])),
            6 => "b".into(),
            _ => format!("{} > {}", num_expr(r, 1), r.range(-5, 30)),
        };
    }
    match r.below(6) {
        0 => format!("{} and {}", bool_expr(r, depth - 1), bool_expr(r, depth - 1)),
        1 => format!("{} or {}", bool_expr(r, depth - 1), bool_expr(r, depth - 1)),
        2 => format!("!({})", bool_expr(r, depth - 1)),
        3 => format!("({})", bool_expr(r, depth - 1)),
        4 => format!("{} && {}", bool_expr(r, depth - 1), bool_expr(r, depth - 1)),
        _ => format!("{} || {}", bool_expr(r, depth - 1), bool_expr(r, depth - 1)),
    }
}

pub fn any_expr(r: &mut Rng, depth: usize) -> String {
    match r.below(9) {
        0 | 1 | 2 => num_expr(r, depth),
        3 | 4 => bool_expr(r, depth),
        5 => format!("concat({}, {})", r.pick(&["s", "k", "n", "x"]), str_lit(r)),
        6 => format!("{}(s)", r.pick(&["toLowerCase", "toUpperCase", "parseHex"])),
        7 => format!("substring(s, {}, {})", r.range(0, 3), r.range(0, 6)),
        // the text of arrays / objects (`impl Display for Value` falling back on Debug)
        _ => {
            let c = *r.pick(&["arr", "o", "o.q", "o.r", "arr[0]", "m", "o.q[0]"]);
            match r.below(8) {
                0 => format!("concat({}, {})", c, r.pick(&["o", "arr", "o.q", "x", "\"|\""])),
                1 => format!("length({})", r.pick(&["arr[0]", "o.q[1]", "concat(o)", "concat(arr)", "concat(o.q, m)", "o.r"])),
                2 => format!("contains({}, {})", c, r.pick(&["\"p\"", "\"Int(\"", "'Str(\"a'", "\": \"", "\"None\"", "\", \"", "k", "n"])),
                3 => format!("substring({}, {}, {})", c, r.range(0, 4), r.range(0, 30)),
                4 => format!("substring({}, {})", c, r.range(0, 12)),
                5 => format!("{}({})", r.pick(&["toUpperCase", "toLowerCase", "parseHex"]), c),
                6 => format!("concat(s, {}, n)", c),
                _ => format!("length(concat({}))", c),
            }
        }
    }
}

pub fn agg_fn(r: &mut Rng) -> String {
    let col = num_atom(r);
    let f = match r.below(10) {
        0 | 1 => "count".to_string(),
        2 => format!("count({})", bool_expr(r, 1)),
        3 => format!("sum({})", col),
        4 => format!("min({})", col),
        5 => format!("max({})", col),
        6 => format!("{}({})", r.pick(&["avg", "average"]), col),
        7 => format!("count_distinct({})", r.pick(&["k", "s", "n", "x", "b"])),
        8 => format!("{}{}({})", r.pick(&["p", "pct", "percentile"]), r.pick(&["50", "90", "99", "10"]), col),
        _ => format!("sum({})", num_expr(r, 1)),
    };
    if r.chance(35) {
        format!("{} as {}", f, r.pick(&["c1", "c2", "total_x", "v"]))
    } else {
        f
    }
}

/// the column name an aggregate function gets without `as`
pub fn default_agg_name(f: &str) -> String {
    let head = f.split('(').next().unwrap().trim();
    match head {
        "count" => "_count".into(),
        "sum" => "_sum".into(),
        "min" => "_min".into(),
        "max" => "_max".into(),
        "avg" | "average" => "_average".into(),
        "count_distinct" => "_countDistinct".into(),
        h => {
            let digits: String = h.chars().filter(|c| c.is_ascii_digit()).collect();
            format!("p{}", digits.trim_start_matches('0'))
        }
    }
}

pub fn agg_stage(r: &mut Rng) -> String {
    let nf = 1 + r.below(3);
    let mut names = std::collections::HashSet::new();
    let mut fns = vec![];
    for _ in 0..nf {
        // avoid duplicate column names inside one stage here (that class has its own check)
        for _ in 0..10 {
            let f = agg_fn(r);
            let name = if let Some(i) = f.rfind(" as ") { f[i + 4..].to_string() } else { default_agg_name(&f) };
            if names.insert(name) {
                fns.push(f);
                break;
            }
        }
    }
    let mut s = fns.join(", ");
    if r.chance(75) {
        let nk = 1 + r.below(2);
        let keys: Vec<String> = (0..nk)
            .map(|_| r.pick(&["k", "b", "n", "s", "o.p", "missing", "n > 5", "arr[0]"]).to_string())
            .collect();
        let mut uniq = vec![];
        for k in keys {
            if !uniq.contains(&k) {
                uniq.push(k)
            }
        }
        s.push_str(&format!(" by {}", uniq.join(", ")));
    }
    s
}

pub fn row_stage(r: &mut Rng, after_agg: bool) -> String {
    match r.below(12) {
        0 | 1 => format!("where {}", bool_expr(r, 2)),
        2 | 3 => format!("{} as {}", any_expr(r, 2), r.pick(&["r", "v", "n", "y"])),
        4 => format!("fields {} {}", r.pick(&["", "+", "-", "only", "except", "drop", "include"]), r.pick(&["k", "n,x", "k, n, s", "o", "r", "_count"])),
        5 | 6 => format!("limit {}", if r.chance(60) { r.range(1, 6) } else { -r.range(1, 6) }),
        7 => "limit".into(),
        8 => format!("total({}) as {}", num_atom(r), r.pick(&["t", "_total"])),
        9 => format!("total({})", num_atom(r)),
        10 if !after_agg => "split(s) on \" \" as parts".into(),
        _ => format!("where {}", bool_expr(r, 1)),
    }
}

pub fn sort_stage(r: &mut Rng, cols: &[&str]) -> String {
    let n = 1 + r.below(2);
    let ks: Vec<String> = (0..n).map(|_| r.pick(cols).to_string()).collect();
    format!("sort by {}{}", ks.join(", "), r.pick(&["", " asc", " desc", " dsc"]))
}

pub struct QueryCfg {
    pub allow_agg: bool,
    pub allow_sort: bool,
    pub max_stages: usize,
}

/// a pipeline over JSON input; every stage list starts with `json`
pub fn json_pipeline(r: &mut Rng, cfg: &QueryCfg) -> String {
    let filter = match r.below(8) {
        0 => "a".to_string(),
        1 => "\"k\"".to_string(),
        2 => "NOT err".to_string(),
        3 => "GET OR alpha".to_string(),
        _ => "*".to_string(),
    };
    let mut stages = vec!["json".to_string()];
    let n = r.below(cfg.max_stages + 1);
    let mut in_agg = false;
    for _ in 0..n {
        let c = r.below(10);
        if cfg.allow_agg && c < 3 {
            stages.push(agg_stage(r));
            in_agg = true;
        } else if cfg.allow_sort && c == 3 && in_agg {
            stages.push(sort_stage(r, &["k", "_count", "_sum", "n", "c1", "v"]));
        } else {
            stages.push(row_stage(r, in_agg));
        }
    }
    format!("{} | {}", filter, stages.join(" | "))
}
