//! Order-preserving JSON reader -> canonical value tokens (as AgModel/Codec.lean `showJsonValue`).
use crate::enc::{hex, norm_bits};

#[derive(Debug, Clone, PartialEq)]
pub enum J {
    Null,
    Bool(bool),
    Int(i64),
    Float(f64),
    Str(String),
    Arr(Vec<J>),
    Obj(Vec<(String, J)>),
}

pub struct P<'a> {
    b: &'a [u8],
    i: usize,
}

impl<'a> P<'a> {
    pub fn new(s: &'a str) -> Self {
        P { b: s.as_bytes(), i: 0 }
    }
    fn ws(&mut self) {
        while self.i < self.b.len() && matches!(self.b[self.i], b' ' | b'\t' | b'\n' | b'\r') {
            self.i += 1
        }
    }
    pub fn at_end(&mut self) -> bool {
        self.ws();
        self.i >= self.b.len()
    }
    pub fn value(&mut self) -> Result<J, String> {
        self.ws();
        if self.i >= self.b.len() {
            return Err("eof".into());
        }
        match self.b[self.i] {
            b'n' => self.lit("null", J::Null),
            b't' => self.lit("true", J::Bool(true)),
            b'f' => self.lit("false", J::Bool(false)),
            b'"' => Ok(J::Str(self.string()?)),
            b'[' => {
                self.i += 1;
                let mut v = vec![];
                self.ws();
                if self.peek() == Some(b']') {
                    self.i += 1;
                    return Ok(J::Arr(v));
                }
                loop {
                    v.push(self.value()?);
                    self.ws();
                    match self.peek() {
                        Some(b',') => self.i += 1,
                        Some(b']') => {
                            self.i += 1;
                            return Ok(J::Arr(v));
                        }
                        _ => return Err("array".into()),
                    }
                }
            }
            b'{' => {
                self.i += 1;
                let mut v = vec![];
                self.ws();
                if self.peek() == Some(b'}') {
                    self.i += 1;
                    return Ok(J::Obj(v));
                }
                loop {
                    self.ws();
                    let k = self.string()?;
                    self.ws();
                    if self.peek() != Some(b':') {
                        return Err("colon".into());
                    }
                    self.i += 1;
                    let x = self.value()?;
                    v.push((k, x));
                    self.ws();
                    match self.peek() {
                        Some(b',') => self.i += 1,
                        Some(b'}') => {
                            self.i += 1;
                            return Ok(J::Obj(v));
                        }
                        _ => return Err("object".into()),
                    }
                }
            }
            _ => self.number(),
        }
    }
    fn peek(&self) -> Option<u8> {
        self.b.get(self.i).copied()
    }
    fn lit(&mut self, l: &str, v: J) -> Result<J, String> {
        if self.b[self.i..].starts_with(l.as_bytes()) {
            self.i += l.len();
            Ok(v)
        } else {
            Err("literal".into())
        }
    }
    fn string(&mut self) -> Result<String, String> {
        if self.peek() != Some(b'"') {
            return Err("string".into());
        }
        let start = self.i;
        self.i += 1;
        while self.i < self.b.len() {
            match self.b[self.i] {
                b'\\' => self.i += 2,
                b'"' => {
                    self.i += 1;
                    let txt = std::str::from_utf8(&self.b[start..self.i]).map_err(|e| e.to_string())?;
                    return serde_json::from_str::<String>(txt).map_err(|e| e.to_string());
                }
                _ => self.i += 1,
            }
        }
        Err("unterminated".into())
    }
    fn number(&mut self) -> Result<J, String> {
        let start = self.i;
        while self.i < self.b.len() && matches!(self.b[self.i], b'-' | b'+' | b'.' | b'e' | b'E' | b'0'..=b'9') {
            self.i += 1
        }
        let t = std::str::from_utf8(&self.b[start..self.i]).unwrap();
        if t.is_empty() {
            return Err("number".into());
        }
        if let Ok(i) = t.parse::<i64>() {
            if !t.contains('.') && !t.contains('e') && !t.contains('E') {
                return Ok(J::Int(i));
            }
        }
        t.parse::<f64>().map(J::Float).map_err(|e| e.to_string())
    }
}

pub fn parse(s: &str) -> Result<J, String> {
    let mut p = P::new(s);
    let v = p.value()?;
    if p.at_end() {
        Ok(v)
    } else {
        Err("trailing".into())
    }
}

/// canonical tokens; `sort_keys` for objects whose key order the implementation takes from a hash map
pub fn tokens(j: &J, sort_keys: bool, out: &mut Vec<String>) {
    match j {
        J::Null => out.push("N".into()),
        J::Bool(b) => out.push(if *b { "B1".into() } else { "B0".into() }),
        J::Int(i) => out.push(format!("I{}", i)),
        J::Float(f) => out.push(format!("F{:016x}", norm_bits(*f))),
        J::Str(s) => out.push(format!("S{}", hex(s))),
        J::Arr(v) => {
            out.push(format!("A{}", v.len()));
            for x in v {
                tokens(x, true, out)
            }
        }
        J::Obj(kvs) => {
            let mut kvs: Vec<&(String, J)> = kvs.iter().collect();
            if sort_keys {
                kvs.sort_by(|a, b| a.0.cmp(&b.0));
            }
            out.push(format!("O{}", kvs.len()));
            for (k, x) in kvs {
                out.push(format!("S{}", hex(k)));
                tokens(x, true, out)
            }
        }
    }
}

/// sort object keys recursively (nested object key order comes out of a hash map in the
/// implementation; that is C13/C18's business, not the caller's)
pub fn normalize(j: &J) -> J {
    match j {
        J::Arr(v) => J::Arr(v.iter().map(normalize).collect()),
        J::Obj(kvs) => {
            let mut kvs: Vec<(String, J)> = kvs.iter().map(|(k, v)| (k.clone(), normalize(v))).collect();
            kvs.sort_by(|a, b| a.0.cmp(&b.0));
            J::Obj(kvs)
        }
        other => other.clone(),
    }
}

/// canonical text of a whole record-mode stdout: one normalised value per line
pub fn normalized_lines(stdout: &[u8]) -> Option<Vec<J>> {
    let text = String::from_utf8_lossy(stdout);
    let mut v = vec![];
    for l in text.lines().filter(|l| !l.is_empty()) {
        v.push(normalize(&parse(l).ok()?));
    }
    Some(v)
}
