//! Typed value pool (ag::data::Value) for operator-level checks.
use crate::rng::Rng;
use ag::data::Value;
use ordered_float::OrderedFloat;

pub fn pool() -> Vec<Value> {
    let f = |x: f64| Value::Float(OrderedFloat(x));
    let s = |x: &str| Value::Str(x.to_string());
    let date = |secs: i64| Value::DateTime(chrono::DateTime::<chrono::Utc>::from_timestamp(secs, 0).unwrap());
    let mut obj1 = std::collections::HashMap::new();
    obj1.insert("p".to_string(), Value::Int(1));
    let mut obj2 = std::collections::HashMap::new();
    obj2.insert("p".to_string(), Value::Int(2));
    obj2.insert("q".to_string(), s("x"));
    vec![
        Value::None,
        Value::Bool(false),
        Value::Bool(true),
        Value::Int(0),
        Value::Int(1),
        Value::Int(-1),
        Value::Int(2),
        Value::Int(42),
        Value::Int(-9007199254740992),
        Value::Int(9007199254740992),
        Value::Int(9007199254740993),
        Value::Int(1152921504606846976),
        Value::Int(1152921504606846977),
        Value::Int(i64::MAX - 1),
        Value::Int(2147483648),
        Value::Int(i64::MAX),
        Value::Int(i64::MIN),
        f(0.5),
        f(-0.5),
        f(1.5),
        f(41.99),
        f(42.5),
        f(1e300),
        f(-1e300),
        f(5e-324),
        f(1.0),
        f(2.0),
        f(-0.0),
        f(f64::NAN),
        f(f64::INFINITY),
        f(f64::NEG_INFINITY),
        s(""),
        s("a"),
        s("A"),
        s("b"),
        s("ab"),
        s("10"),
        s("9"),
        s("é"),
        s("z"),
        date(0),
        date(1_600_000_000),
        Value::Duration(chrono::Duration::seconds(5)),
        Value::Duration(chrono::Duration::milliseconds(-1500)),
        Value::Array(vec![]),
        Value::Array(vec![Value::Int(1)]),
        Value::Array(vec![Value::Int(2), s("x")]),
        Value::Obj(obj1.into()),
        Value::Obj(obj2.into()),
    ]
}

pub fn random_scalar(r: &mut Rng) -> Value {
    let p = pool();
    p[r.below(p.len())].clone()
}

pub fn tokens(v: &Value) -> String {
    let mut out = vec![];
    crate::enc::value(v, &mut out);
    out.join(" ")
}
