//! The compiled Lean model driver as a child process speaking the line protocol.
use std::io::{BufRead, BufReader, Write};
use std::process::{Child, ChildStdin, ChildStdout, Command, Stdio};

pub struct Driver {
    child: Child,
    inp: ChildStdin,
    out: BufReader<ChildStdout>,
    pub requests: usize,
}

impl Driver {
    pub fn spawn(path: &str) -> Driver {
        let mut child = Command::new(path)
            .stdin(Stdio::piped())
            .stdout(Stdio::piped())
            .stderr(Stdio::null())
            .spawn()
            .expect("cannot start the Lean driver");
        let inp = child.stdin.take().unwrap();
        let out = BufReader::new(child.stdout.take().unwrap());
        Driver { child, inp, out, requests: 0 }
    }
    pub fn ask(&mut self, req: &str) -> String {
        self.requests += 1;
        if writeln!(self.inp, "{}", req).is_err() {
            return "DRIVERDEAD".into();
        }
        let _ = self.inp.flush();
        let mut line = String::new();
        match self.out.read_line(&mut line) {
            Ok(0) | Err(_) => "DRIVERDEAD".into(),
            Ok(_) => line.trim_end_matches('\n').to_string(),
        }
    }
}

impl Drop for Driver {
    fn drop(&mut self) {
        let _ = self.child.kill();
        let _ = self.child.wait();
    }
}
