//! Shared by C02 and C07: keyword / line generators, the regex-free keyword oracle (`kw_spec`,
//! `kw_caps`), query-string quoting, and the implementation side of `Keyword::to_regex`.
//!
//! The oracle is deliberately written without the `regex` crate and without looking at the Lean
//! model: it states what the property text says a keyword / a `parse` pattern matches.
use crate::enc;
use crate::rng::Rng;
use crate::Ctx;
use serde_json::json;
use std::collections::HashMap;

/// full `info` only for the first passes of a family on this shard (keeps the result pipe small)
pub struct Passes(HashMap<String, usize>);
impl Passes {
    pub fn new() -> Self {
        Passes(HashMap::new())
    }
    pub fn pass(&mut self, ctx: &mut Ctx, family: &str, key: &str, info: impl FnOnce() -> serde_json::Value) {
        let n = self.0.entry(family.to_string()).or_insert(0);
        *n += 1;
        let i = if *n <= 2 { info() } else { json!({}) };
        ctx.case(family, key, "pass", i);
    }
}

#[derive(Clone, Copy, PartialEq, Eq, Debug)]
pub enum Kind {
    Exact,
    Wild,
}

impl Kind {
    pub fn name(self) -> &'static str {
        match self {
            Kind::Exact => "exact",
            Kind::Wild => "wild",
        }
    }
}

/// regex-syntax `is_meta_character`
pub const META: &[char] = &['\\', '.', '+', '*', '?', '(', ')', '|', '[', ']', '{', '}', '^', '$', '#', '&', '-', '~'];
/// cased letters outside ASCII (the model's case folding is ASCII only; K and ſ fold to k and s)
pub const CASED: &[char] = &['é', 'É', 'ß', '\u{212A}', '\u{017F}'];
/// letters and digits of the small alphabet the generators draw from (k/s: targets of K / ſ)
pub const ALNUM: &[char] = &['a', 'b', 'c', 'k', 's', 'A', 'B', 'K', 'S', 'x', '0', '1', '9'];
/// whitespace a blank of the keyword has to match
pub const BLANKS: &[char] = &[' ', '\t', '\u{00A0}', '\u{2003}', '\n'];

pub fn nonascii_cased(c: char) -> bool {
    !c.is_ascii() && (c.is_lowercase() || c.is_uppercase() || c.to_lowercase().next() != Some(c) || c.to_uppercase().next() != Some(c))
}

pub fn has_nonascii_cased(s: &str) -> bool {
    s.chars().any(nonascii_cased)
}

/* ------------------------------------------------------------------------------------------ */
/* the oracle                                                                                  */
/* ------------------------------------------------------------------------------------------ */

/// the implementation's documented normalisation of a keyword text: `\"` stands for `"`
pub fn normalize_kw(text: &str) -> String {
    text.replace("\\\"", "\"")
}

/// one keyword character against one line character: ASCII case is irrelevant, a blank of the
/// keyword stands for any whitespace, everything else (tab included) only for itself
pub fn ch_match(k: char, c: char) -> bool {
    if k == ' ' {
        c.is_whitespace()
    } else {
        k.eq_ignore_ascii_case(&c)
    }
}

fn seg_at(seg: &[char], line: &[char], p: usize) -> bool {
    p + seg.len() <= line.len() && seg.iter().zip(&line[p..]).all(|(k, c)| ch_match(*k, *c))
}

struct Srch<'a> {
    segs: &'a [Vec<char>],
    line: &'a [char],
    /// the text ends with `*`: the last (empty) segment sits at the very end of the line
    anchored: bool,
    memo: Vec<Vec<Option<bool>>>,
}

impl<'a> Srch<'a> {
    fn new(segs: &'a [Vec<char>], line: &'a [char], anchored: bool) -> Self {
        Srch { segs, line, anchored, memo: vec![vec![None; line.len() + 1]; segs.len() + 1] }
    }
    fn fits(&self, i: usize, p: usize) -> bool {
        let n = self.segs[i].len();
        if p + n > self.line.len() {
            return false;
        }
        if self.anchored && i + 1 == self.segs.len() && p + n != self.line.len() {
            return false;
        }
        seg_at(&self.segs[i], self.line, p)
    }
    /// smallest start `p >= from` of segment `i` such that the gap `line[from..p]` has no newline
    /// and the segments after it can be placed too
    fn place(&mut self, i: usize, from: usize) -> Option<usize> {
        let mut p = from;
        loop {
            if self.fits(i, p) && self.can(i + 1, p + self.segs[i].len()) {
                return Some(p);
            }
            if p >= self.line.len() || self.line[p] == '\n' {
                return None;
            }
            p += 1;
        }
    }
    /// can segments `i..` be placed after position `from` (segment `i` after a newline-free gap)?
    fn can(&mut self, i: usize, from: usize) -> bool {
        if i == self.segs.len() {
            return true;
        }
        if let Some(b) = self.memo[i][from] {
            return b;
        }
        let b = self.place(i, from).is_some();
        self.memo[i][from] = Some(b);
        b
    }
    /// leftmost start of segment 0 that admits a complete placement
    fn start(&mut self) -> Option<usize> {
        for p in 0..=self.line.len() {
            if self.fits(0, p) && self.can(1, p + self.segs[0].len()) {
                return Some(p);
            }
        }
        None
    }
}

fn segments(kind: Kind, text: &str) -> (Vec<Vec<char>>, bool) {
    let norm = normalize_kw(text);
    match kind {
        Kind::Exact => (vec![norm.chars().collect()], false),
        Kind::Wild => (norm.split('*').map(|s| s.chars().collect()).collect(), text.ends_with('*')),
    }
}

/// Does the keyword match the line, as the property text states it?
pub fn kw_spec(kind: Kind, text: &str, line: &str) -> bool {
    let (segs, anchored) = segments(kind, text);
    let l: Vec<char> = line.chars().collect();
    Srch::new(&segs, &l, anchored).start().is_some()
}

/// The texts between consecutive segments for the leftmost placement and, for that start, the
/// lexicographically shortest gap vector (`None` = no match).  Also returns the char offset of
/// the start.
pub fn kw_caps(kind: Kind, text: &str, line: &str) -> Option<(usize, Vec<String>)> {
    let (segs, anchored) = segments(kind, text);
    let l: Vec<char> = line.chars().collect();
    let mut s = Srch::new(&segs, &l, anchored);
    let p0 = s.start()?;
    let mut from = p0 + segs[0].len();
    let mut caps = vec![];
    for i in 1..segs.len() {
        let p = s.place(i, from)?;
        caps.push(l[from..p].iter().collect::<String>());
        from = p + segs[i].len();
    }
    Some((p0, caps))
}

/* ------------------------------------------------------------------------------------------ */
/* the implementation side                                                                     */
/* ------------------------------------------------------------------------------------------ */

pub fn impl_keyword(kind: Kind, text: &str) -> ag::lang::Keyword {
    match kind {
        Kind::Exact => ag::lang::Keyword::new_exact(text.to_string()),
        Kind::Wild => ag::lang::Keyword::new_wildcard(text.to_string()),
    }
}

fn last_panic() -> String {
    crate::imp::LAST_PANIC.lock().map(|g| g.clone()).unwrap_or_default()
}

/// `Keyword::to_regex()` under catch_unwind
pub fn impl_regex(kind: Kind, text: &str) -> Result<regex::Regex, String> {
    let t = text.to_string();
    std::panic::catch_unwind(move || impl_keyword(kind, &t).to_regex()).map_err(|_| last_panic())
}

/// `is_match` and the first match's groups 1.. (None = group did not take part), under catch_unwind
pub fn impl_match(re: &regex::Regex, line: &str) -> Result<(bool, Option<Vec<Option<String>>>), String> {
    let re = re.clone();
    let l = line.to_string();
    std::panic::catch_unwind(move || {
        let m = re.is_match(&l);
        let caps = re.captures(&l).map(|c| (1..c.len()).map(|i| c.get(i).map(|g| g.as_str().to_string())).collect::<Vec<_>>());
        (m, caps)
    })
    .map_err(|_| last_panic())
}

/// the protocol line the model's `MATCH` answer must equal
pub fn match_answer(caps: &Option<Vec<Option<String>>>) -> String {
    match caps {
        None => "NOMATCH".to_string(),
        Some(gs) => {
            let mut toks = vec!["MATCH".to_string(), format!("{}", gs.len())];
            for g in gs {
                toks.push(match g {
                    Some(s) => format!("S{}", enc::hex(s)),
                    None => "N".to_string(),
                });
            }
            toks.join(" ")
        }
    }
}

/// decode the `S<hex>` tokens of a `MATCH n …` / `TOKS n …` answer
pub fn answer_strings(ans: &str) -> Option<Vec<String>> {
    let toks: Vec<&str> = ans.split(' ').collect();
    if toks.len() < 2 {
        return None;
    }
    let n: usize = toks[1].parse().ok()?;
    if toks.len() != n + 2 {
        return None;
    }
    let mut v = vec![];
    for t in &toks[2..] {
        let h = t.strip_prefix('S')?;
        v.push(String::from_utf8(enc::unhex(h)).ok()?);
    }
    Some(v)
}

/// first words of a SKIP reason, so that counts aggregate
pub fn skip_why(ans: &str) -> String {
    let w = ans.strip_prefix("SKIP").unwrap_or(ans).trim();
    w.split(' ').take(6).collect::<Vec<_>>().join(" ")
}

/* ------------------------------------------------------------------------------------------ */
/* query-string quoting                                                                        */
/* ------------------------------------------------------------------------------------------ */

/// a quoted string of the query language that denotes exactly `text` (quote = `"` or `'`)
pub fn quote(text: &str, q: char) -> String {
    let mut s = String::new();
    s.push(q);
    for c in text.chars() {
        if c == '\\' {
            s.push_str("\\\\");
        } else if c == q {
            s.push('\\');
            s.push(q);
        } else {
            s.push(c);
        }
    }
    s.push(q);
    s
}

/// same, with the escapes `\t`, `\n`, `\r` used for those characters now and then, either quote
pub fn quote_any(r: &mut Rng, text: &str) -> String {
    let q = if r.chance(75) { '"' } else { '\'' };
    let esc = r.chance(50);
    let mut s = String::new();
    s.push(q);
    for c in text.chars() {
        match c {
            '\\' => s.push_str("\\\\"),
            '\t' if esc => s.push_str("\\t"),
            '\n' if esc => s.push_str("\\n"),
            '\r' if esc => s.push_str("\\r"),
            c if c == q => {
                s.push('\\');
                s.push(q)
            }
            // the other quote character may be escaped too
            '"' | '\'' if esc => {
                s.push('\\');
                s.push(c)
            }
            c => s.push(c),
        }
    }
    s.push(q);
    s
}

/* ------------------------------------------------------------------------------------------ */
/* generators                                                                                  */
/* ------------------------------------------------------------------------------------------ */

/// push one "keyword character" (one or two chars: `\"` counts as one)
fn push_kw_char(r: &mut Rng, s: &mut String) {
    match r.below(100) {
        0..=54 => s.push(*r.pick(ALNUM)),
        55..=64 => s.push(' '),
        65..=86 => s.push(*r.pick(META)),
        87..=90 => s.push('"'),
        91..=93 => s.push('\''),
        94..=96 => s.push_str("\\\""),
        _ => s.push('\t'),
    }
}

pub fn truncate_chars(s: &str, n: usize) -> String {
    s.chars().take(n).collect()
}

fn insert_at_char(s: &str, at: usize, c: char) -> String {
    let mut v: Vec<char> = s.chars().collect();
    let at = at.min(v.len());
    v.insert(at, c);
    v.into_iter().collect()
}

/// keyword text of at most 12 chars: 1..4 segments of the small alphabet, regex metacharacters,
/// blanks, tabs, quotes and `\"`, joined by `*`, with optional leading / trailing / doubled `*`;
/// about 5 % carry a cased non-ASCII letter
pub fn gen_keyword(r: &mut Rng) -> String {
    let nseg = match r.below(10) {
        0..=3 => 1,
        4..=6 => 2,
        7..=8 => 3,
        _ => 4,
    };
    let mut s = String::new();
    if r.chance(12) {
        s.push('*');
    }
    for i in 0..nseg {
        if i > 0 {
            s.push('*');
            if r.chance(8) {
                s.push('*');
            }
        }
        let len = match r.below(10) {
            0 => 0,
            1..=4 => 1,
            5..=7 => 2,
            _ => 3,
        };
        for _ in 0..len {
            push_kw_char(r, &mut s);
        }
    }
    if r.chance(15) {
        s.push('*');
    }
    if r.chance(5) {
        let n = s.chars().count();
        s = insert_at_char(&s, r.below(n + 1), *r.pick(CASED));
    }
    let s = truncate_chars(&s, 12);
    if s.is_empty() {
        "a".to_string()
    } else {
        s
    }
}

pub fn junk(r: &mut Rng, max: usize) -> String {
    let n = r.below(max + 1);
    let mut s = String::new();
    for _ in 0..n {
        match r.below(100) {
            0..=59 => s.push(*r.pick(ALNUM)),
            60..=74 => s.push(' '),
            75..=92 => s.push(*r.pick(META)),
            93..=95 => s.push('"'),
            96..=97 => s.push('\''),
            _ => s.push('\t'),
        }
    }
    s
}

/// a spelling of `seg` the keyword must still match: ASCII case flipped at random, a blank
/// replaced by some whitespace (`nl` allows a newline there)
pub fn variant(r: &mut Rng, seg: &str, nl: bool) -> String {
    seg.chars()
        .map(|c| {
            if c == ' ' {
                if r.chance(50) {
                    ' '
                } else {
                    let w = *r.pick(BLANKS);
                    if w == '\n' && !nl {
                        '\t'
                    } else {
                        w
                    }
                }
            } else if c.is_ascii_alphabetic() && r.chance(40) {
                if c.is_ascii_lowercase() {
                    c.to_ascii_uppercase()
                } else {
                    c.to_ascii_lowercase()
                }
            } else {
                c
            }
        })
        .collect()
}

/// a spelling of `seg` that should NOT match any more (one char dropped or replaced)
pub fn damaged(r: &mut Rng, seg: &str) -> String {
    let v: Vec<char> = seg.chars().collect();
    if v.is_empty() {
        return String::new();
    }
    let i = r.below(v.len());
    let mut out: Vec<char> = v.clone();
    if r.chance(50) {
        out.remove(i);
    } else {
        out[i] = if v[i] == 'z' { 'y' } else { 'z' };
    }
    out.into_iter().collect()
}

/// the pieces of a keyword the line generator embeds: the whole (normalised) text for an exact
/// keyword, the `*`-separated segments for a wildcard keyword
pub fn pieces(kind: Kind, text: &str) -> Vec<String> {
    let norm = normalize_kw(text);
    match kind {
        Kind::Exact => vec![norm],
        Kind::Wild => norm.split('*').map(|s| s.to_string()).collect(),
    }
}

/// a line of at most 80 chars around the keyword's pieces
pub fn gen_line(r: &mut Rng, kind: Kind, text: &str) -> String {
    let segs = pieces(kind, text);
    let mut out = String::new();
    if r.chance(60) {
        out.push_str(&junk(r, 5));
    }
    let gap = |r: &mut Rng| if r.chance(45) { String::new() } else { junk(r, 4).replace('\n', "") };
    let single = segs.len() == 1;
    // modes that need two pieces fall back to a damaged / partial spelling for a single piece
    let mode = match r.below(100) {
        0..=37 => 0,                              // in order
        38..=55 => 1,                             // in order, one piece damaged
        56..=63 => if single { 1 } else { 2 },    // out of order
        64..=70 => if single { 7 } else { 3 },    // overlapping
        71..=76 => 4,                             // the text itself, stars and all
        77..=86 => 5,                             // junk only
        87..=93 => if single { 1 } else { 6 },    // newline inside a gap
        _ => 8,                                   // twice
    };
    match mode {
        0 => {
            for (i, s) in segs.iter().enumerate() {
                if i > 0 {
                    out.push_str(&gap(r));
                }
                out.push_str(&variant(r, s, true));
            }
        }
        1 => {
            let bad = r.below(segs.len());
            for (i, s) in segs.iter().enumerate() {
                if i > 0 {
                    out.push_str(&gap(r));
                }
                if i == bad {
                    out.push_str(&damaged(r, s));
                } else {
                    out.push_str(&variant(r, s, false));
                }
            }
        }
        2 => {
            let mut idx: Vec<usize> = (0..segs.len()).collect();
            r.shuffle(&mut idx);
            if idx.windows(2).all(|w| w[0] < w[1]) {
                idx.reverse();
            }
            for (n, i) in idx.iter().enumerate() {
                if n > 0 {
                    out.push_str(&gap(r));
                }
                out.push_str(&variant(r, &segs[*i], false));
            }
        }
        // overlapping: the next piece starts inside the previous one
        3 => {
            for (i, s) in segs.iter().enumerate() {
                let v = variant(r, s, false);
                if i > 0 {
                    out.push_str(&v.chars().skip(1).collect::<String>());
                } else {
                    out.push_str(&v);
                }
            }
        }
        4 => out.push_str(&variant(r, &normalize_kw(text), false)),
        5 => out.push_str(&junk(r, 12)),
        6 => {
            let at = 1 + r.below(segs.len() - 1);
            for (i, s) in segs.iter().enumerate() {
                if i > 0 {
                    out.push_str(&gap(r));
                    if i == at {
                        out.push('\n');
                        out.push_str(&gap(r));
                    }
                }
                out.push_str(&variant(r, s, false));
            }
        }
        // partial: the piece without its last (or first) character
        7 => {
            let v: Vec<char> = variant(r, &segs[0], false).chars().collect();
            if !v.is_empty() {
                let cut: String = if r.chance(50) { v[..v.len() - 1].iter().collect() } else { v[1..].iter().collect() };
                out.push_str(&cut);
            }
        }
        // twice: a damaged occurrence first, a good one later (or the other way round)
        _ => {
            let first_good = r.chance(50);
            for round in 0..2 {
                for (i, s) in segs.iter().enumerate() {
                    if i > 0 {
                        out.push_str(&gap(r));
                    }
                    if (round == 0) == first_good {
                        out.push_str(&variant(r, s, false));
                    } else {
                        out.push_str(&damaged(r, s));
                    }
                }
                out.push_str(&junk(r, 2));
            }
        }
    }
    if r.chance(50) {
        out.push_str(&junk(r, 5));
    }
    if r.chance(12) {
        out.push('\n');
        if r.chance(30) {
            out.push_str(&junk(r, 3));
        }
    }
    if r.chance(4) {
        let n = out.chars().count();
        out = insert_at_char(&out, r.below(n + 1), *r.pick(CASED));
    }
    truncate_chars(&out, 80)
}

#[cfg(test)]
mod tests {
    use super::*;
    #[test]
    fn oracle_basics() {
        assert!(kw_spec(Kind::Wild, "a*b", "xxAyyB"));
        assert!(!kw_spec(Kind::Wild, "a*b", "xxA\nB"));
        assert!(kw_spec(Kind::Wild, "a*b", "a\nab"));
        assert!(kw_spec(Kind::Exact, "a*b", "xa*B"));
        assert!(!kw_spec(Kind::Exact, "a*b", "xaab"));
        assert!(kw_spec(Kind::Wild, "a b", "A\u{2003}b"));
        assert!(!kw_spec(Kind::Wild, "a\tb", "a b"));
        assert!(kw_spec(Kind::Wild, "a*", "xa  "));
        assert!(!kw_spec(Kind::Wild, "a*", "xa\n"));
        assert!(kw_spec(Kind::Wild, "a*", "a\nxa"));
        assert_eq!(kw_caps(Kind::Wild, "a*b*", "xaabb").unwrap().1, vec!["a".to_string(), "b".to_string()]);
        assert_eq!(kw_caps(Kind::Wild, "*a**", "xay").unwrap().1, vec!["x".to_string(), "".to_string(), "y".to_string()]);
        assert!(kw_spec(Kind::Wild, "\\\"", "say \"x\""));
        assert_eq!(quote("a\\\"b", '"'), "\"a\\\\\\\"b\"");
    }
}
