//! C05: expressions evaluate with conventional, self-consistent semantics.
//! P-level: an independent reference evaluator of the DOCUMENTED semantics (precedence by rendering
//! with minimal parentheses, exact integer arithmetic, IEEE division/mixed arithmetic with integral
//! results as integers, one total value order with mutually consistent comparison operators,
//! short-circuit and/or, lazy if, the documented functions, timeslice) against the real code.
//! F-level: real code = Lean model on the same queries.
use super::common::*;
use crate::canon::{self, J};
use crate::imp;
use crate::rng::Rng;
use crate::Ctx;
use std::cmp::Ordering;

#[derive(Clone, Debug, PartialEq)]
enum V {
    None,
    Bool(bool),
    Int(i64),
    Float(f64),
    Str(String),
    Other, // arrays / objects: only equality-free uses
}

#[derive(Clone, Debug)]
enum E {
    Col(&'static str),
    Int(i64),
    Str(&'static str),
    Bool(bool),
    Null,
    Bin(&'static str, Box<E>, Box<E>),
    Not(Box<E>),
    If(Box<E>, Box<E>, Box<E>),
    Call(&'static str, Vec<E>),
}

/// Unknown = the documented semantics leave the outcome open (e.g. i64 overflow: "an error or a float")
enum R {
    Val(V),
    Err,
    Unknown,
}

fn norm(f: f64) -> V {
    if f.is_finite() && f.fract() == 0.0 && f >= -9223372036854775808.0 && f < 9223372036854775808.0 {
        V::Int(f as i64)
    } else {
        V::Float(f)
    }
}

fn rank(v: &V) -> u8 {
    match v {
        V::None => 0,
        V::Bool(_) => 1,
        V::Int(_) | V::Float(_) => 2,
        V::Str(_) => 3,
        V::Other => 6,
    }
}

fn vcmp(a: &V, b: &V) -> Option<Ordering> {
    Some(match (a, b) {
        (V::Bool(x), V::Bool(y)) => x.cmp(y),
        (V::Int(x), V::Int(y)) => x.cmp(y),
        (V::Int(x), V::Float(y)) => (*x as f64).partial_cmp(y)?,
        (V::Float(x), V::Int(y)) => x.partial_cmp(&(*y as f64))?,
        (V::Float(x), V::Float(y)) => x.partial_cmp(y)?,
        (V::Str(x), V::Str(y)) => x.cmp(y),
        (V::Other, V::Other) => return None,
        _ => rank(a).cmp(&rank(b)),
    })
}

/// could a text be one of the "strings that can automatically be converted" to a number? (whole
/// text a number in some spelling — `inf`, `nan`, `1e3` included — or any digit / dot inside it);
/// everything else is certainly not a number
fn maybe_numeric_text(s: &str) -> bool {
    s.trim().parse::<f64>().is_ok() || s.chars().any(|c| c.is_numeric() || c == '.')
}

fn of_json(j: &J) -> V {
    match j {
        J::Null => V::None,
        J::Bool(b) => V::Bool(*b),
        J::Int(i) => V::Int(*i),
        J::Float(f) => norm(*f),
        J::Str(s) => V::Str(s.clone()),
        _ => V::Other,
    }
}

fn display(v: &V) -> Option<String> {
    match v {
        V::None => Some("None".into()),
        V::Bool(b) => Some(format!("{}", b)),
        V::Int(i) => Some(format!("{}", i)),
        V::Float(f) => Some(format!("{}", f)),
        V::Str(s) => Some(s.clone()),
        V::Other => None,
    }
}

fn eval(e: &E, doc: &[(String, J)]) -> R {
    use R::*;
    match e {
        E::Col(c) => match doc.iter().rev().find(|kv| kv.0 == *c) {
            Some(kv) => Val(of_json(&kv.1)),
            None => Err,
        },
        E::Int(i) => Val(V::Int(*i)),
        E::Str(s) => Val(V::Str(s.to_string())),
        E::Bool(b) => Val(V::Bool(*b)),
        E::Null => Val(V::None),
        E::Not(x) => match eval(x, doc) {
            Val(V::Bool(b)) => Val(V::Bool(!b)),
            Val(_) => Err,
            o => o,
        },
        E::If(c, t, f) => match eval(c, doc) {
            Val(V::Bool(true)) => eval(t, doc),
            Val(V::Bool(false)) => eval(f, doc),
            Val(_) => Err,
            o => o,
        },
        E::Bin(op, l, r) if *op == "and" || *op == "or" => match eval(l, doc) {
            Val(V::Bool(lb)) => {
                if (*op == "and" && !lb) || (*op == "or" && lb) {
                    Val(V::Bool(lb))
                } else {
                    eval(r, doc)
                }
            }
            Val(_) => Err,
            o => o,
        },
        E::Bin(op, l, r) => {
            let (a, b) = match (eval(l, doc), eval(r, doc)) {
                (Val(a), Val(b)) => (a, b),
                (Err, _) | (_, Err) => return Err,
                _ => return Unknown,
            };
            match *op {
                "+" | "-" | "*" | "/" => {
                    if let (V::Int(x), V::Int(y)) = (&a, &b) {
                        let exact = match *op {
                            "+" => Some(*x as i128 + *y as i128),
                            "-" => Some(*x as i128 - *y as i128),
                            "*" => Some(*x as i128 * *y as i128),
                            _ => None,
                        };
                        if let Some(z) = exact {
                            return if z >= i64::MIN as i128 && z <= i64::MAX as i128 { Val(V::Int(z as i64)) } else { Unknown };
                        }
                    }
                    // operands: numbers; a string that cannot be read as a number is a wrong type, a
                    // string that might be (digits, a dot, `inf`, `nan` …) is C08's subject: open here
                    let operand = |v: &V| -> Result<Option<f64>, ()> {
                        match v {
                            V::Int(x) => Ok(Some(*x as f64)),
                            V::Float(x) => Ok(Some(*x)),
                            V::Str(s) if maybe_numeric_text(s) => Ok(None),
                            _ => Result::Err(()),
                        }
                    };
                    let (fa, fb) = match (operand(&a), operand(&b)) {
                        (Result::Err(()), _) | (_, Result::Err(())) => return Err,
                        (Ok(Some(x)), Ok(Some(y))) => (x, y),
                        _ => return Unknown,
                    };
                    let r = match *op {
                        "+" => fa + fb,
                        "-" => fa - fb,
                        "*" => fa * fb,
                        _ => fa / fb,
                    };
                    Val(norm(r))
                }
                _ => {
                    let o = match vcmp(&a, &b) {
                        Some(o) => o,
                        None => return Unknown,
                    };
                    Val(V::Bool(match *op {
                        "==" => o == Ordering::Equal,
                        "!=" | "<>" => o != Ordering::Equal,
                        "<" => o == Ordering::Less,
                        "<=" => o != Ordering::Greater,
                        ">" => o == Ordering::Greater,
                        _ => o != Ordering::Less,
                    }))
                }
            }
        }
        E::Call(name, args) => {
            let mut vs = vec![];
            for a in args {
                match eval(a, doc) {
                    Val(v) => vs.push(v),
                    Err => return Err,
                    Unknown => return Unknown,
                }
            }
            let numeric = |v: &V| match v {
                V::Int(x) => Some(*x as f64),
                V::Float(x) => Some(*x),
                _ => None,
            };
            match (*name, vs.as_slice()) {
                ("abs", [x]) | ("ceil", [x]) | ("floor", [x]) | ("round", [x]) => match numeric(x) {
                    Some(f) => Val(norm(match *name {
                        "abs" => f.abs(),
                        "ceil" => f.ceil(),
                        "floor" => f.floor(),
                        _ => f.round(),
                    })),
                    None => match x {
                        V::Str(_) => Unknown, // string → number coercion is C08's subject
                        _ => Err,
                    },
                },
                ("isNull", [x]) => Val(V::Bool(*x == V::None)),
                ("isEmpty", [x]) => Val(V::Bool(match x {
                    V::None => true,
                    V::Str(s) => s.is_empty(),
                    _ => false,
                })),
                ("isBlank", [x]) => Val(V::Bool(match x {
                    V::None => true,
                    V::Str(s) => s.trim().is_empty(),
                    _ => false,
                })),
                ("length", [x]) => match x {
                    V::Other => Unknown,
                    v => Val(V::Int(display(v).unwrap().chars().count() as i64)),
                },
                ("contains", [a, b]) => match (display(a), display(b)) {
                    (Some(x), Some(y)) => Val(V::Bool(x.contains(&y))),
                    _ => Unknown,
                },
                ("concat", vs) => {
                    let mut s = String::new();
                    for v in vs {
                        match display(v) {
                            Some(x) => s.push_str(&x),
                            None => return Unknown,
                        }
                    }
                    Val(V::Str(s))
                }
                ("substring", [s, a, b]) => match (display(s), a, b) {
                    (Some(s), V::Int(a), V::Int(b)) if *a >= 0 && *b >= 0 => {
                        if b < a {
                            Err
                        } else {
                            Val(V::Str(s.chars().skip(*a as usize).take((*b - *a) as usize).collect()))
                        }
                    }
                    _ => Unknown,
                },
                _ => Unknown,
            }
        }
    }
}

fn prec(e: &E) -> u8 {
    match e {
        E::Bin(op, ..) => match *op {
            "or" => 1,
            "and" => 2,
            "==" | "!=" | "<>" | "<" | "<=" | ">" | ">=" => 3,
            "+" | "-" => 4,
            _ => 5,
        },
        _ => 9,
    }
}

/// minimal parentheses under: `* /` > `+ -` > comparisons > and > or, left-associative;
/// comparisons do not chain
fn render(e: &E, r: &mut Rng) -> String {
    match e {
        E::Col(c) => c.to_string(),
        E::Int(i) => format!("{}", i),
        E::Str(s) => format!("\"{}\"", s),
        E::Bool(b) => format!("{}", b),
        E::Null => "null".into(),
        E::Not(x) => format!("!({})", render(x, r)),
        E::If(c, t, f) => format!("if({}, {}, {})", render(c, r), render(t, r), render(f, r)),
        E::Call(n, args) => format!("{}({})", n, args.iter().map(|a| render(a, r)).collect::<Vec<_>>().join(", ")),
        E::Bin(op, l, rr) => {
            let p = prec(e);
            let ls = if prec(l) < p || (p == 3 && prec(l) == 3) { format!("({})", render(l, r)) } else { render(l, r) };
            let rs = if prec(rr) <= p { format!("({})", render(rr, r)) } else { render(rr, r) };
            let opt = match *op {
                "and" => *r.pick(&["and", "&&"]),
                "or" => *r.pick(&["or", "||"]),
                o => o,
            };
            if *op == "and" || *op == "or" || r.chance(70) { format!("{} {} {}", ls, opt, rs) } else { format!("{}{}{}", ls, opt, rs) }
        }
    }
}

fn gen_num(r: &mut Rng, d: usize) -> E {
    if d == 0 || r.chance(40) {
        return match r.below(6) {
            0 | 1 => E::Col("n"),
            2 => E::Col("x"),
            3 => E::Col("m"),
            4 => E::Int(r.range(0, 12)),
            _ => E::Col("missing"),
        };
    }
    match r.below(8) {
        0 | 1 | 2 | 3 => E::Bin(*r.pick(&["+", "-", "*", "/"]), Box::new(gen_num(r, d - 1)), Box::new(gen_num(r, d - 1))),
        4 => E::Call(*r.pick(&["abs", "ceil", "floor", "round"]), vec![gen_num(r, d - 1)]),
        5 => E::If(Box::new(gen_bool(r, d - 1)), Box::new(gen_num(r, d - 1)), Box::new(gen_num(r, d - 1))),
        6 => E::Call("length", vec![E::Col(*r.pick(&["s", "k", "n"]))]),
        _ => E::Bin(*r.pick(&["+", "*"]), Box::new(E::Col("n")), Box::new(E::Int(r.range(0, 9)))),
    }
}

fn gen_bool(r: &mut Rng, d: usize) -> E {
    if d == 0 || r.chance(35) {
        return match r.below(7) {
            0 | 1 => E::Bin(*r.pick(&["==", "!=", "<>", "<", "<=", ">", ">="]), Box::new(gen_num(r, 0)), Box::new(gen_num(r, 0))),
            2 => E::Bin(*r.pick(&["==", "<", ">", "!="]), Box::new(E::Col(*r.pick(&["s", "k"]))), Box::new(E::Str(*r.pick(&["a", "b", "alpha", "err", ""])))),
            3 => E::Col("b"),
            4 => E::Call(*r.pick(&["isNull", "isEmpty", "isBlank"]), vec![E::Col(*r.pick(&["s", "k", "b", "missing", "n"]))]),
            5 => E::Call("contains", vec![E::Col("s"), E::Str(*r.pick(&["a", "e", "GET", ""]))]),
            _ => E::Bin(*r.pick(&["==", "<", ">="]), Box::new(E::Col(*r.pick(&["n", "k", "b", "s"]))), Box::new(E::Col(*r.pick(&["x", "k", "s", "n"])))),
        };
    }
    match r.below(5) {
        0 | 1 => E::Bin("and", Box::new(gen_bool(r, d - 1)), Box::new(gen_bool(r, d - 1))),
        2 | 3 => E::Bin("or", Box::new(gen_bool(r, d - 1)), Box::new(gen_bool(r, d - 1))),
        _ => E::Not(Box::new(gen_bool(r, d - 1))),
    }
}

fn gen_any(r: &mut Rng, d: usize) -> E {
    match r.below(6) {
        0 | 1 | 2 => gen_num(r, d),
        3 | 4 => gen_bool(r, d),
        _ => match r.below(3) {
            0 => E::Call("concat", vec![E::Col(*r.pick(&["s", "k", "n"])), E::Str(*r.pick(&["-", "x", ""]))]),
            1 => E::Call("substring", vec![E::Col("s"), E::Int(r.range(0, 3)), E::Int(r.range(0, 6))]),
            _ => E::If(Box::new(gen_bool(r, 1)), Box::new(E::Col("s")), Box::new(E::Str("other"))),
        },
    }
}

/// documents: id plus scalar fields; numeric fields never as digit-strings (C08's subject)
fn doc(r: &mut Rng, id: usize) -> String {
    let mut m = vec![format!("\"id\":{}", id)];
    if r.chance(90) {
        m.push(format!("\"n\":{}", r.range(-9, 30)));
    }
    if r.chance(85) {
        let v = match r.below(6) {
            0 => "null".to_string(),
            1 => format!("{}", r.range(-40, 40)),
            2 => "true".to_string(),
            _ => format!("{}.{}", r.range(-40, 40), *r.pick(&[5, 25, 75, 1, 125])),
        };
        m.push(format!("\"x\":{}", v));
    }
    if r.chance(80) {
        m.push(format!("\"m\":{}", *r.pick(&["0", "1", "2", "-3", "0.5", "2.5", "100", "9007199254740993", "4611686018427387904"])));
    }
    if r.chance(85) {
        m.push(format!("\"s\":\"{}\"", *r.pick(&["alpha", "beta", "GET", "err", "", " ", "a", "héllo", "Zed"])));
    }
    if r.chance(80) {
        m.push(format!("\"k\":{}", *r.pick(&["\"a\"", "\"b\"", "null", "3", "\"alpha\""])));
    }
    if r.chance(70) {
        m.push(format!("\"b\":{}", *r.pick(&["true", "false", "true", "false", "null", "1"])));
    }
    format!("{{{}}}", m.join(","))
}

fn same(v: &V, j: &J) -> bool {
    match (v, j) {
        (V::None, J::Null) => true,
        (V::Bool(a), J::Bool(b)) => a == b,
        (V::Int(a), J::Int(b)) => a == b,
        (V::Float(a), J::Float(b)) => a.to_bits() == b.to_bits() || (a.is_nan() && b.is_nan()),
        (V::Float(a), J::Null) => !a.is_finite(),
        (V::Str(a), J::Str(b)) => a == b,
        _ => false,
    }
}

/// civil date of a day count since 1970-01-01 (proleptic Gregorian; Howard Hinnant's algorithm)
fn civil(days: i64) -> (i64, u32, u32) {
    let z = days + 719468;
    let era = z.div_euclid(146097);
    let doe = z.rem_euclid(146097);
    let yoe = (doe - doe / 1460 + doe / 36524 - doe / 146096) / 365;
    let doy = doe - (365 * yoe + yoe / 4 - yoe / 100);
    let mp = (5 * doy + 2) / 153;
    let d = (doy - (153 * mp + 2) / 5 + 1) as u32;
    let m = if mp < 10 { mp + 3 } else { mp - 9 } as u32;
    (yoe + era * 400 + if m <= 2 { 1 } else { 0 }, m, d)
}

fn iso(ms: i64) -> String {
    let (days, rem) = (ms.div_euclid(86_400_000), ms.rem_euclid(86_400_000));
    let (y, m, d) = civil(days);
    let (h, mi, s, milli) = (rem / 3_600_000, rem / 60_000 % 60, rem / 1000 % 60, rem % 1000);
    if milli == 0 {
        format!("{:04}-{:02}-{:02}T{:02}:{:02}:{:02}Z", y, m, d, h, mi, s)
    } else {
        format!("{:04}-{:02}-{:02}T{:02}:{:02}:{:02}.{:03}Z", y, m, d, h, mi, s, milli)
    }
}

/// `timeslice(t) d` = the latest multiple of d since the Unix epoch that is not after t — for
/// instants on both sides of the epoch, inside a slice and exactly on a boundary
fn check_timeslice(ctx: &mut Ctx) {
    const DURS: &[(&str, i64)] = &[("1s", 1000), ("30s", 30_000), ("1m", 60_000), ("1m30s", 90_000), ("5m", 300_000), ("15m", 900_000), ("1h", 3_600_000), ("6h", 21_600_000), ("1d", 86_400_000), ("1w", 604_800_000), ("250ms", 250)];
    let n = ctx.budget(400, 20000);
    for _ in 0..n {
        let mut r = ctx.rng.fork();
        let (dtxt, dms) = *r.pick(DURS);
        let mut input = vec![];
        let nrows = 1 + r.below(6);
        for i in 0..nrows {
            // 1902 … 2037, half of them before 1970
            let base = r.range(0, 2_140_000_000) * 1000 * if r.chance(50) { -1 } else { 1 };
            let t = match r.below(4) {
                0 => base.div_euclid(dms) * dms,           // exactly on a boundary
                1 => base.div_euclid(dms) * dms + dms - 1, // last millisecond of a slice
                2 => base.div_euclid(dms) * dms + 1,
                _ => base + r.range(0, 999),
            };
            let want = t.div_euclid(dms) * dms;
            input.extend(format!("{{\"id\":{},\"ts\":\"{}\",\"want\":\"{}\"}}\n", i, iso(t), iso(want)).into_bytes());
        }
        let q = format!("* | json | timeslice(parseDate(ts)) {} as s | parseDate(want) as w | fields id, s, w", dtxt);
        let key = ckey(&q, &input);
        let info = serde_json::json!({"query": q, "input": String::from_utf8_lossy(&input)});
        let c = run_both(ctx, &q, &input);
        if !c.imp.compiled || c.imp.panicked.is_some() || c.imp.hung {
            ctx.case("timeslice", &key, "viol", serde_json::json!({"class": "", "what": "timeslice query did not run", "panic": c.imp.panicked, "compile_err": c.imp.compile_err, "case": info}));
            continue;
        }
        let out = canon::normalized_lines(&c.imp.stdout).unwrap_or_default();
        let mut problem: Option<String> = None;
        if out.len() != nrows {
            problem = Some(format!("{} rows out of {} lines", out.len(), nrows));
        }
        for row in &out {
            if let J::Obj(kvs) = row {
                let get = |k: &str| kvs.iter().find(|kv| kv.0 == k).map(|kv| kv.1.clone());
                if get("s").is_none() || get("s") != get("w") {
                    problem = Some(format!("row {:?}: slice start {:?}, the latest multiple of {} not after the instant is {:?}", get("id"), get("s"), dtxt, get("w")));
                }
            }
        }
        match problem {
            Some(w) => {
                ctx.case("timeslice", &key, "viol", serde_json::json!({"class": "", "what": w, "got": String::from_utf8_lossy(&c.imp.stdout), "case": info}));
                continue;
            }
            None => ctx.case("timeslice", &key, "pass", info.clone()),
        }
        match compare(&c, true) {
            F::Agree => ctx.case("model", &key, "pass", info),
            F::Skip(w) => ctx.case("model", "", "skip", serde_json::json!({"why": w.split(':').next().unwrap_or("").to_string()})),
            F::Disagree(d) => ctx.case("model", &key, "fdis", serde_json::json!({"what": d, "case": info})),
        }
    }
}

/// integer arithmetic at the edges of the i64 range: the result is the exact integer when it fits,
/// otherwise a double close to the exact value (or an error) — never a different integer; and the
/// comparison operators stay mutually consistent on such results
fn check_int_boundaries(ctx: &mut Ctx) {
    let n = ctx.budget(300, 20000);
    let edge: [i64; 12] = [i64::MAX, i64::MAX - 1, i64::MIN, i64::MIN + 1, 4611686018427387904, -4611686018427387904, 4611686018427387903, 9007199254740992, 9007199254740993, 3037000500, 1, -1];
    for _ in 0..n {
        let mut r = ctx.rng.fork();
        let (a, b) = (*r.pick(&edge), *r.pick(&[1i64, -1, 2, -2, 0, 3037000500, i64::MAX, i64::MIN, 4611686018427387904]));
        let (op, exact): (&str, Option<i128>) = match r.below(3) {
            0 => ("+", Some(a as i128 + b as i128)),
            1 => ("-", Some(a as i128 - b as i128)),
            _ => ("*", Some(a as i128 * b as i128)),
        };
        let exact = exact.unwrap();
        let input = format!("{{\"a\":{},\"b\":{}}}\n", a, b);
        let q = format!("* | json | a {} b as r | r == a as same | r > a as gt | r < a as lt | fields r, same, gt, lt", op);
        let key = format!("int-boundaries:{} {} {}", a, op, b);
        let c = run_both(ctx, &q, input.as_bytes());
        let info = serde_json::json!({"query": q, "input": input, "exact_result": exact.to_string()});
        if !c.imp.compiled || c.imp.panicked.is_some() || c.imp.hung {
            ctx.case("int-boundaries", &key, "viol", serde_json::json!({"class": "", "what": "did not run", "panic": c.imp.panicked, "case": info}));
            continue;
        }
        let rows = canon::normalized_lines(&c.imp.stdout).unwrap_or_default();
        let mut problem: Option<String> = None;
        let mut known: Option<String> = None;
        if let Some(J::Obj(kvs)) = rows.first() {
            let get = |k: &str| kvs.iter().find(|kv| kv.0 == k).map(|kv| kv.1.clone());
            match get("r") {
                Some(J::Int(g)) => {
                    // the exact integer — or, when that does not fit, the double nearest to it, which is
                    // shown as an integer when it is one inside the range (−2^63 is)
                    let fits = exact >= i64::MIN as i128 && exact <= i64::MAX as i128;
                    if g as i128 != exact && (fits || (g as f64) != (exact as f64) || g != i64::MIN) {
                        problem = Some(format!("{} {} {} = {} but the result is the integer {}", a, op, b, exact, g));
                    }
                }
                Some(J::Float(g)) => {
                    if exact >= i64::MIN as i128 && exact <= i64::MAX as i128 {
                        problem = Some(format!("{} {} {} = {} fits an integer but the result is the double {}", a, op, b, exact, g));
                    } else if (g - exact as f64).abs() > 1e-12 * (exact as f64).abs() {
                        problem = Some(format!("{} {} {} = {} but the result is {}", a, op, b, exact, g));
                    }
                }
                other => problem = Some(format!("result {:?}", other)),
            }
            // the comparisons of the result with `a` must not contradict the true order of a op b and a,
            // and exactly one of <, ==, > must hold
            let flags: Vec<bool> = ["lt", "same", "gt"].iter().map(|k| get(k) == Some(J::Bool(true))).collect();
            // (a result outside the i64 range is a double: it is compared as the double it is)
            let fits = exact >= i64::MIN as i128 && exact <= i64::MAX as i128;
            let truth = if fits { exact.cmp(&(a as i128)) } else { (exact as f64).partial_cmp(&(a as f64)).unwrap_or(Ordering::Equal) };
            if problem.is_none() && ((flags[1] && truth != Ordering::Equal) || (flags[0] && truth == Ordering::Greater) || (flags[2] && truth == Ordering::Less)) {
                problem = Some(format!("r = {:?}: r < a, r == a, r > a are {:?}, but {} {} {} = {} is {:?} than/to a", get("r"), flags, a, op, b, exact, truth));
            }
            if problem.is_none() && flags.iter().filter(|x| **x).count() != 1 {
                known = Some(format!("r = {:?} against a = {}: r < a, r == a, r > a are {:?} (exactly one must hold)", get("r"), a, flags));
            }
        } // no row: the operation was reported as an error — allowed for unrepresentable results
        else if exact >= i64::MIN as i128 && exact <= i64::MAX as i128 {
            problem = Some(format!("{} {} {} = {} is representable but the row was dropped", a, op, b, exact));
        }
        match problem {
            Some(w) => {
                ctx.case("int-boundaries", &key, "viol", serde_json::json!({"class": "", "what": w, "got": String::from_utf8_lossy(&c.imp.stdout), "case": info}));
                continue;
            }
            None => {
                if let Some(w) = known {
                    // (was the open finding C05/int-vs-float-comparison-beyond-2^53, repaired in /repo
                    // 8e2945c: integers and doubles are compared exactly — an ordinary violation now)
                    ctx.case("int-boundaries", &key, "viol", serde_json::json!({"class": "C05/int-vs-float-comparison-beyond-2^53", "what": w, "got": String::from_utf8_lossy(&c.imp.stdout), "case": info}));
                } else {
                    ctx.case("int-boundaries", &key, "pass", info.clone());
                }
            }
        }
        match compare(&c, true) {
            F::Agree => ctx.case("model", &key, "pass", info),
            F::Skip(w) => ctx.case("model", "", "skip", serde_json::json!({"why": w.split(':').next().unwrap_or("").to_string()})),
            F::Disagree(d) => ctx.case("model", &key, "fdis", serde_json::json!({"what": d, "case": info})),
        }
    }
}

// ---------------------------------------------------------------------------------------------
// post-agg-expression: expressions evaluated on the rows of a TABLE (after an aggregation or a
// sort).  "A row on which the expression fails is dropped on its own": with R = the rows that the
// prefix `P` prints, `P | stage…` must print, for every row of R, what the reference evaluator
// gives on that row (value → the row plus the new field, `where` → kept / removed, failure → that
// row missing) and nothing else may be missing, added or — after an explicit sort — reordered.
// ---------------------------------------------------------------------------------------------

#[derive(Clone, Debug)]
enum Cell {
    Orig(J), // printed by the prefix query
    Comp(V), // computed by the reference evaluator
}

#[derive(Clone, Copy, PartialEq, Debug)]
enum Presence {
    Present,
    Gone,
    Open, // the documented semantics leave the outcome on this row open
}

#[derive(Clone, Debug)]
struct PaRow {
    ident: Vec<J>,
    cells: Vec<(String, Cell)>,
    presence: Presence,
    /// gone because the expression FAILED on the row (not because a condition was false)
    failed: bool,
}

enum PaStage {
    Where(E),
    Field(E, &'static str),
}

struct PaCols {
    /// columns holding group keys / raw fields of mixed types
    mixed: Vec<&'static str>,
    /// columns holding aggregate results
    nums: Vec<&'static str>,
}

fn pa_col(r: &mut Rng, p: &PaCols, prefer_mixed: usize) -> E {
    if (r.chance(prefer_mixed) || p.nums.is_empty()) && !p.mixed.is_empty() {
        E::Col(*r.pick(&p.mixed))
    } else if !p.nums.is_empty() {
        E::Col(*r.pick(&p.nums))
    } else {
        E::Col("missing")
    }
}

fn pa_operand(r: &mut Rng, p: &PaCols) -> E {
    let x = r.below(100);
    if x < 75 {
        pa_col(r, p, 70)
    } else if x < 96 {
        E::Int(r.range(0, 12))
    } else if x < 98 {
        E::Col("missing")
    } else {
        match r.below(3) {
            0 => E::Null,
            1 => E::Str("abc"),
            _ => E::Bool(true),
        }
    }
}

fn pa_num(r: &mut Rng, d: usize, p: &PaCols) -> E {
    if d == 0 || r.chance(25) {
        return pa_operand(r, p);
    }
    match r.below(10) {
        0..=4 => E::Bin(*r.pick(&["+", "-", "*", "/"]), Box::new(pa_num(r, d - 1, p)), Box::new(pa_num(r, d - 1, p))),
        5 => E::Bin(*r.pick(&["+", "-", "*", "/"]), Box::new(pa_col(r, p, 80)), Box::new(E::Int(r.range(0, 9)))),
        6 => E::Call(*r.pick(&["abs", "ceil", "floor", "round"]), vec![pa_num(r, d - 1, p)]),
        7 | 8 => E::If(Box::new(pa_bool(r, d - 1, p)), Box::new(pa_num(r, d - 1, p)), Box::new(pa_num(r, d - 1, p))),
        _ => E::Call("length", vec![pa_col(r, p, 80)]),
    }
}

fn pa_bool(r: &mut Rng, d: usize, p: &PaCols) -> E {
    if d == 0 || r.chance(40) {
        return match r.below(12) {
            // a group key as the condition itself: fails unless it is a boolean
            0 => pa_col(r, p, 100),
            1 => E::Not(Box::new(pa_col(r, p, 100))),
            2..=6 => E::Bin(*r.pick(&["==", "!=", "<>", "<", "<=", ">", ">="]), Box::new(pa_num(r, 0, p)), Box::new(pa_num(r, 0, p))),
            7 | 8 => E::Bin(*r.pick(&["==", "<", ">", "!="]), Box::new(pa_col(r, p, 90)), Box::new(E::Str(*r.pick(&["a", "abc", "zed", "", "true"])))),
            9 => E::Call(*r.pick(&["isNull", "isEmpty", "isBlank"]), vec![if r.chance(6) { E::Col("missing") } else { pa_col(r, p, 80) }]),
            10 => E::Call("contains", vec![pa_col(r, p, 90), E::Str(*r.pick(&["a", "e", "1", ""]))]),
            _ => E::Bin(*r.pick(&["==", "<", ">="]), Box::new(pa_col(r, p, 60)), Box::new(pa_col(r, p, 60))),
        };
    }
    match r.below(5) {
        0 | 1 => E::Bin("and", Box::new(pa_bool(r, d - 1, p)), Box::new(pa_bool(r, d - 1, p))),
        2 | 3 => E::Bin("or", Box::new(pa_bool(r, d - 1, p)), Box::new(pa_bool(r, d - 1, p))),
        _ => E::Not(Box::new(pa_bool(r, d - 1, p))),
    }
}

fn pa_stage(r: &mut Rng, p: &PaCols, fresh: &[&'static str]) -> PaStage {
    let d = 1 + r.below(2);
    match r.below(10) {
        0..=3 => PaStage::Where(pa_bool(r, d, p)),
        x => {
            let e = match x {
                4..=7 => pa_num(r, d, p),
                8 => pa_bool(r, d, p),
                _ => match r.below(3) {
                    0 => E::Call("concat", vec![pa_col(r, p, 70), E::Str(*r.pick(&["-", "x", ""])), pa_col(r, p, 30)]),
                    1 => E::Call("substring", vec![pa_col(r, p, 90), E::Int(r.range(0, 3)), E::Int(r.range(0, 6))]),
                    _ => E::If(Box::new(pa_bool(r, 1, p)), Box::new(pa_col(r, p, 70)), Box::new(E::Str("other"))),
                },
            };
            // the result goes into a new column, or replaces an aggregate column (never a key)
            let over: Vec<&'static str> = p.nums.iter().copied().filter(|c| *c != "id").collect();
            let name = if r.chance(12) && !over.is_empty() { *r.pick(&over) } else { *r.pick(fresh) };
            PaStage::Field(e, name)
        }
    }
}

fn pa_cols_of(e: &E, out: &mut Vec<&'static str>) {
    match e {
        E::Col(c) => out.push(c),
        E::Bin(_, l, r) => {
            pa_cols_of(l, out);
            pa_cols_of(r, out);
        }
        E::Not(x) => pa_cols_of(x, out),
        E::If(a, b, c) => {
            pa_cols_of(a, out);
            pa_cols_of(b, out);
            pa_cols_of(c, out);
        }
        E::Call(_, args) => args.iter().for_each(|a| pa_cols_of(a, out)),
        _ => {}
    }
}

fn pa_v_to_j(v: &V) -> J {
    match v {
        V::None | V::Other => J::Null,
        V::Bool(b) => J::Bool(*b),
        V::Int(i) => J::Int(*i),
        V::Float(f) => J::Float(*f),
        V::Str(s) => J::Str(s.clone()),
    }
}

/// the reference: one stage applied to one table row. `ident_cols`: the columns whose printed
/// `null` is a real None (group keys); a printed null in any other column of the prefix's output
/// may also be a NaN / infinity (JSON has no spelling for them): an expression reading it is open.
fn pa_apply(st: &PaStage, row: &mut PaRow, ident_cols: &[&'static str]) {
    if row.presence != Presence::Present {
        return; // gone stays gone; open stays open
    }
    let e = match st {
        PaStage::Where(e) | PaStage::Field(e, _) => e,
    };
    let mut used = vec![];
    pa_cols_of(e, &mut used);
    let ambiguous = row.cells.iter().any(|(n, c)| matches!(c, Cell::Orig(J::Null)) && !ident_cols.contains(&n.as_str()) && used.contains(&n.as_str()));
    let doc: Vec<(String, J)> = row
        .cells
        .iter()
        .map(|(n, c)| {
            (
                n.clone(),
                match c {
                    Cell::Orig(j) => j.clone(),
                    Cell::Comp(v) => pa_v_to_j(v),
                },
            )
        })
        .collect();
    let res = if ambiguous { R::Unknown } else { eval(e, &doc) };
    match (st, res) {
        (_, R::Unknown) | (PaStage::Field(..), R::Val(V::Other)) => row.presence = Presence::Open,
        (_, R::Err) => {
            row.presence = Presence::Gone;
            row.failed = true;
        }
        (PaStage::Where(_), R::Val(V::Bool(true))) => {}
        (PaStage::Where(_), R::Val(V::Bool(false))) => row.presence = Presence::Gone,
        // not a boolean: the condition fails on this row
        (PaStage::Where(_), R::Val(_)) => {
            row.presence = Presence::Gone;
            row.failed = true;
        }
        (PaStage::Field(_, name), R::Val(v)) => match row.cells.iter_mut().find(|c| c.0 == *name) {
            Some(c) => c.1 = Cell::Comp(v),
            None => row.cells.push((name.to_string(), Cell::Comp(v))),
        },
    }
}

/// does a printed row equal the expected one?  `absent_is_null`: a table of raw records prints a
/// field that a record does not have as null
fn pa_row_eq(exp: &[(String, Cell)], got: &[(String, J)], absent_is_null: bool) -> bool {
    let cell_ok = |c: &Cell, g: Option<&J>| -> bool {
        match (c, g) {
            (Cell::Orig(j), Some(g)) => j == g,
            (Cell::Comp(v), Some(g)) => same(v, g),
            (Cell::Orig(j), None) => absent_is_null && *j == J::Null,
            (Cell::Comp(v), None) => absent_is_null && same(v, &J::Null),
        }
    };
    for (n, c) in exp {
        if !cell_ok(c, got.iter().find(|kv| kv.0 == *n).map(|kv| &kv.1)) {
            return false;
        }
    }
    for (n, g) in got {
        if !exp.iter().any(|c| c.0 == *n) && !(absent_is_null && *g == J::Null) {
            return false;
        }
    }
    true
}

fn pa_table(stdout: &[u8]) -> Option<Vec<Vec<(String, J)>>> {
    let text = String::from_utf8_lossy(stdout);
    match canon::parse(text.trim_end()).ok()? {
        J::Arr(rows) => rows
            .iter()
            .map(|row| match canon::normalize(row) {
                J::Obj(kvs) => Some(kvs),
                _ => None,
            })
            .collect(),
        _ => None,
    }
}

fn pa_ident(row: &[(String, J)], ident_cols: &[&'static str]) -> Vec<J> {
    ident_cols.iter().map(|c| row.iter().find(|kv| kv.0 == *c).map(|kv| kv.1.clone()).unwrap_or(J::Null)).collect()
}

/// group keys of every type: the expression of the stage under test succeeds on some groups only
const PA_KEYS_NUM: &[&str] = &["0", "1", "2", "3", "-4", "7", "2.5", "-0.5", "100", "1e300", "9007199254740993"];
const PA_KEYS_OTHER: &[&str] = &["null", "null", "true", "false", "true", "false", "\"abc\"", "\"\"", "\" \"", "\"héllo\"", "\"true\"", "\"None\"", "\"zed\"", "\"a\"", "[1,2]", "[]", "{\"a\":1}", "{\"b\":{\"c\":[true]},\"a\":\"x\"}"];
/// strings that the lenient number conversion may or may not accept (outcome open in arithmetic)
const PA_KEYS_NUMLIKE: &[&str] = &["\"12\"", "\"z9\"", "\"1,000\"", "\"inf\"", "\"-3.5\""];

fn pa_docs(r: &mut Rng, raw: bool) -> (Vec<u8>, usize) {
    // the key values of this case: all numbers, no number at all, or (mostly) a mixture
    let style = r.below(10);
    let npool = 1 + r.below(9);
    let mut pool: Vec<&str> = vec![];
    for _ in 0..npool {
        let v = match style {
            0 | 1 => *r.pick(PA_KEYS_NUM),
            2 => *r.pick(PA_KEYS_OTHER),
            _ => match r.below(20) {
                0..=8 => *r.pick(PA_KEYS_NUM),
                9..=18 => *r.pick(PA_KEYS_OTHER),
                _ => *r.pick(PA_KEYS_NUMLIKE),
            },
        };
        pool.push(v);
    }
    let ndocs = if r.chance(3) { 0 } else { 1 + r.below(20) };
    let mut input = vec![];
    for id in 0..ndocs {
        let mut m = vec![format!("\"id\":{}", id)];
        // a raw table prints absent fields as null: keep explicit nulls out of raw records, so that
        // a printed null there always means "no such field"
        let mut put = |name: &str, v: &str, m: &mut Vec<String>| {
            if !(raw && v == "null") {
                m.push(format!("\"{}\":{}", name, v));
            }
        };
        if r.chance(88) {
            put("k", *r.pick(&pool), &mut m);
        }
        if r.chance(85) {
            put("g", *r.pick(&["0", "1", "1", "\"a\"", "null", "true"]), &mut m);
        }
        if r.chance(85) {
            put("flag", *r.pick(&["true", "false", "true", "false", "null", "\"yes\"", "1"]), &mut m);
        }
        if r.chance(90) {
            let v = match r.below(12) {
                0 => "\"abc\"".to_string(),
                1 => "null".to_string(),
                2 | 3 => format!("{}.{}", r.range(-40, 40), *r.pick(&[5, 25, 75, 125])),
                _ => format!("{}", r.range(-9, 30)),
            };
            put("v", &v, &mut m);
        }
        input.extend(format!("{{{}}}\n", m.join(",")).into_bytes());
    }
    (input, ndocs)
}

fn pa_render_stage(st: &PaStage, r: &mut Rng) -> String {
    match st {
        PaStage::Where(e) => format!("where {}", render(e, r)),
        PaStage::Field(e, n) => format!("{} as {}", render(e, r), n),
    }
}

fn check_post_agg(ctx: &mut Ctx) {
    const FAM: &str = "post-agg-expression";
    let n = ctx.budget(1600, 60000);
    for _ in 0..n {
        let mut r = ctx.rng.fork();
        let raw = r.chance(15);
        let (input, _) = pa_docs(&mut r, raw);
        // ---- the prefix P: an aggregation (optionally followed by a row stage and/or an explicit
        // sort), or a sort of the raw records — either way a table
        let mut cols = PaCols { mixed: vec![], nums: vec![] };
        let ident_cols: Vec<&'static str>;
        let mut prefix = String::from("* | json");
        let mut ordered = false;
        if raw {
            cols.mixed = vec!["k", "g", "flag", "v"];
            cols.nums = vec!["id"];
            ident_cols = vec!["id"];
            prefix.push_str(&format!(" | sort by {}{}", *r.pick(&["k", "g", "flag", "v", "id", "k, v", "flag, id"]), *r.pick(&["", " asc", " desc"])));
            ordered = true;
        } else {
            let keys: Vec<&'static str> = match r.below(12) {
                0 => vec![],
                1..=5 => vec!["k"],
                6 | 7 => vec!["k", "g"],
                8 => vec!["flag"],
                9 => vec!["flag", "k"],
                10 => vec!["g"],
                _ => vec!["g", "flag"],
            };
            const FUNS: &[(&str, &str)] = &[("count", "_count"), ("count as c", "c"), ("sum(v) as s", "s"), ("sum(v)", "_sum"), ("max(v) as m", "m"), ("min(v) as mn", "mn"), ("avg(v) as a", "a"), ("count_distinct(v) as d", "d")];
            let mut funs: Vec<(&str, &'static str)> = vec![];
            for _ in 0..1 + r.below(3) {
                let f = *r.pick(FUNS);
                if !funs.iter().any(|g| g.1 == f.1) {
                    funs.push(f);
                }
            }
            prefix.push_str(&format!(" | {}", funs.iter().map(|f| f.0).collect::<Vec<_>>().join(", ")));
            if !keys.is_empty() {
                prefix.push_str(&format!(" by {}", keys.join(", ")));
            }
            cols.mixed = keys.clone();
            cols.nums = funs.iter().map(|f| f.1).collect();
            ident_cols = keys;
            // a row stage inside the prefix (its own outcome is judged when it is the stage under test)
            if r.chance(20) {
                let st = pa_stage(&mut r, &cols, &["r0"]);
                if let PaStage::Field(_, name) = &st {
                    if !cols.nums.contains(name) {
                        cols.nums.push(*name);
                    }
                }
                prefix.push_str(&format!(" | {}", pa_render_stage(&st, &mut r)));
            }
            if r.chance(50) {
                let mut all: Vec<&'static str> = cols.mixed.clone();
                all.extend(cols.nums.iter());
                let mut by = vec![*r.pick(&all)];
                if r.chance(35) {
                    let c = *r.pick(&all);
                    if !by.contains(&c) {
                        by.push(c);
                    }
                }
                prefix.push_str(&format!(" | sort by {}{}", by.join(", "), *r.pick(&["", " asc", " desc"])));
                ordered = true;
            }
        }
        // ---- the stage(s) under test
        let nst = if r.chance(60) { 1 } else { 2 };
        let mut stages: Vec<PaStage> = vec![];
        let mut q2 = prefix.clone();
        for i in 0..nst {
            let st = pa_stage(&mut r, &cols, if i == 0 { &["r", "t"] } else { &["j", "u"] });
            if let PaStage::Field(_, name) = &st {
                if !cols.nums.contains(name) {
                    cols.nums.push(*name);
                }
            }
            q2.push_str(&format!(" | {}", pa_render_stage(&st, &mut r)));
            stages.push(st);
        }
        let key = ckey(&q2, &input);
        let info = serde_json::json!({"prefix": prefix, "query": q2, "input": String::from_utf8_lossy(&input), "ordered": ordered});
        let p = imp::run(&prefix, &input, "json", 30);
        let c = run_both(ctx, &q2, &input);
        let ran = |x: &imp::ImplRun| x.compiled && x.panicked.is_none() && !x.hung;
        if !ran(&p) || !ran(&c.imp) {
            ctx.case(FAM, &key, "viol", serde_json::json!({"class": "", "what": "a well-formed pipeline did not run", "prefix_compile_err": p.compile_err, "compile_err": c.imp.compile_err, "panic": c.imp.panicked.clone().or(p.panicked.clone()), "hung": p.hung || c.imp.hung, "case": info}));
            continue;
        }
        let (rows, got) = match (pa_table(&p.stdout), pa_table(&c.imp.stdout)) {
            (Some(a), Some(b)) => (a, b),
            _ => {
                ctx.case(FAM, &key, "viol", serde_json::json!({"class": "", "what": "the output is not a JSON array of objects", "prefix_out": String::from_utf8_lossy(&p.stdout), "got": String::from_utf8_lossy(&c.imp.stdout), "case": info}));
                continue;
            }
        };
        // ---- expectation: the reference evaluator on every row of R
        let mut exp: Vec<PaRow> = rows
            .iter()
            .map(|kvs| PaRow {
                ident: pa_ident(kvs, &ident_cols),
                cells: kvs.iter().filter(|kv| !(raw && kv.1 == J::Null)).map(|kv| (kv.0.clone(), Cell::Orig(kv.1.clone()))).collect(),
                presence: Presence::Present,
                failed: false,
            })
            .collect();
        for row in exp.iter_mut() {
            for st in &stages {
                pa_apply(st, row, &ident_cols);
            }
        }
        let show = |row: &PaRow| format!("{:?}", ident_cols.iter().zip(row.ident.iter()).map(|(c, v)| format!("{}={}", c, super::c03::to_json(v))).collect::<Vec<_>>());
        let mut problem: Option<String> = None;
        // identities are unique in R (group keys / record ids): every printed row belongs to one row of R
        let got_ids: Vec<Vec<J>> = got.iter().map(|g| pa_ident(g, &ident_cols)).collect();
        for (i, id) in got_ids.iter().enumerate() {
            if !exp.iter().any(|e| e.ident == *id) {
                problem = Some(format!("printed row {} does not belong to any row of the table it was computed from", i));
            } else if got_ids[..i].contains(id) {
                problem = Some(format!("printed row {} repeats an earlier row", i));
            }
        }
        if problem.is_none() {
            for e in &exp {
                let at = got_ids.iter().position(|id| *id == e.ident);
                match (e.presence, at) {
                    (Presence::Open, _) => {}
                    (Presence::Gone, None) => {}
                    (Presence::Gone, Some(_)) => problem = Some(format!("the row {} should not be printed: the expression fails on it (or the condition is not true)", show(e))),
                    (Presence::Present, None) => problem = Some(format!("the row {} is missing although the stage(s) succeed on it (a failure on ANOTHER row must not remove it)", show(e))),
                    (Presence::Present, Some(i)) => {
                        if !pa_row_eq(&e.cells, &got[i], raw) {
                            problem = Some(format!("the row {} is printed as {:?}, the documented semantics give {:?}", show(e), got[i], e.cells));
                        }
                    }
                }
                if problem.is_some() {
                    break;
                }
            }
        }
        // after an explicit sort the table has a determined order: the surviving rows keep it
        if problem.is_none() && ordered {
            let order: Vec<usize> = got_ids.iter().filter_map(|id| exp.iter().position(|e| e.ident == *id)).collect();
            if order.windows(2).any(|w| w[0] >= w[1]) {
                problem = Some(format!("the rows come out in another order than the sorted table had (positions in the table: {:?})", order));
            }
        }
        let count = |f: &dyn Fn(&PaRow) -> bool| exp.iter().filter(|e| f(e)).count();
        let shape = format!("{} rows, {} failed, {} filtered, {} kept, {} open", exp.len(), count(&|e| e.failed), count(&|e| e.presence == Presence::Gone && !e.failed), count(&|e| e.presence == Presence::Present), count(&|e| e.presence == Presence::Open));
        match problem {
            Some(w) => {
                ctx.case(FAM, &key, "viol", serde_json::json!({"class": "", "what": w, "table": String::from_utf8_lossy(&p.stdout), "got": String::from_utf8_lossy(&c.imp.stdout), "shape": shape, "case": info}));
                continue;
            }
            None => ctx.case(FAM, &key, "pass", serde_json::json!({"shape": shape, "case": info})),
        }
        match compare(&c, true) {
            F::Agree => ctx.case("model", &key, "pass", info),
            F::Skip(w) => ctx.case("model", "", "skip", serde_json::json!({"why": w.split(':').next().unwrap_or("").to_string()})),
            F::Disagree(d) => ctx.case("model", &key, "fdis", serde_json::json!({"what": d, "case": info})),
        }
    }
}

pub fn check(ctx: &mut Ctx) {
    check_timeslice(ctx);
    check_int_boundaries(ctx);
    check_post_agg(ctx);
    let n = ctx.budget(4000, 200000);
    for _ in 0..n {
        let mut r = ctx.rng.fork();
        let e = gen_any(&mut r, 3);
        let text = render(&e, &mut r);
        let nd = 1 + r.below(8);
        let docs: Vec<String> = (0..nd).map(|i| doc(&mut r, i)).collect();
        let mut input = vec![];
        for d in &docs {
            input.extend(d.as_bytes());
            input.push(b'\n');
        }
        let as_where = matches!(e, E::Bin(op, ..) if ["and", "or", "==", "!=", "<>", "<", "<=", ">", ">="].contains(&op)) && r.chance(50);
        let q = if as_where { format!("* | json | where {}", text) } else { format!("* | json | {} as r", text) };
        let key = ckey(&q, &input);
        let info = serde_json::json!({"query": q, "input": String::from_utf8_lossy(&input)});
        let c = run_both(ctx, &q, &input);
        if !c.imp.compiled && c.imp.panicked.is_none() {
            ctx.case("expr", &key, "viol", serde_json::json!({"class": "", "what": format!("well-formed expression rejected: {}", c.imp.compile_err), "case": info}));
            continue;
        }
        if let Some(p) = &c.imp.panicked {
            let class = if p.contains("overflow") { "C05/integer-overflow-panics" } else { "" };
            ctx.case("expr", &key, "viol", serde_json::json!({"class": class, "what": format!("evaluation panicked: {}", p), "case": info}));
            continue;
        }
        let out = canon::normalized_lines(&c.imp.stdout).unwrap_or_default();
        let mut problem: Option<(String, &str)> = None;
        for (i, d) in docs.iter().enumerate() {
            let dj = match canon::parse(d) {
                Ok(J::Obj(kvs)) => kvs,
                _ => continue,
            };
            let row = out.iter().find(|row| matches!(row, J::Obj(kvs) if kvs.iter().any(|kv| kv.0 == "id" && kv.1 == J::Int(i as i64))));
            match eval(&e, &dj) {
                R::Unknown => {}
                R::Err => {
                    if row.is_some() {
                        problem = Some((format!("row id={} should have been dropped (the expression fails on it)", i), ""));
                    }
                }
                R::Val(v) => {
                    if as_where {
                        let want = v == V::Bool(true);
                        if v != V::Bool(true) && v != V::Bool(false) {
                            if row.is_some() {
                                problem = Some((format!("row id={}: non-boolean where result kept the row", i), ""));
                            }
                        } else if want != row.is_some() {
                            problem = Some((format!("row id={}: where should {} the row (expression = {:?})", i, if want { "keep" } else { "drop" }, v), classify(&e)));
                        }
                    } else {
                        match row {
                            None => problem = Some((format!("row id={} was dropped but the expression evaluates to {:?}", i, v), classify(&e))),
                            Some(J::Obj(kvs)) => {
                                let got = kvs.iter().find(|kv| kv.0 == "r").map(|kv| kv.1.clone()).unwrap_or(J::Null);
                                if !same(&v, &got) {
                                    let class = match (&v, &got) {
                                        (V::Int(a), J::Float(b)) if *a as f64 == *b => "C05/float-float-arith-not-normalised",
                                        _ => classify(&e),
                                    };
                                    problem = Some((format!("row id={}: r = {:?}, documented semantics give {:?}", i, got, v), class));
                                }
                            }
                            _ => {}
                        }
                    }
                }
            }
            if problem.is_some() {
                break;
            }
        }
        match problem {
            Some((w, class)) => {
                ctx.case("expr", &key, "viol", serde_json::json!({"class": class, "what": w, "got": String::from_utf8_lossy(&c.imp.stdout), "case": info}));
                continue;
            }
            None => ctx.case("expr", &key, "pass", info.clone()),
        }
        match compare(&c, true) {
            F::Agree => ctx.case("model", &key, "pass", info),
            F::Skip(w) => ctx.case("model", "", "skip", serde_json::json!({"why": w.split(':').next().unwrap_or("").to_string()})),
            F::Disagree(d) => ctx.case("model", &key, "fdis", serde_json::json!({"what": d, "case": info})),
        }
    }

    // ---- operator consistency on pairs of scalar values (trichotomy etc.)
    // operands: JSON scalars, plus values that only a computation can produce (NaN, ±inf, a
    // float result that is a whole number)
    let pool: Vec<&str> = vec!["null", "true", "false", "0", "1", "-1", "2", "1.5", "-0.5", "41.99", "42", "\"\"", "\"a\"", "\"A\"", "\"b\"", "\"ab\"", "\"10\"", "\"9\"", "9007199254740992",
        "@(z/z)", "@(o/z)", "@(z-o/z)", "@(h+h)", "@(h*3)"];
    let mut idx = 0;
    for a in &pool {
        for b in &pool {
            idx += 1;
            if idx % ctx.nshards != ctx.shard {
                continue;
            }
            let (ja, ea) = if let Some(e) = a.strip_prefix('@') { ("0", e.to_string()) } else { (*a, "a".to_string()) };
            let (jb, eb) = if let Some(e) = b.strip_prefix('@') { ("0", e.to_string()) } else { (*b, "b".to_string()) };
            let input = format!("{{\"a\":{},\"b\":{},\"z\":0,\"o\":1,\"h\":0.5}}\n", ja, jb).into_bytes();
            let mut truth = vec![];
            for op in ["<", "==", ">", "<=", ">=", "!="] {
                let r = imp::run(&format!("* | json | where {} {} {}", ea, op, eb), &input, "json", 10);
                truth.push(!r.stdout.is_empty());
            }
            let exactly_one = [truth[0], truth[1], truth[2]].iter().filter(|x| **x).count() == 1;
            let ok = exactly_one && truth[3] == (truth[0] || truth[1]) && truth[4] == (truth[2] || truth[1]) && truth[5] == !truth[1];
            let key = format!("pair:{}:{}", a, b);
            if ok {
                ctx.case("consistency", &key, "pass", serde_json::json!({"a": a, "b": b, "lt,eq,gt,le,ge,ne": truth}));
            } else {
                ctx.case("consistency", &key, "viol", serde_json::json!({"class": "", "what": "comparison operators are not mutually consistent", "a": a, "b": b, "lt,eq,gt,le,ge,ne": truth}));
            }
        }
    }
    // a value computed by float arithmetic against the same number written as an integer
    if ctx.shard == 0 {
        let input = b"{\"h\":0.5}\n".to_vec();
        let mut truth = vec![];
        for op in ["<", "==", ">"] {
            let r = imp::run(&format!("* | json | where h + h {} 1", op), &input, "json", 10);
            truth.push(!r.stdout.is_empty());
        }
        if truth == vec![false, true, false] {
            ctx.case("consistency", "0.5+0.5 vs 1", "pass", serde_json::json!({"lt,eq,gt": truth}));
        } else {
            ctx.case("consistency", "0.5+0.5 vs 1", "viol", serde_json::json!({"class": "C05/float-float-arith-not-normalised", "what": "0.5 + 0.5 is neither <, == nor > 1", "lt,eq,gt": truth}));
        }
    }
}

fn classify(e: &E) -> &'static str {
    // float ∘ float arithmetic yields a non-normalised Float whose equality with the same integer fails
    fn has_arith(e: &E) -> bool {
        match e {
            E::Bin(op, l, r) => ["+", "-", "*"].contains(op) || has_arith(l) || has_arith(r),
            E::Not(x) => has_arith(x),
            E::If(a, b, c) => has_arith(a) || has_arith(b) || has_arith(c),
            E::Call(_, args) => args.iter().any(has_arith),
            _ => false,
        }
    }
    if has_arith(e) {
        "C05/float-float-arith-not-normalised"
    } else {
        ""
    }
}
