//! C05: expressions evaluate with conventional, self-consistent semantics.
//! P-level: an independent reference evaluator of the DOCUMENTED semantics (precedence by rendering
//! with minimal parentheses, exact integer arithmetic, IEEE division/mixed arithmetic with integral
//! results as integers, one total value order with mutually consistent comparison operators,
//! short-circuit and/or, lazy if, the documented functions, timeslice) against the real code.
//! F-level: real code = Lean model on the same queries.
use super::common::*;
use crate::canon::{self, J};
use crate::imp;
use crate::rng::Rng;
use crate::Ctx;
use std::cmp::Ordering;

#[derive(Clone, Debug, PartialEq)]
enum V {
    None,
    Bool(bool),
    Int(i64),
    Float(f64),
    Str(String),
    Other, // arrays / objects: only equality-free uses
}

#[derive(Clone, Debug)]
enum E {
    Col(&'static str),
    Int(i64),
    Str(&'static str),
    Bool(bool),
    Null,
    Bin(&'static str, Box<E>, Box<E>),
    Not(Box<E>),
    If(Box<E>, Box<E>, Box<E>),
    Call(&'static str, Vec<E>),
}

/// Unknown = the documented semantics leave the outcome open (e.g. i64 overflow: "an error or a float")
enum R {
    Val(V),
    Err,
    Unknown,
}

fn norm(f: f64) -> V {
    if f.is_finite() && f.fract() == 0.0 && f >= -9223372036854775808.0 && f < 9223372036854775808.0 {
        V::Int(f as i64)
    } else {
        V::Float(f)
    }
}

fn rank(v: &V) -> u8 {
    match v {
        V::None => 0,
        V::Bool(_) => 1,
        V::Int(_) | V::Float(_) => 2,
        V::Str(_) => 3,
        V::Other => 6,
    }
}

fn vcmp(a: &V, b: &V) -> Option<Ordering> {
    Some(match (a, b) {
        (V::Bool(x), V::Bool(y)) => x.cmp(y),
        (V::Int(x), V::Int(y)) => x.cmp(y),
        (V::Int(x), V::Float(y)) => (*x as f64).partial_cmp(y)?,
        (V::Float(x), V::Int(y)) => x.partial_cmp(&(*y as f64))?,
        (V::Float(x), V::Float(y)) => x.partial_cmp(y)?,
        (V::Str(x), V::Str(y)) => x.cmp(y),
        (V::Other, V::Other) => return None,
        _ => rank(a).cmp(&rank(b)),
    })
}

fn of_json(j: &J) -> V {
    match j {
        J::Null => V::None,
        J::Bool(b) => V::Bool(*b),
        J::Int(i) => V::Int(*i),
        J::Float(f) => norm(*f),
        J::Str(s) => V::Str(s.clone()),
        _ => V::Other,
    }
}

fn display(v: &V) -> Option<String> {
    match v {
        V::None => Some("None".into()),
        V::Bool(b) => Some(format!("{}", b)),
        V::Int(i) => Some(format!("{}", i)),
        V::Float(f) => Some(format!("{}", f)),
        V::Str(s) => Some(s.clone()),
        V::Other => None,
    }
}

fn eval(e: &E, doc: &[(String, J)]) -> R {
    use R::*;
    match e {
        E::Col(c) => match doc.iter().rev().find(|kv| kv.0 == *c) {
            Some(kv) => Val(of_json(&kv.1)),
            None => Err,
        },
        E::Int(i) => Val(V::Int(*i)),
        E::Str(s) => Val(V::Str(s.to_string())),
        E::Bool(b) => Val(V::Bool(*b)),
        E::Null => Val(V::None),
        E::Not(x) => match eval(x, doc) {
            Val(V::Bool(b)) => Val(V::Bool(!b)),
            Val(_) => Err,
            o => o,
        },
        E::If(c, t, f) => match eval(c, doc) {
            Val(V::Bool(true)) => eval(t, doc),
            Val(V::Bool(false)) => eval(f, doc),
            Val(_) => Err,
            o => o,
        },
        E::Bin(op, l, r) if *op == "and" || *op == "or" => match eval(l, doc) {
            Val(V::Bool(lb)) => {
                if (*op == "and" && !lb) || (*op == "or" && lb) {
                    Val(V::Bool(lb))
                } else {
                    eval(r, doc)
                }
            }
            Val(_) => Err,
            o => o,
        },
        E::Bin(op, l, r) => {
            let (a, b) = match (eval(l, doc), eval(r, doc)) {
                (Val(a), Val(b)) => (a, b),
                (Err, _) | (_, Err) => return Err,
                _ => return Unknown,
            };
            match *op {
                "+" | "-" | "*" | "/" => {
                    if let (V::Int(x), V::Int(y)) = (&a, &b) {
                        let exact = match *op {
                            "+" => Some(*x as i128 + *y as i128),
                            "-" => Some(*x as i128 - *y as i128),
                            "*" => Some(*x as i128 * *y as i128),
                            _ => None,
                        };
                        if let Some(z) = exact {
                            return if z >= i64::MIN as i128 && z <= i64::MAX as i128 { Val(V::Int(z as i64)) } else { Unknown };
                        }
                    }
                    let fa = match &a {
                        V::Int(x) => *x as f64,
                        V::Float(x) => *x,
                        _ => return Err,
                    };
                    let fb = match &b {
                        V::Int(x) => *x as f64,
                        V::Float(x) => *x,
                        _ => return Err,
                    };
                    let r = match *op {
                        "+" => fa + fb,
                        "-" => fa - fb,
                        "*" => fa * fb,
                        _ => fa / fb,
                    };
                    Val(norm(r))
                }
                _ => {
                    let o = match vcmp(&a, &b) {
                        Some(o) => o,
                        None => return Unknown,
                    };
                    Val(V::Bool(match *op {
                        "==" => o == Ordering::Equal,
                        "!=" | "<>" => o != Ordering::Equal,
                        "<" => o == Ordering::Less,
                        "<=" => o != Ordering::Greater,
                        ">" => o == Ordering::Greater,
                        _ => o != Ordering::Less,
                    }))
                }
            }
        }
        E::Call(name, args) => {
            let mut vs = vec![];
            for a in args {
                match eval(a, doc) {
                    Val(v) => vs.push(v),
                    Err => return Err,
                    Unknown => return Unknown,
                }
            }
            let numeric = |v: &V| match v {
                V::Int(x) => Some(*x as f64),
                V::Float(x) => Some(*x),
                _ => None,
            };
            match (*name, vs.as_slice()) {
                ("abs", [x]) | ("ceil", [x]) | ("floor", [x]) | ("round", [x]) => match numeric(x) {
                    Some(f) => Val(norm(match *name {
                        "abs" => f.abs(),
                        "ceil" => f.ceil(),
                        "floor" => f.floor(),
                        _ => f.round(),
                    })),
                    None => match x {
                        V::Str(_) => Unknown, // string → number coercion is C08's subject
                        _ => Err,
                    },
                },
                ("isNull", [x]) => Val(V::Bool(*x == V::None)),
                ("isEmpty", [x]) => Val(V::Bool(match x {
                    V::None => true,
                    V::Str(s) => s.is_empty(),
                    _ => false,
                })),
                ("isBlank", [x]) => Val(V::Bool(match x {
                    V::None => true,
                    V::Str(s) => s.trim().is_empty(),
                    _ => false,
                })),
                ("length", [x]) => match x {
                    V::Other => Unknown,
                    v => Val(V::Int(display(v).unwrap().chars().count() as i64)),
                },
                ("contains", [a, b]) => match (display(a), display(b)) {
                    (Some(x), Some(y)) => Val(V::Bool(x.contains(&y))),
                    _ => Unknown,
                },
                ("concat", vs) => {
                    let mut s = String::new();
                    for v in vs {
                        match display(v) {
                            Some(x) => s.push_str(&x),
                            None => return Unknown,
                        }
                    }
                    Val(V::Str(s))
                }
                ("substring", [s, a, b]) => match (display(s), a, b) {
                    (Some(s), V::Int(a), V::Int(b)) if *a >= 0 && *b >= 0 => {
                        if b < a {
                            Err
                        } else {
                            Val(V::Str(s.chars().skip(*a as usize).take((*b - *a) as usize).collect()))
                        }
                    }
                    _ => Unknown,
                },
                _ => Unknown,
            }
        }
    }
}

fn prec(e: &E) -> u8 {
    match e {
        E::Bin(op, ..) => match *op {
            "or" => 1,
            "and" => 2,
            "==" | "!=" | "<>" | "<" | "<=" | ">" | ">=" => 3,
            "+" | "-" => 4,
            _ => 5,
        },
        _ => 9,
    }
}

/// minimal parentheses under: `* /` > `+ -` > comparisons > and > or, left-associative;
/// comparisons do not chain
fn render(e: &E, r: &mut Rng) -> String {
    match e {
        E::Col(c) => c.to_string(),
        E::Int(i) => format!("{}", i),
        E::Str(s) => format!("\"{}\"", s),
        E::Bool(b) => format!("{}", b),
        E::Null => "null".into(),
        E::Not(x) => format!("!({})", render(x, r)),
        E::If(c, t, f) => format!("if({}, {}, {})", render(c, r), render(t, r), render(f, r)),
        E::Call(n, args) => format!("{}({})", n, args.iter().map(|a| render(a, r)).collect::<Vec<_>>().join(", ")),
        E::Bin(op, l, rr) => {
            let p = prec(e);
            let ls = if prec(l) < p || (p == 3 && prec(l) == 3) { format!("({})", render(l, r)) } else { render(l, r) };
            let rs = if prec(rr) <= p { format!("({})", render(rr, r)) } else { render(rr, r) };
            let opt = match *op {
                "and" => *r.pick(&["and", "&&"]),
                "or" => *r.pick(&["or", "||"]),
                o => o,
            };
            if *op == "and" || *op == "or" || r.chance(70) { format!("{} {} {}", ls, opt, rs) } else { format!("{}{}{}", ls, opt, rs) }
        }
    }
}

fn gen_num(r: &mut Rng, d: usize) -> E {
    if d == 0 || r.chance(40) {
        return match r.below(6) {
            0 | 1 => E::Col("n"),
            2 => E::Col("x"),
            3 => E::Col("m"),
            4 => E::Int(r.range(0, 12)),
            _ => E::Col("missing"),
        };
    }
    match r.below(8) {
        0 | 1 | 2 | 3 => E::Bin(*r.pick(&["+", "-", "*", "/"]), Box::new(gen_num(r, d - 1)), Box::new(gen_num(r, d - 1))),
        4 => E::Call(*r.pick(&["abs", "ceil", "floor", "round"]), vec![gen_num(r, d - 1)]),
        5 => E::If(Box::new(gen_bool(r, d - 1)), Box::new(gen_num(r, d - 1)), Box::new(gen_num(r, d - 1))),
        6 => E::Call("length", vec![E::Col(*r.pick(&["s", "k", "n"]))]),
        _ => E::Bin(*r.pick(&["+", "*"]), Box::new(E::Col("n")), Box::new(E::Int(r.range(0, 9)))),
    }
}

fn gen_bool(r: &mut Rng, d: usize) -> E {
    if d == 0 || r.chance(35) {
        return match r.below(7) {
            0 | 1 => E::Bin(*r.pick(&["==", "!=", "<>", "<", "<=", ">", ">="]), Box::new(gen_num(r, 0)), Box::new(gen_num(r, 0))),
            2 => E::Bin(*r.pick(&["==", "<", ">", "!="]), Box::new(E::Col(*r.pick(&["s", "k"]))), Box::new(E::Str(*r.pick(&["a", "b", "alpha", "err", ""])))),
            3 => E::Col("b"),
            4 => E::Call(*r.pick(&["isNull", "isEmpty", "isBlank"]), vec![E::Col(*r.pick(&["s", "k", "b", "missing", "n"]))]),
            5 => E::Call("contains", vec![E::Col("s"), E::Str(*r.pick(&["a", "e", "GET", ""]))]),
            _ => E::Bin(*r.pick(&["==", "<", ">="]), Box::new(E::Col(*r.pick(&["n", "k", "b", "s"]))), Box::new(E::Col(*r.pick(&["x", "k", "s", "n"])))),
        };
    }
    match r.below(5) {
        0 | 1 => E::Bin("and", Box::new(gen_bool(r, d - 1)), Box::new(gen_bool(r, d - 1))),
        2 | 3 => E::Bin("or", Box::new(gen_bool(r, d - 1)), Box::new(gen_bool(r, d - 1))),
        _ => E::Not(Box::new(gen_bool(r, d - 1))),
    }
}

fn gen_any(r: &mut Rng, d: usize) -> E {
    match r.below(6) {
        0 | 1 | 2 => gen_num(r, d),
        3 | 4 => gen_bool(r, d),
        _ => match r.below(3) {
            0 => E::Call("concat", vec![E::Col(*r.pick(&["s", "k", "n"])), E::Str(*r.pick(&["-", "x", ""]))]),
            1 => E::Call("substring", vec![E::Col("s"), E::Int(r.range(0, 3)), E::Int(r.range(0, 6))]),
            _ => E::If(Box::new(gen_bool(r, 1)), Box::new(E::Col("s")), Box::new(E::Str("other"))),
        },
    }
}

/// documents: id plus scalar fields; numeric fields never as digit-strings (C08's subject)
fn doc(r: &mut Rng, id: usize) -> String {
    let mut m = vec![format!("\"id\":{}", id)];
    if r.chance(90) {
        m.push(format!("\"n\":{}", r.range(-9, 30)));
    }
    if r.chance(85) {
        let v = match r.below(6) {
            0 => "null".to_string(),
            1 => format!("{}", r.range(-40, 40)),
            2 => "true".to_string(),
            _ => format!("{}.{}", r.range(-40, 40), *r.pick(&[5, 25, 75, 1, 125])),
        };
        m.push(format!("\"x\":{}", v));
    }
    if r.chance(80) {
        m.push(format!("\"m\":{}", *r.pick(&["0", "1", "2", "-3", "0.5", "2.5", "100", "9007199254740993", "4611686018427387904"])));
    }
    if r.chance(85) {
        m.push(format!("\"s\":\"{}\"", *r.pick(&["alpha", "beta", "GET", "err", "", " ", "a", "héllo", "Zed"])));
    }
    if r.chance(80) {
        m.push(format!("\"k\":{}", *r.pick(&["\"a\"", "\"b\"", "null", "3", "\"alpha\""])));
    }
    if r.chance(70) {
        m.push(format!("\"b\":{}", *r.pick(&["true", "false", "true", "false", "null", "1"])));
    }
    format!("{{{}}}", m.join(","))
}

fn same(v: &V, j: &J) -> bool {
    match (v, j) {
        (V::None, J::Null) => true,
        (V::Bool(a), J::Bool(b)) => a == b,
        (V::Int(a), J::Int(b)) => a == b,
        (V::Float(a), J::Float(b)) => a.to_bits() == b.to_bits() || (a.is_nan() && b.is_nan()),
        (V::Float(a), J::Null) => !a.is_finite(),
        (V::Str(a), J::Str(b)) => a == b,
        _ => false,
    }
}

/// civil date of a day count since 1970-01-01 (proleptic Gregorian; Howard Hinnant's algorithm)
fn civil(days: i64) -> (i64, u32, u32) {
    let z = days + 719468;
    let era = z.div_euclid(146097);
    let doe = z.rem_euclid(146097);
    let yoe = (doe - doe / 1460 + doe / 36524 - doe / 146096) / 365;
    let doy = doe - (365 * yoe + yoe / 4 - yoe / 100);
    let mp = (5 * doy + 2) / 153;
    let d = (doy - (153 * mp + 2) / 5 + 1) as u32;
    let m = if mp < 10 { mp + 3 } else { mp - 9 } as u32;
    (yoe + era * 400 + if m <= 2 { 1 } else { 0 }, m, d)
}

fn iso(ms: i64) -> String {
    let (days, rem) = (ms.div_euclid(86_400_000), ms.rem_euclid(86_400_000));
    let (y, m, d) = civil(days);
    let (h, mi, s, milli) = (rem / 3_600_000, rem / 60_000 % 60, rem / 1000 % 60, rem % 1000);
    if milli == 0 {
        format!("{:04}-{:02}-{:02}T{:02}:{:02}:{:02}Z", y, m, d, h, mi, s)
    } else {
        format!("{:04}-{:02}-{:02}T{:02}:{:02}:{:02}.{:03}Z", y, m, d, h, mi, s, milli)
    }
}

/// `timeslice(t) d` = the latest multiple of d since the Unix epoch that is not after t — for
/// instants on both sides of the epoch, inside a slice and exactly on a boundary
fn check_timeslice(ctx: &mut Ctx) {
    const DURS: &[(&str, i64)] = &[("1s", 1000), ("30s", 30_000), ("1m", 60_000), ("1m30s", 90_000), ("5m", 300_000), ("15m", 900_000), ("1h", 3_600_000), ("6h", 21_600_000), ("1d", 86_400_000), ("1w", 604_800_000), ("250ms", 250)];
    let n = ctx.budget(400, 20000);
    for _ in 0..n {
        let mut r = ctx.rng.fork();
        let (dtxt, dms) = *r.pick(DURS);
        let mut input = vec![];
        let nrows = 1 + r.below(6);
        for i in 0..nrows {
            // 1902 … 2037, half of them before 1970
            let base = r.range(0, 2_140_000_000) * 1000 * if r.chance(50) { -1 } else { 1 };
            let t = match r.below(4) {
                0 => base.div_euclid(dms) * dms,           // exactly on a boundary
                1 => base.div_euclid(dms) * dms + dms - 1, // last millisecond of a slice
                2 => base.div_euclid(dms) * dms + 1,
                _ => base + r.range(0, 999),
            };
            let want = t.div_euclid(dms) * dms;
            input.extend(format!("{{\"id\":{},\"ts\":\"{}\",\"want\":\"{}\"}}\n", i, iso(t), iso(want)).into_bytes());
        }
        let q = format!("* | json | timeslice(parseDate(ts)) {} as s | parseDate(want) as w | fields id, s, w", dtxt);
        let key = ckey(&q, &input);
        let info = serde_json::json!({"query": q, "input": String::from_utf8_lossy(&input)});
        let c = run_both(ctx, &q, &input);
        if !c.imp.compiled || c.imp.panicked.is_some() || c.imp.hung {
            ctx.case("timeslice", &key, "viol", serde_json::json!({"class": "", "what": "timeslice query did not run", "panic": c.imp.panicked, "compile_err": c.imp.compile_err, "case": info}));
            continue;
        }
        let out = canon::normalized_lines(&c.imp.stdout).unwrap_or_default();
        let mut problem: Option<String> = None;
        if out.len() != nrows {
            problem = Some(format!("{} rows out of {} lines", out.len(), nrows));
        }
        for row in &out {
            if let J::Obj(kvs) = row {
                let get = |k: &str| kvs.iter().find(|kv| kv.0 == k).map(|kv| kv.1.clone());
                if get("s").is_none() || get("s") != get("w") {
                    problem = Some(format!("row {:?}: slice start {:?}, the latest multiple of {} not after the instant is {:?}", get("id"), get("s"), dtxt, get("w")));
                }
            }
        }
        match problem {
            Some(w) => {
                ctx.case("timeslice", &key, "viol", serde_json::json!({"class": "", "what": w, "got": String::from_utf8_lossy(&c.imp.stdout), "case": info}));
                continue;
            }
            None => ctx.case("timeslice", &key, "pass", info.clone()),
        }
        match compare(&c, true) {
            F::Agree => ctx.case("model", &key, "pass", info),
            F::Skip(w) => ctx.case("model", "", "skip", serde_json::json!({"why": w.split(':').next().unwrap_or("").to_string()})),
            F::Disagree(d) => ctx.case("model", &key, "fdis", serde_json::json!({"what": d, "case": info})),
        }
    }
}

/// integer arithmetic at the edges of the i64 range: the result is the exact integer when it fits,
/// otherwise a double close to the exact value (or an error) — never a different integer; and the
/// comparison operators stay mutually consistent on such results
fn check_int_boundaries(ctx: &mut Ctx) {
    let n = ctx.budget(300, 20000);
    let edge: [i64; 12] = [i64::MAX, i64::MAX - 1, i64::MIN, i64::MIN + 1, 4611686018427387904, -4611686018427387904, 4611686018427387903, 9007199254740992, 9007199254740993, 3037000500, 1, -1];
    for _ in 0..n {
        let mut r = ctx.rng.fork();
        let (a, b) = (*r.pick(&edge), *r.pick(&[1i64, -1, 2, -2, 0, 3037000500, i64::MAX, i64::MIN, 4611686018427387904]));
        let (op, exact): (&str, Option<i128>) = match r.below(3) {
            0 => ("+", Some(a as i128 + b as i128)),
            1 => ("-", Some(a as i128 - b as i128)),
            _ => ("*", Some(a as i128 * b as i128)),
        };
        let exact = exact.unwrap();
        let input = format!("{{\"a\":{},\"b\":{}}}\n", a, b);
        let q = format!("* | json | a {} b as r | r == a as same | r > a as gt | r < a as lt | fields r, same, gt, lt", op);
        let key = format!("int-boundaries:{} {} {}", a, op, b);
        let c = run_both(ctx, &q, input.as_bytes());
        let info = serde_json::json!({"query": q, "input": input, "exact_result": exact.to_string()});
        if !c.imp.compiled || c.imp.panicked.is_some() || c.imp.hung {
            ctx.case("int-boundaries", &key, "viol", serde_json::json!({"class": "", "what": "did not run", "panic": c.imp.panicked, "case": info}));
            continue;
        }
        let rows = canon::normalized_lines(&c.imp.stdout).unwrap_or_default();
        let mut problem: Option<String> = None;
        let mut known: Option<String> = None;
        if let Some(J::Obj(kvs)) = rows.first() {
            let get = |k: &str| kvs.iter().find(|kv| kv.0 == k).map(|kv| kv.1.clone());
            match get("r") {
                Some(J::Int(g)) => {
                    // the exact integer — or, when that does not fit, the double nearest to it, which is
                    // shown as an integer when it is one inside the range (−2^63 is)
                    let fits = exact >= i64::MIN as i128 && exact <= i64::MAX as i128;
                    if g as i128 != exact && (fits || (g as f64) != (exact as f64) || g != i64::MIN) {
                        problem = Some(format!("{} {} {} = {} but the result is the integer {}", a, op, b, exact, g));
                    }
                }
                Some(J::Float(g)) => {
                    if exact >= i64::MIN as i128 && exact <= i64::MAX as i128 {
                        problem = Some(format!("{} {} {} = {} fits an integer but the result is the double {}", a, op, b, exact, g));
                    } else if (g - exact as f64).abs() > 1e-12 * (exact as f64).abs() {
                        problem = Some(format!("{} {} {} = {} but the result is {}", a, op, b, exact, g));
                    }
                }
                other => problem = Some(format!("result {:?}", other)),
            }
            // the comparisons of the result with `a` must not contradict the true order of a op b and a,
            // and exactly one of <, ==, > must hold
            let flags: Vec<bool> = ["lt", "same", "gt"].iter().map(|k| get(k) == Some(J::Bool(true))).collect();
            // (a result outside the i64 range is a double: it is compared as the double it is)
            let fits = exact >= i64::MIN as i128 && exact <= i64::MAX as i128;
            let truth = if fits { exact.cmp(&(a as i128)) } else { (exact as f64).partial_cmp(&(a as f64)).unwrap_or(Ordering::Equal) };
            if problem.is_none() && ((flags[1] && truth != Ordering::Equal) || (flags[0] && truth == Ordering::Greater) || (flags[2] && truth == Ordering::Less)) {
                problem = Some(format!("r = {:?}: r < a, r == a, r > a are {:?}, but {} {} {} = {} is {:?} than/to a", get("r"), flags, a, op, b, exact, truth));
            }
            if problem.is_none() && flags.iter().filter(|x| **x).count() != 1 {
                known = Some(format!("r = {:?} against a = {}: r < a, r == a, r > a are {:?} (exactly one must hold)", get("r"), a, flags));
            }
        } // no row: the operation was reported as an error — allowed for unrepresentable results
        else if exact >= i64::MIN as i128 && exact <= i64::MAX as i128 {
            problem = Some(format!("{} {} {} = {} is representable but the row was dropped", a, op, b, exact));
        }
        match problem {
            Some(w) => {
                ctx.case("int-boundaries", &key, "viol", serde_json::json!({"class": "", "what": w, "got": String::from_utf8_lossy(&c.imp.stdout), "case": info}));
                continue;
            }
            None => {
                if let Some(w) = known {
                    // (was the open finding C05/int-vs-float-comparison-beyond-2^53, repaired in /repo
                    // 8e2945c: integers and doubles are compared exactly — an ordinary violation now)
                    ctx.case("int-boundaries", &key, "viol", serde_json::json!({"class": "C05/int-vs-float-comparison-beyond-2^53", "what": w, "got": String::from_utf8_lossy(&c.imp.stdout), "case": info}));
                } else {
                    ctx.case("int-boundaries", &key, "pass", info.clone());
                }
            }
        }
        match compare(&c, true) {
            F::Agree => ctx.case("model", &key, "pass", info),
            F::Skip(w) => ctx.case("model", "", "skip", serde_json::json!({"why": w.split(':').next().unwrap_or("").to_string()})),
            F::Disagree(d) => ctx.case("model", &key, "fdis", serde_json::json!({"what": d, "case": info})),
        }
    }
}

pub fn check(ctx: &mut Ctx) {
    check_timeslice(ctx);
    check_int_boundaries(ctx);
    let n = ctx.budget(4000, 200000);
    for _ in 0..n {
        let mut r = ctx.rng.fork();
        let e = gen_any(&mut r, 3);
        let text = render(&e, &mut r);
        let nd = 1 + r.below(8);
        let docs: Vec<String> = (0..nd).map(|i| doc(&mut r, i)).collect();
        let mut input = vec![];
        for d in &docs {
            input.extend(d.as_bytes());
            input.push(b'\n');
        }
        let as_where = matches!(e, E::Bin(op, ..) if ["and", "or", "==", "!=", "<>", "<", "<=", ">", ">="].contains(&op)) && r.chance(50);
        let q = if as_where { format!("* | json | where {}", text) } else { format!("* | json | {} as r", text) };
        let key = ckey(&q, &input);
        let info = serde_json::json!({"query": q, "input": String::from_utf8_lossy(&input)});
        let c = run_both(ctx, &q, &input);
        if !c.imp.compiled && c.imp.panicked.is_none() {
            ctx.case("expr", &key, "viol", serde_json::json!({"class": "", "what": format!("well-formed expression rejected: {}", c.imp.compile_err), "case": info}));
            continue;
        }
        if let Some(p) = &c.imp.panicked {
            let class = if p.contains("overflow") { "C05/integer-overflow-panics" } else { "" };
            ctx.case("expr", &key, "viol", serde_json::json!({"class": class, "what": format!("evaluation panicked: {}", p), "case": info}));
            continue;
        }
        let out = canon::normalized_lines(&c.imp.stdout).unwrap_or_default();
        let mut problem: Option<(String, &str)> = None;
        for (i, d) in docs.iter().enumerate() {
            let dj = match canon::parse(d) {
                Ok(J::Obj(kvs)) => kvs,
                _ => continue,
            };
            let row = out.iter().find(|row| matches!(row, J::Obj(kvs) if kvs.iter().any(|kv| kv.0 == "id" && kv.1 == J::Int(i as i64))));
            match eval(&e, &dj) {
                R::Unknown => {}
                R::Err => {
                    if row.is_some() {
                        problem = Some((format!("row id={} should have been dropped (the expression fails on it)", i), ""));
                    }
                }
                R::Val(v) => {
                    if as_where {
                        let want = v == V::Bool(true);
                        if v != V::Bool(true) && v != V::Bool(false) {
                            if row.is_some() {
                                problem = Some((format!("row id={}: non-boolean where result kept the row", i), ""));
                            }
                        } else if want != row.is_some() {
                            problem = Some((format!("row id={}: where should {} the row (expression = {:?})", i, if want { "keep" } else { "drop" }, v), classify(&e)));
                        }
                    } else {
                        match row {
                            None => problem = Some((format!("row id={} was dropped but the expression evaluates to {:?}", i, v), classify(&e))),
                            Some(J::Obj(kvs)) => {
                                let got = kvs.iter().find(|kv| kv.0 == "r").map(|kv| kv.1.clone()).unwrap_or(J::Null);
                                if !same(&v, &got) {
                                    let class = match (&v, &got) {
                                        (V::Int(a), J::Float(b)) if *a as f64 == *b => "C05/float-float-arith-not-normalised",
                                        _ => classify(&e),
                                    };
                                    problem = Some((format!("row id={}: r = {:?}, documented semantics give {:?}", i, got, v), class));
                                }
                            }
                            _ => {}
                        }
                    }
                }
            }
            if problem.is_some() {
                break;
            }
        }
        match problem {
            Some((w, class)) => {
                ctx.case("expr", &key, "viol", serde_json::json!({"class": class, "what": w, "got": String::from_utf8_lossy(&c.imp.stdout), "case": info}));
                continue;
            }
            None => ctx.case("expr", &key, "pass", info.clone()),
        }
        match compare(&c, true) {
            F::Agree => ctx.case("model", &key, "pass", info),
            F::Skip(w) => ctx.case("model", "", "skip", serde_json::json!({"why": w.split(':').next().unwrap_or("").to_string()})),
            F::Disagree(d) => ctx.case("model", &key, "fdis", serde_json::json!({"what": d, "case": info})),
        }
    }

    // ---- operator consistency on pairs of scalar values (trichotomy etc.)
    // operands: JSON scalars, plus values that only a computation can produce (NaN, ±inf, a
    // float result that is a whole number)
    let pool: Vec<&str> = vec!["null", "true", "false", "0", "1", "-1", "2", "1.5", "-0.5", "41.99", "42", "\"\"", "\"a\"", "\"A\"", "\"b\"", "\"ab\"", "\"10\"", "\"9\"", "9007199254740992",
        "@(z/z)", "@(o/z)", "@(z-o/z)", "@(h+h)", "@(h*3)"];
    let mut idx = 0;
    for a in &pool {
        for b in &pool {
            idx += 1;
            if idx % ctx.nshards != ctx.shard {
                continue;
            }
            let (ja, ea) = if let Some(e) = a.strip_prefix('@') { ("0", e.to_string()) } else { (*a, "a".to_string()) };
            let (jb, eb) = if let Some(e) = b.strip_prefix('@') { ("0", e.to_string()) } else { (*b, "b".to_string()) };
            let input = format!("{{\"a\":{},\"b\":{},\"z\":0,\"o\":1,\"h\":0.5}}\n", ja, jb).into_bytes();
            let mut truth = vec![];
            for op in ["<", "==", ">", "<=", ">=", "!="] {
                let r = imp::run(&format!("* | json | where {} {} {}", ea, op, eb), &input, "json", 10);
                truth.push(!r.stdout.is_empty());
            }
            let exactly_one = [truth[0], truth[1], truth[2]].iter().filter(|x| **x).count() == 1;
            let ok = exactly_one && truth[3] == (truth[0] || truth[1]) && truth[4] == (truth[2] || truth[1]) && truth[5] == !truth[1];
            let key = format!("pair:{}:{}", a, b);
            if ok {
                ctx.case("consistency", &key, "pass", serde_json::json!({"a": a, "b": b, "lt,eq,gt,le,ge,ne": truth}));
            } else {
                ctx.case("consistency", &key, "viol", serde_json::json!({"class": "", "what": "comparison operators are not mutually consistent", "a": a, "b": b, "lt,eq,gt,le,ge,ne": truth}));
            }
        }
    }
    // a value computed by float arithmetic against the same number written as an integer
    if ctx.shard == 0 {
        let input = b"{\"h\":0.5}\n".to_vec();
        let mut truth = vec![];
        for op in ["<", "==", ">"] {
            let r = imp::run(&format!("* | json | where h + h {} 1", op), &input, "json", 10);
            truth.push(!r.stdout.is_empty());
        }
        if truth == vec![false, true, false] {
            ctx.case("consistency", "0.5+0.5 vs 1", "pass", serde_json::json!({"lt,eq,gt": truth}));
        } else {
            ctx.case("consistency", "0.5+0.5 vs 1", "viol", serde_json::json!({"class": "C05/float-float-arith-not-normalised", "what": "0.5 + 0.5 is neither <, == nor > 1", "lt,eq,gt": truth}));
        }
    }
}

fn classify(e: &E) -> &'static str {
    // float ∘ float arithmetic yields a non-normalised Float whose equality with the same integer fails
    fn has_arith(e: &E) -> bool {
        match e {
            E::Bin(op, l, r) => ["+", "-", "*"].contains(op) || has_arith(l) || has_arith(r),
            E::Not(x) => has_arith(x),
            E::If(a, b, c) => has_arith(a) || has_arith(b) || has_arith(c),
            E::Call(_, args) => args.iter().any(has_arith),
            _ => false,
        }
    }
    if has_arith(e) {
        "C05/float-float-arith-not-normalised"
    } else {
        ""
    }
}
