//! PARSE: differential check of the Lean parser model (AgModel/Lang/Parser.lean, driver command
//! `PARSE`) against `ag::lang::query` (via `imp::parse`).
//!
//! Strings: (i) valid queries — `gen::json_pipeline` plus a grammar-covering generator below
//! (every operator, option and synonym of src/lang.rs), (ii) token-level mutations of those
//! (delete / duplicate / replace / append / swap a token, truncate, insert a character),
//! (iii) insertions of non-ASCII characters, (iv) a fixed witness list (the candidate defects
//! listed at the top of Parser.lean).
//!
//! Verdicts: both sides accept with the same AST tokens, both reject, or both panic → `pass`;
//! model answers SKIP → `skip`; anything else → `fdis` with both sides in `info`.
use crate::enc;
use crate::gen;
use crate::imp;
use crate::rng::Rng;
use crate::Ctx;

/* ---------- grammar-covering generator ---------- */

fn ws(r: &mut Rng) -> &'static str {
    match r.below(12) {
        0 => "  ",
        1 => "\t",
        2 => "\n",
        3 => " \r\n ",
        _ => " ",
    }
}

fn ows(r: &mut Rng) -> &'static str {
    match r.below(6) {
        0 => " ",
        1 => "  ",
        _ => "",
    }
}

pub fn name(r: &mut Rng) -> String {
    match r.below(14) {
        0 => "[\"a b\"]".into(),
        1 => "['x-y']".into(),
        2 => "_under".into(),
        3 => "k8s_pod".into(),
        4 => "CamelCase".into(),
        5 => "count_x".into(),
        6 => "trueish".into(),
        7 => "iffy".into(),
        _ => r.pick(&["k", "n", "x", "s", "b", "o", "arr", "msg", "status", "url", "t", "v", "c1", "host"]).to_string(),
    }
}

pub fn quoted(r: &mut Rng) -> String {
    let body = *r.pick(&[
        "a", "x y", "", "*", "* - *", "k=*", "[*] * \"*\"", "it's", "say \"hi\"", "back\\slash", "tab\there", "nl\nx", "d\\d+", "100%",
        ",", " ", "a|b", "(x)", "é", "v=* w=*", "\\0", "\\q",
    ]);
    let dq = r.chance(60);
    let q = if dq { '"' } else { '\'' };
    let mut s = String::new();
    s.push(q);
    for c in body.chars() {
        match c {
            '"' if dq => s.push_str("\\\""),
            '\'' if !dq => s.push_str("\\'"),
            '\t' => s.push_str("\\t"),
            '\n' => s.push_str("\\n"),
            '\\' => {
                // keep `\d`, `\0`, `\q` style escapes as written; double a lone backslash
                s.push('\\')
            }
            c => s.push(c),
        }
    }
    // "back\slash" → written with a doubled backslash half of the time
    let s = if body == "back\\slash" && r.chance(50) { s.replace("\\s", "\\\\s") } else { s };
    let mut s = s;
    s.push(q);
    s
}

pub fn duration(r: &mut Rng) -> String {
    let units = ["ns", "us", "ms", "s", "m", "h", "d", "w"];
    let n = 1 + r.below(3);
    let mut s = String::new();
    for _ in 0..n {
        if r.chance(10) {
            s.push('-');
        }
        s.push_str(&format!("{}{}", r.range(0, 90), r.pick(&units)));
    }
    s
}

pub fn column(r: &mut Rng) -> String {
    let mut s = name(r);
    let n = match r.below(6) {
        0 => 1,
        1 => 2,
        2 => 3,
        _ => 0,
    };
    for _ in 0..n {
        match r.below(4) {
            0 => s.push_str(&format!("[{}]", r.range(-3, 12))),
            1 => s.push_str(".[\"k.k\"]"),
            _ => {
                s.push('.');
                s.push_str(*r.pick(&["p", "q", "r", "z", "inner_1"]));
            }
        }
    }
    s
}

pub fn literal(r: &mut Rng) -> String {
    match r.below(12) {
        0 | 1 => quoted(r),
        2 => duration(r),
        3 => "true".into(),
        4 => "false".into(),
        5 => "null".into(),
        6 => "007".into(),
        7 => "9223372036854775807".into(),
        8 => "99999999999999999999".into(),
        _ => format!("{}", r.range(0, 5000)),
    }
}

pub fn expr(r: &mut Rng, depth: usize) -> String {
    if depth == 0 || r.chance(35) {
        return if r.chance(60) { column(r) } else { literal(r) };
    }
    let d = depth - 1;
    match r.below(16) {
        0 => format!("{}{}+{}{}", expr(r, d), ows(r), ows(r), expr(r, d)),
        1 => format!("{}{}-{}{}", expr(r, d), ows(r), " ", expr(r, d)),
        2 => format!("{}{}*{}{}", expr(r, d), ows(r), ows(r), expr(r, d)),
        3 => format!("{}{}/{}{}", expr(r, d), ows(r), ows(r), expr(r, d)),
        4 => format!("{}{}{}{}{}", expr(r, d), ows(r), r.pick(&["==", "!=", "<>", ">=", "<=", ">", "<"]), ows(r), expr(r, d)),
        5 => format!("{} and {}", expr(r, d), expr(r, d)),
        6 => format!("{} or {}", expr(r, d), expr(r, d)),
        7 => format!("{}{}&&{}{}", expr(r, d), ows(r), ows(r), expr(r, d)),
        8 => format!("{}{}||{}{}", expr(r, d), ows(r), ows(r), expr(r, d)),
        9 => format!("!{}", expr(r, d)),
        10 => format!("({}{}{})", ows(r), expr(r, d), ows(r)),
        11 => format!("if({},{}{},{}{})", expr(r, d), ows(r), expr(r, d), ows(r), expr(r, d)),
        12 => {
            let f = *r.pick(&["length", "concat", "isNull", "parseDate", "substring", "abs", "now", "toLowerCase", "contains", "nosuchfn"]);
            let n = if f == "now" { 0 } else { 1 + r.below(3) };
            let args: Vec<String> = (0..n).map(|_| expr(r, d)).collect();
            format!("{}({}{})", f, ows(r), args.join(if r.chance(50) { ", " } else { "," }))
        }
        13 => format!("{} * ({} + {})", column(r), column(r), literal(r)),
        _ => gen::any_expr(r, d.min(2)),
    }
}

fn filter_atom(r: &mut Rng) -> String {
    match r.below(16) {
        0 | 1 => "*".into(),
        2 => quoted(r),
        3 => "\"AND\"".into(),
        4 => "*err*".into(),
        5 => "a.b-c:d/e".into(),
        6 => "user@host".into(),
        7 => "#tag".into(),
        8 => "100%".into(),
        9 => "^start$".into(),
        10 => "x+y".into(),
        11 => "**".into(),
        _ => r.pick(&["error", "GET", "alpha", "status_200", "k", "NOTE", "ANDROID", "ORacle"]).to_string(),
    }
}

pub fn filter(r: &mut Rng, depth: usize) -> String {
    if depth == 0 || r.chance(45) {
        return filter_atom(r);
    }
    let d = depth - 1;
    match r.below(8) {
        0 => format!("NOT {}", filter(r, d)),
        1 => format!("{} AND {}", filter(r, d), filter(r, d)),
        2 => format!("{} OR {}", filter(r, d), filter(r, d)),
        3 => format!("({})", filter(r, d)),
        4 => format!("({} OR {}) AND {}", filter(r, d), filter(r, d), filter(r, d)),
        5 => format!("{} {}", filter(r, d), filter(r, d)),
        6 => format!("( {} )", filter(r, d)),
        _ => format!("NOT ({} AND {})", filter(r, d), filter(r, d)),
    }
}

fn name_list(r: &mut Rng) -> String {
    let n = 1 + r.below(3);
    let v: Vec<String> = (0..n).map(|_| name(r)).collect();
    v.join(*r.pick(&[", ", ",", " ,", ",  "]))
}

fn regex_pat(r: &mut Rng) -> String {
    r.pick(&[
        "(?P<a>\\d+)",
        "(?P<k>\\w+)=(?P<v>\\S+)",
        "^(?<ip>[0-9.]+) - (?P<user>[a-z_]+)$",
        "status=(?P<status>\\d{3})",
        "(\\d+)",
        "(?:GET|POST) (?P<url>\\S+)",
        "(?P<a>x)(?P<a>y)",
        "[",
        "(?P<a>.*?) took (?P<ms>[0-9]+)ms",
        "plain",
        "(?i)x(?P<y>z)",
        "a{2,3}(?P<n>b+)?",
    ])
    .to_string()
}

fn parse_op(r: &mut Rng) -> String {
    let mut s = String::from("parse");
    s.push_str(ws(r));
    let is_regex = r.chance(30);
    if is_regex {
        s.push_str("regex ");
        let p = regex_pat(r);
        if r.chance(50) {
            s.push_str(&format!("\"{}\"", p));
        } else {
            s.push_str(&format!("'{}'", p));
        }
    } else {
        s.push_str(&quoted(r));
    }
    if r.chance(25) {
        s.push_str(&format!(" from {}", expr(r, 1)));
    }
    if !is_regex || r.chance(10) {
        if r.chance(90) {
            s.push_str(&format!(" as {}", name_list(r)));
        }
    }
    if r.chance(20) {
        s.push_str(&format!(" from {}", column(r)));
    }
    if r.chance(25) {
        s.push_str(" nodrop");
    }
    if r.chance(20) {
        s.push_str(" noconvert");
    }
    s
}

fn agg_fn(r: &mut Rng) -> String {
    let f = match r.below(14) {
        0 => "count".to_string(),
        1 => format!("count({})", expr(r, 2)),
        2 => "count_distinct".to_string(),
        3 => format!("count_distinct({})", column(r)),
        4 => format!("count_distinct({}, {})", column(r), column(r)),
        5 => format!("min({})", expr(r, 1)),
        6 => format!("max({})", expr(r, 1)),
        7 => format!("sum({})", expr(r, 1)),
        8 => format!("avg({})", expr(r, 1)),
        9 => format!("average({})", expr(r, 1)),
        10 => format!("pct{}({})", r.pick(&["50", "99", "05", "1"]), column(r)),
        11 => format!("percentile{}({})", r.pick(&["50", "75", "099"]), column(r)),
        12 => format!("p{}({})", r.pick(&["50", "90", "99", "100", "0", "9"]), column(r)),
        _ => format!("sum( {} )", column(r)),
    };
    if r.chance(40) {
        format!("{} as {}", f, name(r))
    } else {
        f
    }
}

fn agg_op(r: &mut Rng) -> String {
    let n = 1 + r.below(3);
    let v: Vec<String> = (0..n).map(|_| agg_fn(r)).collect();
    let mut s = v.join(*r.pick(&[", ", ",", " , "]));
    if r.chance(65) {
        let nk = 1 + r.below(3);
        let ks: Vec<String> = (0..nk).map(|_| expr(r, 1)).collect();
        s.push_str(&format!(" by {}", ks.join(*r.pick(&[", ", ",", " ,"]))));
    }
    s
}

fn sort_op(r: &mut Rng) -> String {
    let mut s = String::from("sort");
    if r.chance(85) {
        let nk = 1 + r.below(3);
        let ks: Vec<String> = (0..nk).map(|_| expr(r, 1)).collect();
        s.push_str(&format!(" by {}", ks.join(*r.pick(&[", ", ","]))));
    }
    s.push_str(*r.pick(&["", "", " asc", " desc", " dsc", " ascending", " descending"]));
    s
}

pub fn operator(r: &mut Rng) -> String {
    match r.below(34) {
        0 | 1 | 2 => parse_op(r),
        3 => "json".into(),
        4 => format!("json from {}", column(r)),
        5 => "logfmt".into(),
        6 => format!("logfmt from {}", expr(r, 1)),
        7 | 8 => format!("fields{}{}{}", ws(r), r.pick(&["", "+ ", "- ", "only ", "include ", "except ", "drop ", "+", "-"]), name_list(r)),
        9 => "limit".into(),
        10 => format!("limit {}", r.range(-20, 200)),
        11 => format!("limit {}", r.pick(&["1.5", "1e3", "+7", "inf", "nan", "NaN", "Infinity", ".5", "5.", "1E-2", "-0", "1e", "1e+"])),
        12 => format!("split({})", column(r)),
        13 => format!("split({}) on {}", column(r), quoted(r)),
        14 => format!("split({}) on {} as {}", column(r), quoted(r), column(r)),
        15 => format!("split on {}", quoted(r)),
        16 => format!("split({}) as {}", expr(r, 1), name(r)),
        17 => format!("timeslice({}) {}", expr(r, 1), duration(r)),
        18 => format!("timeslice({}) {} as {}", column(r), duration(r), name(r)),
        19 => format!("timeslice({})", column(r)),
        20 => format!("total({})", expr(r, 1)),
        21 => format!("total({}) as {}", column(r), name(r)),
        22 | 23 => format!("where {}", expr(r, 3)),
        24 => "where".into(),
        25 | 26 | 27 => agg_op(r),
        28 | 29 => sort_op(r),
        30 | 31 => format!("{} as {}", expr(r, 3), name(r)),
        32 => r.pick(&["apache", "nginx", "k8singressnginx", "testmultioperator"]).to_string(),
        _ => gen::row_stage(r, false),
    }
}

pub fn valid_query(r: &mut Rng) -> String {
    let mut s = String::new();
    let nf = match r.below(6) {
        0 => 0,
        1 | 2 | 3 => 1,
        _ => 2,
    };
    let fs: Vec<String> = (0..nf).map(|_| filter(r, 2)).collect();
    s.push_str(&fs.join(ws(r)));
    let n = r.below(5);
    for _ in 0..n {
        if r.chance(15) {
            s.push('|');
        } else {
            s.push_str(ws(r));
            s.push('|');
            s.push_str(ws(r));
        }
        s.push_str(&operator(r));
    }
    if r.chance(8) {
        s.push_str(ws(r));
    }
    s
}

/* ---------- mutations ---------- */

pub fn tokenize(q: &str) -> Vec<String> {
    let mut out: Vec<String> = vec![];
    let mut cur = String::new();
    let mut kind = 0; // 1 word, 2 space
    for c in q.chars() {
        let k = if c.is_alphanumeric() || c == '_' {
            1
        } else if c.is_whitespace() {
            2
        } else {
            3
        };
        if k == 3 || k != kind {
            if !cur.is_empty() {
                out.push(std::mem::take(&mut cur));
            }
        }
        cur.push(c);
        kind = k;
        if k == 3 {
            out.push(std::mem::take(&mut cur));
            kind = 0;
        }
    }
    if !cur.is_empty() {
        out.push(cur);
    }
    out
}

const TOKEN_POOL: &[&str] = &[
    "|", "(", ")", "[", "]", "\"", "'", ",", ".", "*", "+", "-", "/", "!", "==", "!=", "<", ">", "&&", "||", "\\", " ", "as", "by", "from", "on",
    "and", "or", "AND", "OR", "NOT", "count", "sum", "min", "max", "avg", "average", "p50", "pct", "percentile", "count_distinct", "sort", "asc",
    "desc", "descending", "ascending", "dsc", "json", "logfmt", "parse", "regex", "fields", "only", "except", "drop", "include", "limit", "split",
    "timeslice", "total", "where", "nodrop", "noconvert", "if", "true", "false", "null", "x", "5", "5m", "1h30m", "9223372036854775807w",
    "9223372036854775808", "-9223372036854775808ms", "apache", "nginx", "1e", "inf", "}", "{", "$", "#", "@", "%", "^", ":", ";", "=", "~", "`", "?",
];

pub fn mutate(r: &mut Rng, q: &str) -> String {
    let mut toks = tokenize(q);
    let k = 1 + r.below(2);
    for _ in 0..k {
        if toks.is_empty() {
            toks.push(r.pick(TOKEN_POOL).to_string());
            continue;
        }
        let i = r.below(toks.len());
        match r.below(9) {
            0 | 1 => {
                toks.remove(i);
            }
            2 => {
                let t = toks[i].clone();
                toks.insert(i, t);
            }
            3 | 4 => {
                toks[i] = r.pick(TOKEN_POOL).to_string();
            }
            5 => {
                toks.push(r.pick(&[" ", "", " | "]).to_string());
                toks.push(r.pick(TOKEN_POOL).to_string());
            }
            6 => {
                let j = r.below(toks.len());
                toks.swap(i, j);
            }
            7 => {
                toks.insert(i, r.pick(TOKEN_POOL).to_string());
            }
            _ => {
                // truncate at a char boundary
                let s: String = toks.concat();
                let n = s.chars().count();
                let cut = r.below(n + 1);
                let t: String = s.chars().take(cut).collect();
                toks = tokenize(&t);
            }
        }
    }
    toks.concat()
}

/// random concatenation of small pieces: exercises the recovery combinators after the first report
pub fn soup(r: &mut Rng) -> String {
    let n = 2 + r.below(14);
    let mut s = String::new();
    for _ in 0..n {
        match r.below(10) {
            0 => s.push_str(*r.pick(NON_ASCII)),
            1 | 2 => s.push(' '),
            3 => s.push_str(" | "),
            _ => s.push_str(*r.pick(TOKEN_POOL)),
        }
    }
    s
}

const NON_ASCII: &[&str] = &[
    "é", "š", "日", "本", "а", "\u{a0}", "😀", "ß", "ı", "\u{2028}", "İ", "\u{85}", "一", "ａ", "\u{161}\u{161}", "é|", "(é", "\"é", "é)", "é ", " é",
    "\u{3000}", "K", "ñ]", "[ñ",
];

pub fn insert_non_ascii(r: &mut Rng, q: &str) -> String {
    let mut chars: Vec<String> = q.chars().map(|c| c.to_string()).collect();
    let k = 1 + r.below(2);
    for _ in 0..k {
        let i = r.below(chars.len() + 1);
        if r.chance(25) && i < chars.len() {
            chars[i] = r.pick(NON_ASCII).to_string();
        } else {
            chars.insert(i, r.pick(NON_ASCII).to_string());
        }
    }
    chars.concat()
}

/* ---------- witnesses (candidate defects listed in Parser.lean) ---------- */

pub const WITNESSES: &[&str] = &[
    // A: remainder never checked
    "* | json | sort by x descending | limit 1",
    "* | json | sort by x ascending | limit 1",
    "* | json | fields x b",
    "* | json | sorted by x | limit 1",
    "* | json | sort by x, | count",
    "* | json | n + 1 as m extra | limit 1",
    "* | json | fields - x,y z | count",
    "* | json | sort by x desc,y",
    "* | json | sort_key as x",
    "* | json ) | count",
    "a ) b | json",
    // B: did_you_mean succeeds silently
    "* | json | count by x y",
    "* | json | count by x, | limit 1",
    "* | json | fields except",
    "* | json | fields only",
    "* | json | count x",
    "* | count, sum",
    "* | parse",
    "* | json | fields",
    "* | json | count_distinct x",
    "* | json | count as",
    "* | json | apache x",
    "* | json | limit5",
    "* | json | jsonx",
    "* | json | timeslice",
    "* | json | total",
    "* | json | split x",
    "* | json | where1",
    "* | json | count, nosuch by x",
    "* | json | nosuch",
    "* | json | cuont by x",
    // C: prefix tags
    "* | json | where true_x",
    "* | json | truex as y",
    "* | json | nullable as y",
    "* | json | countby x",
    "* | json | count_distinct(x)by y",
    "* | parse \"*\" asx",
    "* | json | fields onlyx",
    "* | json | fields -x",
    "* | json | fields dropx",
    "* | json | minutes as m",
    "* | json | p50 + 1 as y",
    "* | json | sum_x as y",
    "* | json | maximum as z",
    "* | json | count_x as y",
    "* | json | avg_latency as z",
    "* | json | limit infinity",
    "* | json | limit inf",
    "* | json | limit nan",
    "* | json | limit -inf",
    "* | json | limit 1e",
    "* | json | limit 1e5",
    "* | json | where x andy",
    "* | json | where x order",
    "* | json | iffy as z",
    "* | json | if(a,b) as z",
    "* | json | where x == -5",
    "* | json | where x > 1.5",
    // D: binary-only filters
    "a AND b AND c | json",
    "a OR b OR c",
    "NOT",
    "AND",
    "NOT a",
    "NOTE",
    "\"\" | json",
    "(a OR b) AND c",
    "((((a))))",
    ")",
    // E: truncating casts
    "* | json | š1 as x",
    "* | json | where š > 1",
    "日本 | json",
    "šš | json",
    "* | json | fields а",
    // F: panics
    "(a é",
    "* | where é",
    "* | where é|",
    "* | json | count(é)",
    "* | parse é x",
    "* | where x == 9223372036854775807w",
    "* | where 9000000000000000s9000000000000000s",
    "* | where -9223372036854775808ms",
    "* | where 9223372036854775807ms",
    "* | where 9223372036854775808s",
    "\"é",
    "'a\\",
    "'a\\é",
    "(é)",
    "(éa",
    "* | json | sum(éa|b)",
    "* | json | sum(é",
    "* | json | [é",
    "* | timeslice(x) 5mins",
    // misc
    "",
    " ",
    "|",
    "* |",
    "* | | count",
    "* | 5",
    "* | json | count | ",
    "* | apache | nginx | k8singressnginx | testmultioperator",
    "* | [\"apache\"]",
    "* | parse regex \"(?P<a>\\d+)\" as x",
    "* | parse regex \"(\\d+)\"",
    "* | parse regex \"(?P<a>\\d+)\" from msg nodrop",
    "* | parse \"a\\\"b * \\\\ \\q\" as x",
    "* | parse 'it\\'s *' as x",
    "* | json | p99(x), percentile099(y), pct5(z) by k",
    "* | json | p100(x)",
    "* | json | p0(x)",
    "a | json | where isBlank😀(s)",
    " | count",
    "\n|\njson|count",
    "error | json | count_distinct(a, b) as d, avg(x) by [\"a b\"], k.p[0]",
];

/* ---------- the check ---------- */

pub fn clip(s: String) -> String {
    if s.len() <= 200 {
        return s;
    }
    let mut n = 200;
    while !s.is_char_boundary(n) {
        n -= 1;
    }
    s[..n].to_string()
}

/// outcome of the shared F-level comparison (model driver `PARSE` vs `ag::lang::query`)
pub struct Cmp {
    /// "pass" | "skip" | "fdis"
    pub verdict: &'static str,
    /// ACCEPT <tokens> | REJECT | PANIC <message>
    pub imp_ans: String,
    pub model: String,
    /// the implementation's AST when it accepted
    pub ast: Option<ag::lang::Query>,
    pub diags: Vec<(String, Vec<(usize, usize)>)>,
}

pub fn panic_kind(a: &str) -> &'static str {
    if a.contains("char boundary") || a.contains("char-boundary") {
        "slice"
    } else if a.contains("TimeDelta") {
        "chrono"
    } else {
        "other"
    }
}

/// the shared F-level core: parse `q` on both sides and compare
pub fn compare(ctx: &mut Ctx, q: &str) -> Cmp {
    let mut ast = None;
    let mut diags = vec![];
    let imp_ans = match imp::parse(q) {
        Ok((Some(a), d)) => {
            let s = format!("ACCEPT {}", enc::query(&a));
            ast = Some(a);
            diags = d;
            s
        }
        Ok((None, d)) => {
            diags = d;
            "REJECT".to_string()
        }
        Err(msg) => format!("PANIC {}", msg),
    };
    let model = ctx.drv.ask(&format!("PARSE\t{}", enc::hex(q)));
    let class = |a: &str| a.split(' ').next().unwrap_or("").to_string();
    let (ci, cm) = (class(&imp_ans), class(&model));
    let verdict = if cm == "SKIP" {
        "skip"
    } else if ci == "PANIC" {
        // panics: same kind (byte-offset slice vs chrono range), the message text itself is not compared
        if cm == "PANIC" && panic_kind(&imp_ans) == panic_kind(&model) && panic_kind(&model) != "other" {
            "pass"
        } else {
            "fdis"
        }
    } else if imp_ans == model {
        "pass"
    } else {
        "fdis"
    };
    Cmp { verdict, imp_ans, model, ast, diags }
}

/// report the F-level comparison of one string as a case of `family`
pub fn report(ctx: &mut Ctx, family: &str, q: &str, c: &Cmp) {
    let ci = c.imp_ans.split(' ').next().unwrap_or("").to_string();
    match c.verdict {
        "skip" => ctx.case(family, "", "skip", serde_json::json!({"why": c.model[4..].trim(), "query": q, "impl": ci})),
        "pass" => {
            if std::env::var("PARSE_ECHO").is_ok() {
                imp::emit(&serde_json::json!({"k": "echo", "query": q, "impl": c.imp_ans, "model": c.model}).to_string());
            }
            ctx.case(family, q, "pass", serde_json::json!({"query": q, "outcome": ci, "model": if ci == "PANIC" { c.model.clone() } else { String::new() }}));
        }
        _ => ctx.case(family, q, "fdis", serde_json::json!({"query": q, "query_hex": enc::hex(q), "impl": c.imp_ans, "model": c.model})),
    }
}

fn one(ctx: &mut Ctx, family: &str, q: &str) {
    let c = compare(ctx, q);
    let ci = c.imp_ans.split(' ').next().unwrap_or("");
    if ci == "ACCEPT" {
        ctx.count("accepted");
    } else if ci == "REJECT" {
        ctx.count("rejected");
    } else {
        ctx.count("panicked");
    }
    report(ctx, family, q, &c);
}

/// one generated string: (family, text) with the PARSE distribution
pub fn gen_string(r: &mut Rng) -> (&'static str, String) {
    let base = if r.chance(30) {
        let cfg = gen::QueryCfg { allow_agg: true, allow_sort: true, max_stages: 4 };
        gen::json_pipeline(r, &cfg)
    } else {
        valid_query(r)
    };
    let (family, q) = match r.below(100) {
        0..=41 => ("valid", base),
        42..=73 => ("mutated", mutate(r, &base)),
        74..=85 => ("non-ascii", insert_non_ascii(r, &base)),
        86..=92 => ("soup", soup(r)),
        _ => {
            let m = mutate(r, &base);
            ("mutated+non-ascii", insert_non_ascii(r, &m))
        }
    };
    (family, clip(q))
}

pub fn check(ctx: &mut Ctx) {
    if let Some(path) = ctx.replay.clone() {
        // replay file: one query per line (hex)
        if let Ok(text) = std::fs::read_to_string(&path) {
            for l in text.lines() {
                let q = String::from_utf8_lossy(&enc::unhex(l.trim())).into_owned();
                one(ctx, "replay", &q);
            }
        }
        return;
    }
    // witnesses: split over the shards
    for (i, q) in WITNESSES.iter().enumerate() {
        if i % ctx.nshards == ctx.shard {
            one(ctx, "witness", q);
        }
    }
    let n = ctx.budget(6000, 400000);
    for _ in 0..n {
        let mut r = ctx.rng.fork();
        let (family, q) = gen_string(&mut r);
        one(ctx, family, &q);
    }
    // thorough: every single-token deletion and duplication of 300 seed queries
    if ctx.thorough() {
        let mut seeds = crate::rng::Rng::new(ctx.seed ^ 0x5eed);
        for i in 0..300 {
            let q = clip(valid_query(&mut seeds));
            if i % ctx.nshards != ctx.shard {
                continue;
            }
            let toks = tokenize(&q);
            for j in 0..toks.len() {
                let mut del = toks.clone();
                del.remove(j);
                one(ctx, "exhaustive-delete", &del.concat());
                let mut dup = toks.clone();
                dup.insert(j, toks[j].clone());
                one(ctx, "exhaustive-duplicate", &clip(dup.concat()));
            }
        }
    }
}
