//! C20: equivalent spellings of a query mean the same thing.
//!
//! A query STRUCTURE is generated once and rendered twice under two random SPELLINGS (blanks incl.
//! tabs/newlines between tokens, redundant parentheses, quote style, the documented synonyms,
//! `["name"]` vs bare name, `from` before/after `as`, explicit `as <default name>`, `limit` vs
//! `limit 10`, `sort by x` vs `sort by x asc`).
//! P-level (real code only): both renderings are accepted or both rejected; the ASTs are equal
//! modulo the documented freedom; the `-o json` output on a probe input is identical.
//! Also: every way to quote one string that contains quote characters (either delimiter, the other
//! quote bare or needlessly escaped) in every position that takes a quoted string (`requote`);
//! each built-in alias against its expansion on the repository's sample logs, and the CLI
//! pairs `--format F` ≡ `-o format=F`, `--file P` ≡ `< P` on the binary.
//! F-level: the shared PARSE comparison on every rendering.
use super::c04::{self, Rep};
use super::parse;
use crate::enc;
use crate::imp;
use crate::rng::Rng;
use crate::Ctx;
use ag::lang::*;

/* ---------- structure ---------- */

#[derive(Clone, Debug)]
enum E {
    Col(String, Vec<Seg>),
    Str(String),
    Int(u64),
    Dur(Vec<(u32, &'static str)>),
    Bool(bool),
    Null,
    Not(Box<E>),
    Bin(&'static str, Box<E>, Box<E>),
    Call(&'static str, Vec<E>),
    If(Box<E>, Box<E>, Box<E>),
}

#[derive(Clone, Debug)]
enum Seg {
    Field(String),
    Idx(i64),
}

#[derive(Clone, Debug)]
enum Agg {
    Count(Option<E>),
    CountDistinct(E),
    Fn(&'static str, E), // min max sum avg
    Pct(u32, E),
}

#[derive(Clone, Debug)]
enum Op {
    Json(Option<E>),
    Logfmt,
    Parse { pat: String, fields: Vec<String>, from: Option<E>, nodrop: bool, noconvert: bool },
    Fields(bool, Vec<String>),
    Where(E),
    Limit(Option<i64>),
    Split(E, Option<String>, Option<String>),
    Timeslice(E, Vec<(u32, &'static str)>, Option<String>),
    Total(E, Option<String>),
    FieldExpr(E, String),
    Agg(Vec<(Agg, Option<String>)>, Vec<E>),
    Sort(Vec<E>, Option<bool>), // Some(true) = descending, Some(false) = explicit asc, None = default
    Alias(&'static str),
}

#[derive(Clone, Debug)]
enum F {
    Star,
    Word(&'static str),
    Quoted(String),
    Not(Box<F>),
    And(Box<F>, Box<F>),
    Or(Box<F>, Box<F>),
}

const COLS: &[&str] = &["k", "n", "x", "s", "b", "o", "arr", "msg", "status", "url", "t", "v", "host", "level"];
const NEWNAMES: &[&str] = &["r", "y", "c1", "c2", "out", "ts", "tot", "res", "a b", "x-y", "max_latency", "sum_total", "p50x", "it's", "a\"b"];

fn gcol(r: &mut Rng) -> E {
    let h = if r.chance(5) { r.pick(&["max_latency", "sum_total", "p50x", "nullable", "trueish", "minute", "count_x"]).to_string() } else { r.pick(COLS).to_string() };
    let mut segs = vec![];
    match r.below(8) {
        0 => segs.push(Seg::Field("p".into())),
        1 => segs.push(Seg::Idx(r.range(-2, 3))),
        2 => {
            segs.push(Seg::Field("q".into()));
            segs.push(Seg::Idx(r.range(0, 2)));
        }
        3 => segs.push(Seg::Field("k.k".into())),
        _ => {}
    }
    E::Col(h, segs)
}

fn gstr(r: &mut Rng) -> String {
    r.pick(&["a", "alpha", "GET", "err", "x y", "it's", "say \"hi\"", "it's \"x\"", "'", "\"", "a\\'b", "back\\slash", "tab\there", "", "100%", ",", "d\\d+", "é"]).to_string()
}

fn gatom(r: &mut Rng) -> E {
    match r.below(12) {
        0..=5 => gcol(r),
        6 => E::Str(gstr(r)),
        7 | 8 => E::Int(r.range(0, 500) as u64),
        9 => E::Dur((0..1 + r.below(2)).map(|_| (r.range(1, 90) as u32, *r.pick(&["ns", "us", "ms", "s", "m", "h", "d", "w"]))).collect()),
        10 => E::Bool(r.chance(50)),
        _ => E::Null,
    }
}

fn gexpr(r: &mut Rng, depth: usize) -> E {
    if depth == 0 || r.chance(35) {
        return gatom(r);
    }
    let d = depth - 1;
    match r.below(12) {
        0 => E::Bin("+", Box::new(gexpr(r, d)), Box::new(gexpr(r, d))),
        1 => E::Bin("-", Box::new(gexpr(r, d)), Box::new(gexpr(r, d))),
        2 => E::Bin("*", Box::new(gexpr(r, d)), Box::new(gexpr(r, d))),
        3 => E::Bin("/", Box::new(gexpr(r, d)), Box::new(gexpr(r, d))),
        4 | 5 => E::Bin(*r.pick(&["==", "!=", ">", "<", ">=", "<="]), Box::new(gexpr(r, d)), Box::new(gexpr(r, d))),
        6 => E::Bin("and", Box::new(gexpr(r, d)), Box::new(gexpr(r, d))),
        7 => E::Bin("or", Box::new(gexpr(r, d)), Box::new(gexpr(r, d))),
        8 => E::Not(Box::new(gexpr(r, d))),
        9 => E::If(Box::new(gexpr(r, d)), Box::new(gexpr(r, d)), Box::new(gexpr(r, d))),
        _ => {
            let (f, n) = *r.pick(&[("length", 1), ("abs", 1), ("isNull", 1), ("concat", 2), ("contains", 2), ("toLowerCase", 1), ("substring", 3), ("floor", 1), ("isEmpty", 1)]);
            E::Call(f, (0..n).map(|_| gexpr(r, d)).collect())
        }
    }
}

fn gfilter(r: &mut Rng, depth: usize) -> F {
    if depth == 0 || r.chance(50) {
        return match r.below(6) {
            0 | 1 => F::Star,
            2 => F::Quoted(gstr(r)),
            _ => F::Word(*r.pick(&["error", "GET", "alpha", "status_200", "a.b-c", "*err*", "user@host", "k"])),
        };
    }
    let d = depth - 1;
    match r.below(3) {
        0 => F::Not(Box::new(gfilter(r, d))),
        1 => F::And(Box::new(gfilter(r, d)), Box::new(gfilter(r, d))),
        _ => F::Or(Box::new(gfilter(r, d)), Box::new(gfilter(r, d))),
    }
}

fn gname(r: &mut Rng) -> String {
    r.pick(NEWNAMES).to_string()
}

fn gagg(r: &mut Rng) -> (Agg, Option<String>) {
    let a = match r.below(9) {
        0 | 1 => Agg::Count(None),
        2 => Agg::Count(Some(gexpr(r, 1))),
        3 => Agg::CountDistinct(gcol(r)),
        4 => Agg::Fn("min", gexpr(r, 1)),
        5 => Agg::Fn("max", gcol(r)),
        6 => Agg::Fn("sum", gexpr(r, 1)),
        7 => Agg::Fn("avg", gcol(r)),
        // every percentile 1..99: the default column name is built from the digits as written
        _ => Agg::Pct(if r.chance(50) { *r.pick(&[50, 90, 99, 5, 75]) } else { r.range(1, 99) as u32 }, gcol(r)),
    };
    (a, if r.chance(30) { Some(gname(r)) } else { None })
}

fn gop(r: &mut Rng, after_agg: bool) -> Op {
    match r.below(24) {
        0 => Op::Json(None),
        1 => Op::Json(Some(gcol(r))),
        2 => Op::Logfmt,
        3 | 4 => {
            let (pat, n) = *r.pick(&[("* - *", 2), ("[*] *", 2), ("user=* took *ms", 2), ("status=*", 1), ("\"* * *\" *", 4), ("GET *", 1), ("no stars", 0)]);
            Op::Parse {
                pat: pat.to_string(),
                fields: (0..n).map(|i| if r.chance(20) { gname(r) + &i.to_string() } else { format!("f{}", i) }).collect(),
                from: if r.chance(40) { Some(gcol(r)) } else { None },
                nodrop: r.chance(30),
                noconvert: r.chance(20),
            }
        }
        5 | 6 => Op::Fields(r.chance(50), (0..1 + r.below(3)).map(|_| if r.chance(80) { r.pick(COLS).to_string() } else { gname(r) }).collect()),
        7 | 8 => Op::Where(gexpr(r, 3)),
        9 => Op::Limit(None),
        10 => Op::Limit(Some(if r.chance(70) { r.range(1, 20) } else { -r.range(1, 5) })),
        11 => Op::Split(gcol(r), if r.chance(60) { Some(r.pick(&[",", " ", "=", "::"]).to_string()) } else { None }, if r.chance(50) { Some(gname(r)) } else { None }),
        12 => Op::Timeslice(
            E::Call("parseDate", vec![E::Col("t".into(), vec![])]),
            (0..1 + r.below(2)).map(|_| (r.range(1, 50) as u32, *r.pick(&["s", "m", "h", "d"]))).collect(),
            if r.chance(50) { Some(gname(r)) } else { None },
        ),
        13 => Op::Total(gexpr(r, 1), if r.chance(50) { Some(gname(r)) } else { None }),
        14 | 15 | 16 => Op::FieldExpr(gexpr(r, 3), gname(r)),
        17 | 18 | 19 | 20 => {
            let n = 1 + r.below(3);
            let nk = r.below(3);
            Op::Agg(
                (0..n).map(|_| gagg(r)).collect(),
                (0..nk).map(|_| if r.chance(75) { E::Col(r.pick(&["k", "b", "status", "host", "url"]).to_string(), vec![]) } else { gexpr(r, 1) }).collect(),
            )
        }
        21 | 22 => Op::Sort(
            (0..r.below(3)).map(|_| if after_agg && r.chance(50) { E::Col("_count".into(), vec![]) } else { gcol(r) }).collect(),
            *r.pick(&[None, Some(false), Some(true)]),
        ),
        _ => Op::Alias(*r.pick(&["apache", "nginx", "k8singressnginx", "testmultioperator"])),
    }
}

struct Q {
    filters: Vec<F>,
    ops: Vec<Op>,
}

fn gquery(r: &mut Rng) -> Q {
    let filters = (0..1 + r.below(2)).map(|_| gfilter(r, 2)).collect();
    let mut ops = vec![];
    let n = r.below(5);
    let mut after = false;
    if r.chance(60) {
        ops.push(Op::Json(None));
    }
    for _ in 0..n {
        let o = gop(r, after);
        if matches!(o, Op::Agg(..)) {
            after = true;
        }
        ops.push(o);
    }
    Q { filters, ops }
}

/* ---------- spelling ---------- */

/// a spelling = a random stream + at most ONE enabled hazard kind (a spelling freedom that the
/// property grants but that is known / suspected to be mishandled); `hz == 0`: none
pub struct Sp {
    r: Rng,
    hz: u8,
}

impl Sp {
    fn below(&mut self, n: usize) -> usize {
        self.r.below(n)
    }
    fn chance(&mut self, p: usize) -> bool {
        self.r.chance(p)
    }
    fn pick<'a, T>(&mut self, xs: &'a [T]) -> &'a T {
        self.r.pick(xs)
    }
}

const HZ_CLASS: &[&str] = &[
    "",
    "C20/long-sort-direction-cut-short",
    "C20/blank-before-closing-paren",
    "C20/blank-inside-filter-parens",
    "C20/blank-before-comma-in-name-list",
    "C20/identifier-prefix-collides-with-keyword",
    "C20/by-header-depends-on-spelling",
];

const KW_PREFIXES: &[&str] = &["min", "max", "sum", "avg", "count", "true", "false", "null", "sort", "p5", "limit", "where", "total", "json", "fields", "parse", "split"];

fn kw_prefixed(n: &str) -> bool {
    KW_PREFIXES.iter().any(|p| n.starts_with(p))
}

/// blank before a closing parenthesis of `single_arg` / a parenthesised expression (hazard 2)
fn bclose(s: &mut Sp) -> &'static str {
    if s.hz == 2 {
        b0(s)
    } else {
        ""
    }
}

/// blank just inside filter parentheses (hazard 3)
fn bfilt(s: &mut Sp) -> &'static str {
    if s.hz == 3 {
        b0(s)
    } else {
        ""
    }
}

/// one or more blanks
fn b1(s: &mut Sp) -> &'static str {
    match s.below(10) {
        0 => "  ",
        1 => "\t",
        2 => "\n",
        3 => " \r\n",
        4 => "   ",
        _ => " ",
    }
}

/// zero or more blanks
fn b0(s: &mut Sp) -> &'static str {
    match s.below(8) {
        0 => " ",
        1 => "  ",
        2 => "\n",
        3 => "\t",
        _ => "",
    }
}

/// a quoted string: either delimiter; the delimiter itself is written with a backslash inside, the
/// OTHER quote character may be (`\'` and `\"` are escapes in both styles) but need not be
fn squote(s: &mut Sp, text: &str) -> String {
    let q = if s.chance(50) { '"' } else { '\'' };
    let esc_other = text.contains(['"', '\'']) && s.chance(40);
    spell_quoted(text, q, esc_other)
}

fn spell_quoted(text: &str, q: char, esc_other: bool) -> String {
    let mut o = String::new();
    o.push(q);
    for c in text.chars() {
        match c {
            '\\' => o.push_str("\\\\"),
            '\t' => o.push_str("\\t"),
            '\n' => o.push_str("\\n"),
            c if c == q || (esc_other && (c == '"' || c == '\'')) => {
                o.push('\\');
                o.push(c)
            }
            c => o.push(c),
        }
    }
    o.push(q);
    o
}

fn bare_ok(n: &str) -> bool {
    let mut cs = n.chars();
    matches!(cs.next(), Some(c) if c.is_ascii_alphabetic() || c == '_') && cs.all(|c| c.is_ascii_alphanumeric() || c == '_')
}

/// `["name"]` or the bare name
fn sident(s: &mut Sp, n: &str) -> String {
    if bare_ok(n) && s.chance(70) {
        n.to_string()
    } else {
        format!("[{}]", squote(s, n))
    }
}

fn sdur(d: &[(u32, &'static str)]) -> String {
    d.iter().map(|(n, u)| format!("{}{}", n, u)).collect()
}

fn level(e: &E) -> u8 {
    match e {
        E::Bin("or", ..) => 0,
        E::Bin("and", ..) => 1,
        E::Bin("==" | "!=" | ">" | "<" | ">=" | "<=", ..) => 2,
        E::Bin("+" | "-", ..) => 3,
        E::Bin(..) => 4,
        E::Not(_) => 5,
        _ => 6,
    }
}

fn sexpr(s: &mut Sp, e: &E, min: u8) -> String {
    let body = match e {
        E::Col(h, segs) => {
            let mut t = if kw_prefixed(h) && !(s.hz == 5 && s.chance(70)) { format!("[{}]", squote(s, h)) } else { sident(s, h) };
            for g in segs {
                match g {
                    Seg::Field(f) => {
                        t.push('.');
                        t.push_str(&sident(s, f));
                    }
                    Seg::Idx(i) => t.push_str(&format!("[{}]", i)),
                }
            }
            t
        }
        E::Str(x) => squote(s, x),
        E::Int(i) => format!("{}", i),
        E::Dur(d) => sdur(d),
        E::Bool(b) => format!("{}", b),
        E::Null => "null".into(),
        E::Not(x) => format!("!{}", sexpr(s, x, 6)),
        E::Bin(op, l, r) => {
            let (lv, rl, rr) = match level(e) {
                0 => (0, 0, 1),
                1 => (1, 1, 2),
                2 => (2, 3, 3),
                3 => (3, 3, 4),
                _ => (4, 4, 5),
            };
            let _ = lv;
            let ls = sexpr(s, l, rl);
            let rs = sexpr(s, r, rr);
            match *op {
                "and" => {
                    if s.chance(50) {
                        format!("{}{}and{}{}", ls, b1(s), b1(s), rs)
                    } else {
                        format!("{}{}&&{}{}", ls, b0(s), b0(s), rs)
                    }
                }
                "or" => {
                    if s.chance(50) {
                        format!("{}{}or{}{}", ls, b1(s), b1(s), rs)
                    } else {
                        format!("{}{}||{}{}", ls, b0(s), b0(s), rs)
                    }
                }
                "!=" => format!("{}{}{}{}{}", ls, b0(s), if s.chance(50) { "!=" } else { "<>" }, b0(s), rs),
                // `a -5s` would still be a subtraction, but `-` directly before a digit is kept apart
                "-" => format!("{}{}-{}{}", ls, b0(s), b1(s), rs),
                o => format!("{}{}{}{}{}", ls, b0(s), o, b0(s), rs),
            }
        }
        E::Call(f, args) => {
            let a: Vec<String> = args.iter().map(|x| format!("{}{}{}", b0(s), sexpr(s, x, 0), b0(s))).collect();
            format!("{}({})", f, a.join(","))
        }
        E::If(c, t, f) => format!("if({}{},{}{},{}{}{})", b0(s), sexpr(s, c, 0), b0(s), sexpr(s, t, 0), b0(s), sexpr(s, f, 0), b0(s)),
    };
    if level(e) < min {
        format!("({}{}{})", b0(s), body, bclose(s))
    } else if s.chance(8) {
        // redundant parentheses
        format!("({}{}{})", b0(s), body, bclose(s))
    } else {
        body
    }
}

fn sfilter_low(s: &mut Sp, f: &F) -> String {
    let body = match f {
        F::Star => "*".to_string(),
        F::Word(w) => w.to_string(),
        F::Quoted(t) => squote(s, t),
        F::Not(x) => format!("NOT{}{}", b1(s), sfilter_low(s, x)),
        F::And(l, r) => format!("({}{}{}AND{}{}{})", bfilt(s), sfilter_low(s, l), b1(s), b1(s), sfilter_low(s, r), bfilt(s)),
        F::Or(l, r) => format!("({}{}{}OR{}{}{})", bfilt(s), sfilter_low(s, l), b1(s), b1(s), sfilter_low(s, r), bfilt(s)),
    };
    if s.chance(8) {
        format!("({}{}{})", bfilt(s), body, bfilt(s))
    } else {
        body
    }
}

fn sfilter_top(s: &mut Sp, f: &F) -> String {
    // a top-level AND / OR may be written without the enclosing parentheses
    match f {
        F::And(l, r) if s.chance(50) => format!("{}{}AND{}{}", sfilter_low(s, l), b1(s), b1(s), sfilter_low(s, r)),
        F::Or(l, r) if s.chance(50) => format!("{}{}OR{}{}", sfilter_low(s, l), b1(s), b1(s), sfilter_low(s, r)),
        o => sfilter_low(s, o),
    }
}

fn snames(s: &mut Sp, v: &[String]) -> String {
    let mut o = String::new();
    for (i, n) in v.iter().enumerate() {
        if i > 0 {
            if s.hz == 4 {
                o.push_str(b0(s));
            }
            o.push(',');
            o.push_str(b0(s));
        }
        o.push_str(&sident(s, n));
    }
    o
}

fn default_name(a: &Agg) -> String {
    match a {
        Agg::Count(_) => "_count".into(),
        Agg::CountDistinct(_) => "_countDistinct".into(),
        Agg::Fn("min", _) => "_min".into(),
        Agg::Fn("max", _) => "_max".into(),
        Agg::Fn("sum", _) => "_sum".into(),
        Agg::Fn(_, _) => "_average".into(),
        Agg::Pct(n, _) => format!("p{}", n),
    }
}

fn sagg(s: &mut Sp, a: &Agg, name: &Option<String>) -> String {
    let f = match a {
        Agg::Count(None) => "count".to_string(),
        Agg::Count(Some(e)) => format!("count({}{}{})", b0(s), sexpr(s, e, 0), bclose(s)),
        Agg::CountDistinct(e) => format!("count_distinct({}{}{})", b0(s), sexpr(s, e, 0), b0(s)),
        Agg::Fn("avg", e) => format!("{}({}{}{})", if s.chance(50) { "avg" } else { "average" }, b0(s), sexpr(s, e, 0), bclose(s)),
        Agg::Fn(f, e) => format!("{}({}{}{})", f, b0(s), sexpr(s, e, 0), bclose(s)),
        Agg::Pct(n, e) => format!("{}{}({}{}{})", s.pick(&["p", "pct", "percentile"]), n, b0(s), sexpr(s, e, 0), bclose(s)),
    };
    match name {
        Some(n) => format!("{}{}as{}{}", f, b1(s), b1(s), sident(s, n)),
        None => {
            if s.chance(30) {
                format!("{}{}as{}{}", f, b1(s), b1(s), sident(s, &default_name(a)))
            } else {
                f
            }
        }
    }
}

fn sop(s: &mut Sp, o: &Op) -> String {
    match o {
        Op::Json(None) => "json".into(),
        Op::Json(Some(e)) => format!("json{}from{}{}", b1(s), b1(s), sexpr(s, e, 0)),
        Op::Logfmt => "logfmt".into(),
        Op::Parse { pat, fields, from, nodrop, noconvert } => {
            let mut t = format!("parse{}{}", b1(s), squote(s, pat));
            let before = s.chance(50);
            if let (Some(e), true) = (from, before) {
                t.push_str(&format!("{}from{}{}", b1(s), b1(s), sexpr(s, e, 0)));
            }
            if !fields.is_empty() {
                t.push_str(&format!("{}as{}{}", b1(s), b1(s), snames(s, fields)));
            }
            if let (Some(e), false) = (from, before) {
                t.push_str(&format!("{}from{}{}", b1(s), b1(s), sexpr(s, e, 0)));
            }
            if *nodrop {
                t.push_str(&format!("{}nodrop", b1(s)));
            }
            if *noconvert {
                t.push_str(&format!("{}noconvert", b1(s)));
            }
            t
        }
        Op::Fields(except, names) => {
            let m = if *except {
                *s.pick(&["-", "except ", "drop ", "- "])
            } else {
                *s.pick(&["", "+", "only ", "include ", "+ "])
            };
            format!("fields{}{}{}", b1(s), m, snames(s, names))
        }
        Op::Where(e) => format!("where{}{}", b1(s), sexpr(s, e, 0)),
        Op::Limit(None) => {
            if s.chance(50) {
                "limit".into()
            } else {
                format!("limit{}10", b1(s))
            }
        }
        Op::Limit(Some(n)) => format!("limit{}{}", b1(s), n),
        Op::Split(e, sep, out) => {
            let mut t = format!("split({}{}{})", b0(s), sexpr(s, e, 0), bclose(s));
            match sep {
                Some(x) => t.push_str(&format!("{}on{}{}", b1(s), b1(s), squote(s, x))),
                None => {
                    if s.chance(40) {
                        t.push_str(&format!("{}on{}{}", b1(s), b1(s), squote(s, ",")))
                    }
                }
            }
            if let Some(n) = out {
                t.push_str(&format!("{}as{}{}", b1(s), b1(s), sident(s, n)));
            }
            t
        }
        Op::Timeslice(e, d, out) => {
            let mut t = format!("timeslice({}{}{}){}{}", b0(s), sexpr(s, e, 0), bclose(s), b1(s), sdur(d));
            match out {
                Some(n) => t.push_str(&format!("{}as{}{}", b1(s), b1(s), sident(s, n))),
                None => {
                    if s.chance(30) {
                        t.push_str(&format!("{}as{}_timeslice", b1(s), b1(s)))
                    }
                }
            }
            t
        }
        Op::Total(e, out) => {
            let mut t = format!("total({}{}{})", b0(s), sexpr(s, e, 0), bclose(s));
            match out {
                Some(n) => t.push_str(&format!("{}as{}{}", b1(s), b1(s), sident(s, n))),
                None => {
                    if s.chance(40) {
                        t.push_str(&format!("{}as{}_total", b1(s), b1(s)))
                    }
                }
            }
            t
        }
        Op::FieldExpr(e, n) => format!("{}{}as{}{}", sexpr(s, e, 0), b1(s), b1(s), sident(s, n)),
        Op::Agg(fns, keys) => {
            let mut t = String::new();
            for (i, (a, n)) in fns.iter().enumerate() {
                if i > 0 {
                    t.push_str(b0(s));
                    t.push(',');
                    t.push_str(b0(s));
                }
                t.push_str(&sagg(s, a, n));
            }
            if !keys.is_empty() {
                t.push_str(&format!("{}by{}", b1(s), b1(s)));
                for (i, k) in keys.iter().enumerate() {
                    if i > 0 {
                        t.push_str(b0(s));
                        t.push(',');
                        t.push_str(b0(s));
                    }
                    if s.hz == 6 {
                        t.push_str(&sexpr(s, k, 0));
                    } else {
                        // the header of a key column is its source text: one fixed spelling
                        let mut plain = Sp { r: Rng::new(7), hz: 0 };
                        t.push_str(&sexpr(&mut plain, k, 0));
                    }
                }
            }
            t
        }
        Op::Sort(cols, dir) => {
            let mut t = String::from("sort");
            if !cols.is_empty() {
                t.push_str(&format!("{}by{}", b1(s), b1(s)));
                for (i, k) in cols.iter().enumerate() {
                    if i > 0 {
                        t.push_str(b0(s));
                        t.push(',');
                        t.push_str(b0(s));
                    }
                    t.push_str(&sexpr(s, k, 0));
                }
            }
            let long = s.hz == 1;
            let asc = if long && s.chance(70) { "ascending" } else { "asc" };
            let desc = if long && s.chance(70) { "descending" } else { *s.pick(&["desc", "dsc"]) };
            match dir {
                None => {
                    if s.chance(40) {
                        t.push_str(&format!("{}{}", b1(s), asc))
                    }
                }
                Some(false) => t.push_str(&format!("{}{}", b1(s), asc)),
                Some(true) => t.push_str(&format!("{}{}", b1(s), desc)),
            }
            t
        }
        Op::Alias(a) => a.to_string(),
    }
}

fn squery(s: &mut Sp, q: &Q) -> String {
    let mut t = String::from(b0(s));
    for (i, f) in q.filters.iter().enumerate() {
        if i > 0 {
            t.push_str(b1(s));
        }
        t.push_str(&sfilter_top(s, f));
    }
    for o in &q.ops {
        t.push_str(b0(s));
        t.push('|');
        t.push_str(b0(s));
        t.push_str(&sop(s, o));
    }
    t.push_str(b0(s));
    t
}

/* ---------- comparison ---------- */

fn norm_op(o: &mut Operator) {
    match o {
        Operator::RenderedAlias(ops) => ops.iter_mut().for_each(norm_op),
        Operator::Inline(p) => {
            p.range = 0..0;
            match &mut p.value {
                InlineOperator::Limit { count } => match count {
                    None => *count = Some(Positioned { range: 0..0, value: 10.0 }),
                    Some(c) => c.range = 0..0,
                },
                // `from` before or after `as`: one input column either way
                InlineOperator::Parse { input_column, .. } => {
                    if input_column.0.is_none() && input_column.1.is_some() {
                        input_column.0 = input_column.1.take();
                    }
                }
                // explicit `as _timeslice` equals the default output column
                InlineOperator::Timeslice { output_column, .. } => {
                    if output_column.is_none() {
                        *output_column = Some("_timeslice".to_string());
                    }
                }
                _ => {}
            }
        }
        Operator::MultiAggregate(m) => {
            // the header is the source text of the key expression: compared separately
            m.key_col_headers = m.key_cols.iter().map(|e| c04::expr_text(e).unwrap_or_default()).collect();
        }
        _ => {}
    }
}

/// AND and OR are associative (and juxtaposition at top level is AND): nested chains are flattened
fn norm_search(s: &Search) -> Search {
    match s {
        Search::And(v) => {
            let mut out = vec![];
            for x in v {
                match norm_search(x) {
                    Search::And(inner) => out.extend(inner),
                    o => out.push(o),
                }
            }
            Search::And(out)
        }
        Search::Or(v) => {
            let mut out = vec![];
            for x in v {
                match norm_search(x) {
                    Search::Or(inner) => out.extend(inner),
                    o => out.push(o),
                }
            }
            Search::Or(out)
        }
        Search::Not(x) => Search::Not(Box::new(norm_search(x))),
        k => k.clone(),
    }
}

/// AST tokens modulo the documented freedom (`limit` ≡ `limit 10`; `from` position; key headers
/// re-rendered; top-level conjunctions flattened)
fn norm_ast(q: &Query) -> String {
    let mut q = q.clone();
    q.operators.iter_mut().for_each(norm_op);
    q.search = norm_search(&q.search);
    enc::query(&q)
}

fn headers(q: &Query) -> Vec<String> {
    let mut v = vec![];
    for o in &q.operators {
        if let Operator::MultiAggregate(m) = o {
            v.extend(m.key_col_headers.iter().cloned());
        }
    }
    v
}

fn run_stdout(q: &str, input: &[u8]) -> Option<Vec<u8>> {
    let r = imp::run(q, input, "json", 10);
    if r.panicked.is_some() || r.hung || !r.compiled {
        None
    } else {
        Some(r.stdout)
    }
}

/// identical `-o json` output; a byte difference only counts when it is not run-to-run
/// nondeterminism of one and the same text (hash order reaching the output is C13's business)
fn same_output(q1: &str, q2: &str, input: &[u8]) -> Result<(), (String, String)> {
    let a = run_stdout(q1, input);
    let b = run_stdout(q2, input);
    if a == b {
        return Ok(());
    }
    let ra = c04::probe_rows(q1, input);
    let rb = c04::probe_rows(q2, input);
    if ra.is_some() && ra == rb {
        return Ok(());
    }
    let sa: Vec<_> = (0..5).filter_map(|_| c04::probe_rows(q1, input)).collect();
    let sb: Vec<_> = (0..5).filter_map(|_| c04::probe_rows(q2, input)).collect();
    if sa.iter().any(|x| sb.contains(x)) {
        return Ok(());
    }
    Err((
        String::from_utf8_lossy(&a.unwrap_or_default()).chars().take(600).collect(),
        String::from_utf8_lossy(&b.unwrap_or_default()).chars().take(600).collect(),
    ))
}

/// `hz_class`: the class to report under when the second spelling exercises a known hazard ("" = none)
fn pair(ctx: &mut Ctx, rep: &mut Rep, family: &str, q1: &str, q2: &str, input: &[u8], hz_class: &str) {
    let key = format!("{}\u{1}{}", q1, q2);
    let cls = |generic: &'static str| -> String { if hz_class.is_empty() { generic.to_string() } else { hz_class.to_string() } };
    let info = serde_json::json!({"query": q1, "query2": q2, "query_hex": enc::hex(q1), "query2_hex": enc::hex(q2)});
    let c1 = parse::compare(ctx, q1);
    let c2 = parse::compare(ctx, q2);
    for (q, c) in [(q1, &c1), (q2, &c2)] {
        if c.verdict != "pass" {
            parse::report(ctx, &format!("F:{}", family), q, c);
        }
    }
    let r1 = imp::run(q1, b"", "json", 10);
    let r2 = imp::run(q2, b"", "json", 10);
    if r1.panicked.is_some() || r2.panicked.is_some() || r1.hung || r2.hung {
        let mut i = info.clone();
        i["panic"] = serde_json::json!(r1.panicked.clone().or(r2.panicked.clone()));
        rep.fail(ctx, family, &key, &cls("C20/spelling-panics"), "one of the two spellings panics or hangs at compile time", i);
        return;
    }
    ctx.count(if r1.compiled { "accepted" } else { "rejected" });
    if r1.compiled != r2.compiled {
        let (acc, rej) = if r1.compiled { (q1, q2) } else { (q2, q1) };
        let mut i = info.clone();
        i["accepted"] = serde_json::json!(acc);
        i["rejected"] = serde_json::json!(rej);
        rep.fail(ctx, family, &key, &cls("C20/acceptance-depends-on-spelling"), "one spelling is accepted, the other rejected", i);
        return;
    }
    if !r1.compiled {
        ctx.case(family, &key, "pass", serde_json::json!({"query": q1, "query2": q2, "outcome": "both rejected"}));
        return;
    }
    let (a1, a2) = match (&c1.ast, &c2.ast) {
        (Some(a), Some(b)) => (a, b),
        _ => return,
    };
    let mut good = true;
    if c04::has_error_node(a1) || c04::has_error_node(a2) || norm_ast(a1) != norm_ast(a2) {
        good = false;
        let mut i = info.clone();
        i["ast1"] = serde_json::json!(enc::query(a1));
        i["ast2"] = serde_json::json!(enc::query(a2));
        let class = if c04::lex(q1).1 != a1.operators.len() || c04::lex(q2).1 != a2.operators.len() || c04::has_error_node(a1) || c04::has_error_node(a2) {
            "C20/spelling-cut-short"
        } else {
            "C20/ast-depends-on-spelling"
        };
        rep.fail(ctx, family, &key, &cls(class), "the two spellings parse to different queries", i);
    } else if headers(a1) != headers(a2) {
        good = false;
        let mut i = info.clone();
        i["headers1"] = serde_json::json!(headers(a1));
        i["headers2"] = serde_json::json!(headers(a2));
        rep.fail(ctx, family, &key, "C20/by-header-depends-on-spelling", "the column header of a `by` key is its source text: blanks / parentheses / quote style / synonyms inside the key change the output column name", i);
    }
    if good {
        match same_output(q1, q2, input) {
            Ok(()) => ctx.case(family, &key, "pass", serde_json::json!({"query": q1, "query2": q2, "outcome": "same AST, same output"})),
            Err((o1, o2)) => {
                let mut i = info.clone();
                i["out1"] = serde_json::json!(o1);
                i["out2"] = serde_json::json!(o2);
                rep.fail(ctx, family, &key, &cls("C20/output-depends-on-spelling"), "the two spellings give different -o json output on the probe input", i);
            }
        }
    }
}

/* ---------- aliases ---------- */

const ALIAS_EXPANSIONS: &[(&str, &str, &str)] = &[
    (
        "apache",
        "parse \"* - * [*] \\\"* * *\\\" * *\" as ip, name, timestamp, method, url, protocol, status, contentlength",
        "127.0.0.1 - frank [10/Oct/2000:13:55:36 -0700] \"GET /apache_pb.gif HTTP/1.0\" 200 2326\n10.0.0.2 - - [11/Oct/2000:14:00:00 -0700] \"POST /x HTTP/1.1\" 404 12\nnot an access log line\n",
    ),
    (
        "nginx",
        "parse \"* - * [*] \\\"* * *\\\" * * \\\"*\\\" \\\"*\\\" \\\"*\\\"\" as addr, user, timestamp, method, url, protocol, status, bytes_sent, http_referer, http_user_agent, gzip_ratio",
        "127.0.0.1 - - [23/Feb/2023:17:05:13 +0000] \"GET / HTTP/1.1\" 200 615 \"-\" \"curl/7.77.0\" \"-\"\n127.0.0.1 - bob [23/Feb/2023:17:05:14 +0000] \"GET /a HTTP/1.1\" 500 0 \"ref\" \"agent x\" \"1.5\"\njunk\n",
    ),
    (
        "k8singressnginx",
        "parse \"* - * [*] \\\"* * *\\\" * * \\\"*\\\" \\\"*\\\" * * [*] [*] * * * * *\" as remote_addr, remote_user, timestamp, method, url, protocol, status, body_bytes_sent, http_referer, http_user_agent, request_length, request_time, proxy_upstream_name, proxy_alternative_upstream_name, upstream_addr, upstream_response_length, upstream_response_time, upstream_status, req_id",
        "172.70.127.35 - - [22/Feb/2023:22:02:59 +0000] \"POST /twirp/example.v1.ServiceAPI/TestJob HTTP/1.1\" 200 16 \"-\" \"tasks/testing\" 902 0.247 [test-grpc] [] 10.0.74.255:8080 16 0.248 200 89f3c824055b4d87942831d74343fb9a\nother\n",
    ),
    ("testmultioperator", "json | count", "{ \"abc\": 5, \"xyz\": \"hello\" }\n{\"abc\": 6}\nnot json\n"),
];

fn alias_checks(ctx: &mut Ctx, rep: &mut Rep) {
    for (kw, expansion, sample) in ALIAS_EXPANSIONS {
        // stages written after the alias act on what the alias's last operator produced: rows for the
        // parse aliases, the aggregate's table for the multi-operator alias; a prefix stage comes first
        let tails: &[&str] = if *kw == "testmultioperator" {
            &["", " | limit 1", " | limit 5", " | where _count > 1", " | _count * 2 as d", " | total(_count) as t", " | fields - _count", " | sort by _count", " | count"]
        } else {
            &["", " | count by status", " | fields status, url", " | limit 1", " | where status == 200", " | count | limit 1", " | sort by status | limit 1"]
        };
        for tail in tails.iter().copied() {
            let q1 = format!("* | {}{}", kw, tail);
            let q2 = format!("* | {}{}", expansion, tail);
            let mut inputs: Vec<Vec<u8>> = vec![sample.as_bytes().to_vec()];
            for f in ["/repo/test_files/test_parse.log", "/repo/test_files/test_json.log"] {
                if let Ok(b) = std::fs::read(f) {
                    inputs.push(b.into_iter().take(20000).collect());
                }
            }
            for input in &inputs {
                let key = format!("{}:{}:{}", kw, tail, input.len());
                match same_output(&q1, &q2, input) {
                    Ok(()) => {
                        let ok = run_stdout(&q1, input).is_some();
                        if ok {
                            ctx.case("alias", &key, "pass", serde_json::json!({"query": q1, "query2": q2}));
                        } else {
                            rep.fail(ctx, "alias", &key, "C20/alias-rejected", "an alias query is rejected or panics", serde_json::json!({"query": q1, "query2": q2}));
                        }
                    }
                    Err((o1, o2)) => rep.fail(
                        ctx,
                        "alias",
                        &key,
                        "C20/alias-differs-from-expansion",
                        "a built-in alias and its expansion give different output",
                        serde_json::json!({"query": q1, "query2": q2, "out1": o1, "out2": o2}),
                    ),
                }
            }
        }
    }
}

/* ---------- CLI pairs ---------- */

fn cli_checks(ctx: &mut Ctx, rep: &mut Rep) {
    if !c04::ensure_binary() {
        ctx.case("cli", "", "skip", serde_json::json!({"why": "agrind binary not available"}));
        return;
    }
    let dir = format!("/verif/harness/target/scratch/c20-{}", std::process::id());
    let _ = std::fs::create_dir_all(&dir);
    let path = format!("{}/input.log", dir);
    // flat records only: nested objects print in hash order (C13's business)
    let flat = "{\"k\":\"a\",\"n\":3,\"x\":1.5,\"s\":\"alpha GET\",\"status\":200,\"Status\":\"OK\",\"reqId\":\"R1\"}\n{\"k\":\"b\",\"n\":-1,\"s\":\"error\",\"status\":500}\nk=a n=4 status=200 msg=\"hello error\"\nplain GET line\n{\"k\":\"a\",\"n\":12,\"status\":404}\n";
    let _ = std::fs::write(&path, flat);
    // the same bytes must mean the same whichever way they are handed over — also when they start
    // with a byte-order mark, end without a newline, use CR LF, or are empty
    let variants: Vec<(&str, Vec<u8>)> = vec![
        ("bom", [b"\xEF\xBB\xBF".to_vec(), flat.as_bytes().to_vec()].concat()),
        ("bom-only", b"\xEF\xBB\xBF".to_vec()),
        ("crlf", flat.replace('\n', "\r\n").into_bytes()),
        ("no-final-newline", flat.trim_end().as_bytes().to_vec()),
        ("empty", vec![]),
        ("nul-and-bom-inside", [b"{\"k\":\"a\"}\n\xEF\xBB\xBF{\"k\":\"b\"}\n\0\n".to_vec()].concat()),
        // bytes that are not UTF-8: both ways in decode each line lossily
        ("latin1-byte", b"{\"k\":\"caf\xE9\",\"n\":1}\nk=caf\xE9 n=2\nplain caf\xE9 line\n{\"k\":\"a\",\"n\":3}\n".to_vec()),
        ("truncated-utf8-at-end", b"{\"k\":\"a\",\"n\":1}\nk=b n=2\nlast line ends inside a character \xE2\x82".to_vec()),
        ("ff-fe-and-overlong", b"\xFF\xFE{\"k\":\"a\"}\n{\"k\":\"\xC0\xAF\",\"n\":2}\n\xF0\x9F\x98\n{\"k\":\"b\",\"n\":5}\n".to_vec()),
    ];
    for (vname, bytes) in &variants {
        let vpath = format!("{}/input-{}.log", dir, vname);
        let _ = std::fs::write(&vpath, bytes);
        for q in ["* | json | count", "* | json | sum(n), count by k", "* | logfmt | count by k", "*", "* | parse \"*\" as whole | count by whole"] {
            let r1 = c04::run_binary(&[q, "--file", &vpath, "-o", "json"], None);
            let r2 = c04::run_binary(&[q, "-o", "json"], Some(&vpath));
            let key = format!("file-variant:{}:{}", vname, q);
            match (r1, r2) {
                (Some(x), Some(y)) => {
                    if x.code == y.code && x.stdout == y.stdout && x.stderr == y.stderr {
                        ctx.case("cli", &key, "pass", serde_json::json!({"query": q, "input": vname}));
                    } else {
                        rep.fail(ctx, "cli", &key, "C20/file-differs-from-stdin", "`--file P` and `< P` differ", serde_json::json!({"query": q, "input_variant": vname, "exit": [x.code, y.code],
                            "out_file": String::from_utf8_lossy(&x.stdout).chars().take(300).collect::<String>(), "out_stdin": String::from_utf8_lossy(&y.stdout).chars().take(300).collect::<String>(),
                            "err_file": String::from_utf8_lossy(&x.stderr).chars().take(200).collect::<String>(), "err_stdin": String::from_utf8_lossy(&y.stderr).chars().take(200).collect::<String>()}));
                    }
                }
                _ => ctx.case("cli", "", "skip", serde_json::json!({"why": "cannot start the agrind binary"})),
            }
        }
    }
    let queries = ["* | json", "* | json | count by k", "GET | json | fields k, n", "* | logfmt | where status == 200", "error", "* | json | limit 2"];
    // the format string must reach the printer verbatim whichever way it is given: case, `=`,
    // blanks, non-ASCII text and upper-case field names included
    let formats = ["{k} => {n}", "{status}", "k={k:>5} n={n:.2}", "plain text", "{missing}", "{k}{k}", "LEVEL={k} MSG={s}", "{Status} / {reqId}", "Ünïcode {k} É=ß", "a=b=c {n}", "  lead and trail  ", "{K}"];
    for (i, q) in queries.iter().enumerate() {
        // --file P ≡ < P (every output mode)
        for mode in [vec![], vec!["-o", "json"], vec!["-o", "logfmt"], vec!["-o", "legacy"]] {
            let mut a1: Vec<&str> = vec![q, "--file", &path];
            a1.extend(mode.iter());
            let mut a2: Vec<&str> = vec![q];
            a2.extend(mode.iter());
            let mut a3: Vec<&str> = vec![q, "-f", &path];
            a3.extend(mode.iter());
            let r1 = c04::run_binary(&a1, None);
            let r2 = c04::run_binary(&a2, Some(&path));
            let r3 = c04::run_binary(&a3, None);
            let key = format!("file:{}:{:?}", i, mode);
            match (r1, r2, r3) {
                (Some(x), Some(y), Some(z)) => {
                    let same = |a: &c04::SubRun, b: &c04::SubRun| a.code == b.code && (a.stdout == b.stdout || sorted_lines(&a.stdout) == sorted_lines(&b.stdout));
                    if same(&x, &y) && same(&z, &y) && x.code == Some(0) {
                        ctx.case("cli", &key, "pass", serde_json::json!({"query": q, "mode": mode}));
                    } else {
                        rep.fail(
                            ctx,
                            "cli",
                            &key,
                            "C20/file-differs-from-stdin",
                            "`--file P` and `< P` differ",
                            serde_json::json!({"query": q, "mode": mode, "exit": [x.code, y.code, z.code],
                                "out_file": String::from_utf8_lossy(&x.stdout).chars().take(300).collect::<String>(),
                                "out_stdin": String::from_utf8_lossy(&y.stdout).chars().take(300).collect::<String>()}),
                        );
                    }
                }
                _ => ctx.case("cli", "", "skip", serde_json::json!({"why": "cannot start the agrind binary"})),
            }
        }
        // --format F ≡ -o format=F
        for (j, f) in formats.iter().enumerate() {
            let of = format!("format={}", f);
            let r1 = c04::run_binary(&[q, "--format", f], Some(&path));
            let r2 = c04::run_binary(&[q, "-o", &of], Some(&path));
            let r3 = c04::run_binary(&[q, "-m", f], Some(&path));
            let key = format!("format:{}:{}", i, j);
            match (r1, r2, r3) {
                (Some(x), Some(y), Some(z)) => {
                    let same = |a: &c04::SubRun, b: &c04::SubRun| a.code == b.code && (a.stdout == b.stdout || sorted_lines(&a.stdout) == sorted_lines(&b.stdout)) && a.stderr.is_empty() == b.stderr.is_empty();
                    if same(&x, &y) && same(&z, &y) {
                        ctx.case("cli", &key, "pass", serde_json::json!({"query": q, "format": f, "exit": x.code}));
                    } else {
                        rep.fail(
                            ctx,
                            "cli",
                            &key,
                            "C20/format-flag-differs-from-output-format",
                            "`--format F` and `-o format=F` differ",
                            serde_json::json!({"query": q, "format": f, "exit": [x.code, y.code, z.code],
                                "out_flag": String::from_utf8_lossy(&x.stdout).chars().take(300).collect::<String>(),
                                "out_o": String::from_utf8_lossy(&y.stdout).chars().take(300).collect::<String>()}),
                        );
                    }
                }
                _ => ctx.case("cli", "", "skip", serde_json::json!({"why": "cannot start the agrind binary"})),
            }
        }
    }
    let _ = std::fs::remove_dir_all(&dir);
}

fn sorted_lines(b: &[u8]) -> Vec<String> {
    let mut v: Vec<String> = String::from_utf8_lossy(b).lines().map(|l| l.to_string()).collect();
    v.sort();
    v
}

/* ---------- fixed spelling pairs (every synonym family once, deterministic) ---------- */

pub const PAIRS: &[(&str, &str, &str)] = &[
    ("* | json | avg(x)", "* | json | average(x)", ""),
    ("* | json | avg(x) by k", "* | json | average(x) as _average by k", ""),
    ("* | json | p50(n)", "* | json | pct50(n)", ""),
    ("* | json | p50(n)", "* | json | percentile50(n)", ""),
    ("* | json | p50(n)", "* | json | p50(n) as p50", ""),
    ("* | json | where n != 3", "* | json | where n <> 3", ""),
    ("* | json | where n > 1 and x > 1", "* | json | where n > 1 && x > 1", ""),
    ("* | json | where n > 1 and x > 1", "* | json | where n>1&&x>1", ""),
    ("* | json | where n > 5 or k == 'a'", "* | json | where n > 5 || k == \"a\"", ""),
    ("* | json | count by k | sort by k", "* | json | count by k | sort by k asc", ""),
    ("* | json | count by k | sort by k", "* | json | count by k | sort by k ascending", "C20/long-sort-direction-cut-short"),
    ("* | json | count by k | sort by k desc", "* | json | count by k | sort by k dsc", ""),
    ("* | json | count by k | sort by k desc", "* | json | count by k | sort by k descending", "C20/long-sort-direction-cut-short"),
    ("* | json | count by k | sort by k desc | limit 1", "* | json | count by k | sort by k descending | limit 1", "C20/long-sort-direction-cut-short"),
    ("* | json | count by k | sort by k asc | limit 1", "* | json | count by k | sort by k ascending | limit 1", "C20/long-sort-direction-cut-short"),
    ("* | json | fields k, n", "* | json | fields + k, n", ""),
    ("* | json | fields k, n", "* | json | fields only k, n", ""),
    ("* | json | fields k, n", "* | json | fields include k, n", ""),
    ("* | json | fields k, n", "* | json | fields +k,n", ""),
    ("* | json | fields - k, n", "* | json | fields except k, n", ""),
    ("* | json | fields - k, n", "* | json | fields drop k, n", ""),
    ("* | json | fields k, n", "* | json | fields k , n", "C20/blank-before-comma-in-name-list"),
    ("* | json | fields k, n", "* | json | fields [\"k\"], ['n']", ""),
    ("* | json | n + 1 as m", "* | json | [\"n\"] + 1 as [\"m\"]", ""),
    ("* | json | count by k", "* | json | count by [\"k\"]", "C20/by-header-depends-on-spelling"),
    ("* | json | count by o.p", "* | json | count by o.[\"p\"]", "C20/by-header-depends-on-spelling"),
    ("* | json | count by n > 5", "* | json | count by n>5", "C20/by-header-depends-on-spelling"),
    ("* | json | count by n > 5", "* | json | count by (n > 5)", "C20/by-header-depends-on-spelling"),
    ("* | json | count", "* | json | count as _count", ""),
    ("* | json | sum(n)", "* | json | sum(n) as _sum", ""),
    ("* | json | count_distinct(k)", "* | json | count_distinct(k) as _countDistinct", ""),
    ("* | json | total(n)", "* | json | total(n) as _total", ""),
    ("* | json | limit", "* | json | limit 10", ""),
    ("* | json | count by k | limit", "* | json | count by k | limit 10", ""),
    ("* | parse \"user=* took *ms\" from msg as u, ms", "* | parse \"user=* took *ms\" as u, ms from msg", ""),
    ("* | json | parse \"user=* took *ms\" from msg as u, ms nodrop", "* | json | parse 'user=* took *ms' as u,ms from msg nodrop", ""),
    ("* | json | where s == \"it's\"", "* | json | where s == 'it\\'s'", ""),
    ("* | json | where s == \"say \\\"hi\\\"\"", "* | json | where s == 'say \"hi\"'", ""),
    ("\"GET\" | json", "'GET' | json", ""),
    ("* | json | where (n > 1)", "* | json | where n > 1", ""),
    ("* | json | where ((n) > (1))", "* | json | where n > 1", ""),
    ("* | json | (n + 1) * 2 as m", "* | json | ((n + 1)) * (2) as m", ""),
    ("* | json | where n > 1", "*|json|where n>1", ""),
    ("* | json | where n > 1", "  *\n|\tjson\n|  where\n n\t>  1  ", ""),
    ("* | json | count, sum(n) by k", "* | json | count ,sum(n) by k", ""),
    ("* | json | count, sum(n) by k, b", "* | json | count,sum( n )\nby k ,b", "C20/blank-before-closing-paren"),
    ("* | json | if(n > 1, \"a\", \"b\") as r", "* | json | if( n > 1 ,'a' , 'b' ) as r", ""),
    ("GET AND alpha", "(GET AND alpha)", ""),
    ("GET AND alpha AND error", "(GET AND alpha) AND error", "C20/filter-chain-takes-operator-as-keyword"),
    ("GET OR alpha OR error", "(GET OR alpha) OR error", "C20/filter-chain-takes-operator-as-keyword"),
    ("GET alpha", "GET AND alpha", ""),
    ("NOT (GET OR alpha)", "NOT ( GET  OR  alpha )", "C20/blank-inside-filter-parens"),
    ("* | json | max_latency as y", "* | json | [\"max_latency\"] as y", "C20/identifier-prefix-collides-with-keyword"),
    // regression cases of the fixed finding C20/identifier-prefix-collides-with-keyword (repo 0324001)
    ("* | json | where trueish == 1", "* | json | where [\"trueish\"] == 1", "C20/identifier-prefix-collides-with-keyword"),
    ("* | json | nullable + 1 as y", "* | json | [\"nullable\"] + 1 as y", "C20/identifier-prefix-collides-with-keyword"),
    ("* | json | counter as y", "* | json | [\"counter\"] as y", "C20/identifier-prefix-collides-with-keyword"),
    ("* | json | sortable as y", "* | json | [\"sortable\"] as y", "C20/identifier-prefix-collides-with-keyword"),
    ("* | json | p50x as y", "* | json | [\"p50x\"] as y", "C20/identifier-prefix-collides-with-keyword"),
    ("* | json | sum_total as z", "* | json | [\"sum_total\"] as z", "C20/identifier-prefix-collides-with-keyword"),
    ("* | json | fields onlyx", "* | json | fields [\"onlyx\"]", "C20/identifier-prefix-collides-with-keyword"),
    ("* | json | fields exceptional", "* | json | fields [\"exceptional\"]", "C20/identifier-prefix-collides-with-keyword"),
    ("* | json | timeslice(parseDate(t)) 1h", "* | json | timeslice(parseDate(t)) 60m", ""),
    ("* | json | timeslice(parseDate(t)) 1h", "* | json | timeslice(parseDate(t)) 1h as _timeslice", ""),
    ("* | json | split(s) on \" \"", "* | json | split(s) on ' ' as s", ""),
];

/* ---------- re-quoted spellings of a string that contains quote characters ---------- */

/// every way to write `text` as a quoted string: either delimiter, the delimiter escaped, the other
/// quote character bare or escaped although it need not be. The first one is the "natural" spelling
/// (a delimiter that does not occur in the text, nothing escaped) when there is one.
fn requote_spellings(text: &str) -> Vec<String> {
    let order = if text.contains('"') { ['\'', '"'] } else { ['"', '\''] };
    let mut out: Vec<String> = vec![];
    for q in order {
        for esc_other in [false, true] {
            let s = spell_quoted(text, q, esc_other);
            if !out.contains(&s) {
                out.push(s);
            }
        }
    }
    out
}

/// what a reading that leaves the backslash of an escaped quote in place would take the text for
fn with_backslashes(t: &str) -> String {
    t.replace('\'', "\\'").replace('"', "\\\"")
}

/// an input on which the meaning of the string shows: records / lines holding the text itself and
/// the text with a backslash before each quote character (as field value, field name, nested key,
/// part of a longer value, part of a plain line), so that a spelling which is read as a different
/// string selects / computes something else
fn requote_input(t: &str) -> Vec<u8> {
    let tb = with_backslashes(t);
    let rec = |id: u32, msg: String, who: &str, key: Option<(&str, u32)>| -> String {
        let mut m = serde_json::Map::new();
        m.insert("id".into(), serde_json::json!(id));
        m.insert("msg".into(), serde_json::json!(msg));
        m.insert("who".into(), serde_json::json!(who));
        if let Some((k, v)) = key {
            m.insert(k.to_string(), serde_json::json!(v));
            let mut o = serde_json::Map::new();
            o.insert(k.to_string(), serde_json::json!(v + 10));
            m.insert("o".into(), serde_json::Value::Object(o));
            m.insert("sp".into(), serde_json::json!(format!("a{}b{}c", k, k)));
        }
        serde_json::Value::Object(m).to_string()
    };
    let mut lines = vec![
        rec(1, t.to_string(), "ann", Some((t, 5))),
        rec(2, tb.clone(), "bob", Some((&tb, 7))),
        rec(3, "plain".into(), "cy", None),
        rec(4, format!("x{}y", t), "dee", Some((t, 6))),
        rec(5, format!("x{}z", tb), "eve", None),
    ];
    lines.push(format!("[{}] one", t));
    lines.push(format!("[{}] two", tb));
    lines.push(format!("pre {} post", t));
    lines.push(format!("pre {} post", tb));
    lines.push("nothing here".to_string());
    (lines.join("\n") + "\n").into_bytes()
}

const REQUOTE_TEXTS: &[&str] = &["it's", "say \"hi\"", "it's \"x\"", "'", "\"", "'lead", "trail\"", "a\\'b", "''", "é\"ü'"];

/// (position, what the quoted string is made of: the text itself or a pattern around it, query with `§`
/// where the quoted string goes — every position of the grammar that takes one)
const REQUOTE_TEMPLATES: &[(&str, &str, &str)] = &[
    ("where-literal", "§", "* | json | where msg == § | fields id, who"),
    ("where-literal-lhs", "§", "* | json | where § == msg | fields id"),
    ("where-literal-ne", "§", "* | json | where msg != § | fields id"),
    ("concat-argument", "§", "* | json | concat(who, §) as owner | count by owner | sort by owner"),
    ("contains-argument", "§", "* | json | where contains(msg, §) | count"),
    ("if-condition", "§", "* | json | if(msg == §, 'y', 'n') as r | count by r | sort by r"),
    ("literal-column", "§", "* | json | § as lit | fields id, lit"),
    ("search-keyword", "§", "§ | count"),
    ("search-keyword-not", "§", "NOT § | count"),
    ("search-keyword-or", "§", "(§ OR nothing) | count"),
    ("search-keyword-and", "§", "§ pre | count"),
    ("identifier", "§", "* | json | [§] + 1 as y | fields id, y"),
    ("identifier-as", "§", "* | json | id * 2 as [§] | sum([§]) as s"),
    ("identifier-fields", "§", "* | json | fields [§]"),
    ("identifier-fields-except", "§", "* | json | fields except [§], o, sp, msg"),
    ("identifier-nested", "§", "* | json | o.[§] as y | fields id, y"),
    ("identifier-aggregate", "§", "* | json | sum([§]) as s, count by who | sort by who"),
    ("identifier-sort", "§", "* | json | fields id, [§] | sort by [§] desc"),
    ("split-separator", "§", "* | json | split(sp) on § as parts | fields id, parts"),
    ("parse-pattern", "[§] *", "* | parse § as rest | count by rest | sort by rest"),
    ("parse-pattern-from", "x§*", "* | json | parse § from msg as rest | fields id, rest"),
    ("parse-pattern-nodrop", "pre § *", "* | parse § as rest nodrop | fields rest"),
    ("parse-regex-pattern", "\\[§\\] (?P<rest>[a-z]+)", "* | parse regex § | count by rest | sort by rest"),
];

/// C20 "quote style": all the ways to write one string between quotes denote the same string, in
/// every position; checked pairwise against the first spelling (acceptance, AST, `-o json` output)
fn requote_checks(ctx: &mut Ctx, rep: &mut Rep) {
    let mut i = 0usize;
    for t in REQUOTE_TEXTS {
        let input = requote_input(t);
        for (pos, shape, tpl) in REQUOTE_TEMPLATES {
            i += 1;
            if i % ctx.nshards != ctx.shard {
                continue;
            }
            let sps = requote_spellings(&shape.replace('§', t));
            let q1 = tpl.replace('§', &sps[0]);
            // the reference spelling should select / compute something on this input
            let shows = run_stdout(&q1, &input).map_or(false, |o| o.iter().filter(|b| !b.is_ascii_whitespace()).count() > 2);
            ctx.count(if shows { "requote:reference-output-nonempty" } else { "requote:reference-output-empty" });
            for sp in &sps[1..] {
                let q2 = tpl.replace('§', sp);
                ctx.count(&format!("requote:{}", pos));
                pair(ctx, rep, "requote", &q1, &q2, &input, "");
            }
        }
    }
}

pub fn check(ctx: &mut Ctx) {
    let mut rep = Rep::new("C20");
    if let Some(path) = ctx.replay.clone() {
        if let Ok(text) = std::fs::read_to_string(&path) {
            if let Ok(j) = serde_json::from_str::<serde_json::Value>(&text) {
                let i = &j["case"]["info"];
                if let (Some(a), Some(b)) = (i["query_hex"].as_str(), i["query2_hex"].as_str()) {
                    let q1 = String::from_utf8_lossy(&enc::unhex(a)).into_owned();
                    let q2 = String::from_utf8_lossy(&enc::unhex(b)).into_owned();
                    pair(ctx, &mut rep, "replay", &q1, &q2, c04::PROBE.as_bytes(), j["case"]["info"]["class"].as_str().unwrap_or(""));
                } else if let (Some(a), Some(b)) = (i["query"].as_str(), i["query2"].as_str()) {
                    pair(ctx, &mut rep, "replay", a, b, c04::PROBE.as_bytes(), j["case"]["info"]["class"].as_str().unwrap_or(""));
                }
            }
        }
        return;
    }
    for (i, (a, b, class)) in PAIRS.iter().enumerate() {
        if i % ctx.nshards == ctx.shard {
            pair(ctx, &mut rep, "fixed-pair", a, b, c04::PROBE.as_bytes(), class);
        }
    }
    // default column names, exhaustively over the percentile family: an explicit `as` equal to the
    // default name changes nothing, and a later stage can refer to the default name
    for nn in 1u32..=99 {
        if nn as usize % ctx.nshards != ctx.shard {
            continue;
        }
        let sp = ["p", "pct", "percentile"][nn as usize % 3];
        let a = format!("* | json | p{}(n) by k", nn);
        let b = format!("* | json | {}{}(n) as p{} by k", sp, nn, nn);
        pair(ctx, &mut rep, "default-name", &a, &b, c04::PROBE.as_bytes(), "");
        let a = format!("* | json | {}{}(n), count by k | sort by p{} | p{} as v | fields v, _count", sp, nn, nn, nn);
        let b = format!("* | json | p{}(n) as p{}, count as _count by k | sort by p{} | p{} as v | fields v, _count", nn, nn, nn, nn);
        pair(ctx, &mut rep, "default-name", &a, &b, c04::PROBE.as_bytes(), "");
    }
    requote_checks(ctx, &mut rep);
    if ctx.shard == 0 {
        alias_checks(ctx, &mut rep);
    }
    if ctx.shard == 1 % ctx.nshards {
        cli_checks(ctx, &mut rep);
    }
    let n = ctx.budget(3000, 150000);
    for _ in 0..n {
        let mut r = ctx.rng.fork();
        let q = gquery(&mut r);
        // first spelling: hazard-free; second: hazard-free or with exactly one hazard kind enabled
        let mut s1 = Sp { r: r.fork(), hz: 0 };
        let hz = if r.chance(55) { 0 } else { 1 + r.below(6) as u8 };
        let mut s2 = Sp { r: r.fork(), hz };
        let q1 = squery(&mut s1, &q);
        let q2 = squery(&mut s2, &q);
        if q1.len() > 400 || q2.len() > 400 {
            continue;
        }
        ctx.count(&format!("hazard:{}", if hz == 0 { "none" } else { HZ_CLASS[hz as usize] }));
        pair(ctx, &mut rep, if hz == 0 { "generated" } else { "generated-hazard" }, &q1, &q2, c04::PROBE.as_bytes(), HZ_CLASS[hz as usize]);
    }
}
