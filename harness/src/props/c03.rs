//! C03: stages apply strictly in the order written.
//! P-level (implementation against itself, no model involved): the output of `s1 | … | sn` must be
//! what stage `sn` produces when it is given the complete output of `s1 | … | s(n-1)` as its input.
//! F-level: the full pipeline against the Lean model (whose plan order is the theorem C03_plan_order).
use super::common::*;
use crate::canon::{self, J};
use crate::gen;
use crate::imp;
use crate::rng::Rng;
use crate::Ctx;

#[derive(Clone, PartialEq)]
enum Kind {
    Row,     // stateless row operator
    Limit,   // order/position sensitive
    Total,   // order sensitive
    Agg,
    Sort,
}

fn stage(r: &mut Rng, after_table: bool) -> (String, Kind) {
    match r.below(14) {
        12 => ((*r.pick(&["parse \"* user=* took *ms status=*\" from msg as verb, user, ms, status", "parse \"took *ms\" from msg as took nodrop", "parse \"*\" from k as kk"])).to_string(), Kind::Row),
        // (not: `parse "*" from s as n` — s can be "NaN"/"inf", which become non-finite doubles that
        // -o json prints as null: an intermediate table cannot be re-fed faithfully)
        13 => ((*r.pick(&["split(s) on \",\" as parts", "split(msg) on \" \" as words", "concat(k, \"-\", n) as kn", "length(s) as ls", "isNull(x) as nox"])).to_string(), Kind::Row),
        0 | 1 => (format!("where {}", gen::bool_expr(r, 1)), Kind::Row),
        2 => (format!("{} as {}", gen::num_expr(r, 1), r.pick(&["r", "v", "y"])), Kind::Row),
        3 => (format!("fields {} {}", r.pick(&["", "-", "only", "except"]), r.pick(&["k", "n,x", "k, n, s", "_count"])), Kind::Row),
        4 | 5 => (format!("limit {}", if r.chance(60) { r.range(1, 5) } else { -r.range(1, 5) }), Kind::Limit),
        6 => (format!("total({}) as t", r.pick(&["n", "x", "_count", "_sum"])), Kind::Total),
        7 | 8 => (gen::agg_stage(r), Kind::Agg),
        9 | 10 => (gen::sort_stage(r, if after_table { &["k", "_count", "_sum", "n", "c1", "v", "t"] } else { &["n", "x", "k", "s"] }), Kind::Sort),
        _ => (format!("where {}", gen::bool_expr(r, 1)), Kind::Row),
    }
}

/// rows of an output, each as a key-sorted object with null members removed (a table prints absent
/// cells as null; a re-read null is a present None: both are "no value" for this comparison)
fn rows_of(stdout: &[u8], table: bool, strip_nulls: bool) -> Option<Vec<J>> {
    let text = String::from_utf8_lossy(stdout);
    let strip = |j: &J| -> J {
        match canon::normalize(j) {
            J::Obj(kvs) => J::Obj(kvs.into_iter().filter(|kv| !strip_nulls || kv.1 != J::Null).collect()),
            o => o,
        }
    };
    if table {
        match canon::parse(text.trim_end()).ok()? {
            J::Arr(rows) => Some(rows.iter().map(strip).collect()),
            _ => None,
        }
    } else {
        let mut v = vec![];
        for l in text.lines().filter(|l| !l.is_empty()) {
            v.push(strip(&canon::parse(l).ok()?));
        }
        Some(v)
    }
}

fn to_lines(rows: &[J]) -> Vec<u8> {
    let mut out = vec![];
    for r in rows {
        out.extend(to_json(r).into_bytes());
        out.push(b'\n');
    }
    out
}

pub fn to_json(j: &J) -> String {
    match j {
        J::Null => "null".into(),
        J::Bool(b) => format!("{}", b),
        J::Int(i) => format!("{}", i),
        J::Float(f) => {
            let s = format!("{:?}", f);
            s
        }
        J::Str(s) => serde_json::to_string(s).unwrap(),
        J::Arr(v) => format!("[{}]", v.iter().map(to_json).collect::<Vec<_>>().join(",")),
        J::Obj(kvs) => format!(
            "{{{}}}",
            kvs.iter().map(|(k, v)| format!("{}:{}", serde_json::to_string(k).unwrap(), to_json(v))).collect::<Vec<_>>().join(",")
        ),
    }
}

fn has_float(j: &J) -> bool {
    match j {
        // a float that prints as an integer-valued literal (2.0) is re-read as an Int: not a faithful
        // round trip; also keep away from long mantissas where serde_json's parser may round differently
        J::Float(f) => f.fract() == 0.0 || format!("{:?}", f).len() > 16,
        J::Arr(v) => v.iter().any(has_float),
        J::Obj(kvs) => kvs.iter().any(|kv| has_float(&kv.1)),
        _ => false,
    }
}

/// a built-in alias that ends in an aggregation (`testmultioperator` = `json | count`) is one more
/// way of writing stages: whatever is written after it acts on the aggregation's table, exactly
/// as after the written-out operators
fn check_alias_then_stage(ctx: &mut Ctx) {
    let n = ctx.budget(60, 1500);
    for _ in 0..n {
        let mut r = ctx.rng.fork();
        let rows = 1 + r.below(9);
        let input = gen::json_input(&mut r, rows, &gen::DocCfg { key_domain: 3, numeric_only: false }, 3);
        let mut tail: Vec<String> = vec![];
        for _ in 0..(1 + r.below(3)) {
            tail.push(match r.below(9) {
                0 => format!("limit {}", 1 + r.below(3)),
                1 => format!("limit -{}", 1 + r.below(3)),
                2 => format!("where _count > {}", r.below(rows + 1)),
                3 => "_count * 2 as twice".to_string(),
                4 => "total(_count) as t".to_string(),
                5 => (*r.pick(&["fields _count", "fields except nosuch", "fields - twice"])).to_string(),
                6 => "sort by _count".to_string(),
                7 => "count by _count".to_string(),
                _ => "where _count >= 0 | count".to_string(),
            });
        }
        let t = tail.join(" | ");
        let filter = *r.pick(&["*", "*", "a", "NOT err"]);
        let q1 = format!("{} | testmultioperator | {}", filter, t);
        let q2 = format!("{} | json | count | {}", filter, t);
        let key = ckey(&q1, &input);
        let info = serde_json::json!({"query": q1, "written_out": q2, "input": String::from_utf8_lossy(&input)});
        let (a, b) = (imp::run(&q1, &input, "json", 10), imp::run(&q2, &input, "json", 10));
        if !b.compiled || b.panicked.is_some() || b.hung || a.hung {
            ctx.case("alias-then-stage", "", "skip", serde_json::json!({"why": "the written-out query is rejected or crashes (judged elsewhere)", "case": info}));
            continue;
        }
        if a.compiled && a.panicked.is_none() && a.stdout == b.stdout && a.error_lines == b.error_lines {
            ctx.case("alias-then-stage", &key, "pass", info);
        } else {
            ctx.case("alias-then-stage", &key, "viol", serde_json::json!({"class": "", "what": "stages written after an aggregating alias do not act on its table: the query differs from the same stages written out",
                "alias_out": String::from_utf8_lossy(&a.stdout), "written_out": String::from_utf8_lossy(&b.stdout), "alias_errors": a.error_lines, "written_errors": b.error_lines, "case": info}));
        }
    }
}

pub fn check(ctx: &mut Ctx) {
    check_alias_then_stage(ctx);
    // limit after a sort sees the sorted order — with the cut inside a group of tied keys
    super::c09::check_sort_then_limit(ctx, "sort-then-limit");
    check_live_reapplication(ctx);
    let n = ctx.budget(2000, 80000);
    for _ in 0..n {
        let mut r = ctx.rng.fork();
        let nst = 2 + r.below(4);
        let mut stages: Vec<(String, Kind)> = vec![];
        let mut after_table = false;
        let mut ordered = true; // is the current row order determined (stream order or a sort)?
        for _ in 0..nst {
            let mut s = stage(&mut r, after_table);
            // an order-sensitive stage directly on a hash-ordered table has no determined result
            // (C13); keep those out of this check
            for _ in 0..20 {
                if (s.1 == Kind::Limit || s.1 == Kind::Total) && !ordered && !(s.1 == Kind::Limit && stages.last().map(|x| x.1 == Kind::Agg).unwrap_or(false)) {
                    s = stage(&mut r, after_table);
                } else {
                    break;
                }
            }
            if (s.1 == Kind::Limit || s.1 == Kind::Total) && !ordered && !(s.1 == Kind::Limit && stages.last().map(|x| x.1 == Kind::Agg).unwrap_or(false)) {
                continue;
            }
            match s.1 {
                Kind::Agg => {
                    after_table = true;
                    ordered = false;
                }
                Kind::Sort => {
                    after_table = true;
                    ordered = true;
                }
                Kind::Limit => {
                    if stages.last().map(|x| x.1 == Kind::Agg).unwrap_or(false) {
                        ordered = true; // implicit sort
                    }
                }
                _ => {}
            }
            stages.push(s);
        }
        // one case in eight has the shape `agg | limit N | … | sort`: the limit must cut the table
        // in its implicit order whatever comes later (an explicit sort further down does not
        // replace the implicit one in front of the limit)
        if r.chance(12) {
            let of_kind = |r: &mut Rng, k: Kind, after_table: bool| -> (String, Kind) {
                for _ in 0..200 {
                    let s = stage(r, after_table);
                    if s.1 == k {
                        return s;
                    }
                }
                stage(r, after_table)
            };
            let mut t: Vec<(String, Kind)> = vec![];
            if r.chance(40) {
                t.push(of_kind(&mut r, Kind::Row, false));
            }
            t.push(of_kind(&mut r, Kind::Agg, false));
            t.push((format!("limit {}", if r.chance(70) { r.range(1, 4) } else { -r.range(1, 4) }), Kind::Limit));
            if r.chance(40) {
                t.push((r.pick(&["where 1 == 1", "fields except nosuch", "total(_count) as t"]).to_string(), if r.chance(50) { Kind::Row } else { Kind::Row }));
            }
            t.push(of_kind(&mut r, Kind::Sort, true));
            stages = t;
        }
        if stages.len() < 2 {
            continue;
        }
        let full = format!("* | json | {}", stages.iter().map(|s| s.0.clone()).collect::<Vec<_>>().join(" | "));
        let prefix = format!("* | json | {}", stages[..stages.len() - 1].iter().map(|s| s.0.clone()).collect::<Vec<_>>().join(" | "));
        let last = stages.last().unwrap().clone();
        let rows = 1 + r.below(14);
        let input = if r.chance(50) {
            gen::dense_input(&mut r, rows)
        } else {
            gen::json_input(&mut r, rows, &gen::DocCfg { key_domain: 3, numeric_only: false }, 5)
        };
        // a third of the inputs carry no JSON null: then a null cell of a table built by a sort
        // over raw rows can only be an ABSENT cell, and the stage-by-stage oracle below stays sound
        // on heterogeneous rows (see the null rule there)
        let input = if r.chance(35) { String::from_utf8_lossy(&input).replace("null", "7").into_bytes() } else { input };
        let null_free_input = !String::from_utf8_lossy(&input).contains("null");
        let key = ckey(&full, &input);
        let info = serde_json::json!({"query": full, "input": String::from_utf8_lossy(&input)});

        // ---- F-level
        let c = run_both(ctx, &full, &input);
        let order_matters = matches!(last.1, Kind::Sort | Kind::Limit) || stages.iter().all(|s| s.1 != Kind::Agg);
        match compare(&c, order_matters) {
            F::Agree => ctx.case("model", &key, "pass", info.clone()),
            F::Skip(w) => ctx.case("model", "", "skip", serde_json::json!({"why": w.split(':').next().unwrap_or("").to_string()})),
            F::Disagree(d) => ctx.case("model", &key, "fdis", serde_json::json!({"what": d, "case": info})),
        }

        // ---- P-level: stage-by-stage on the implementation itself
        if !c.imp.compiled || c.imp.panicked.is_some() || c.imp.hung {
            continue;
        }
        let pfx = imp::run(&prefix, &input, "json", 10);
        if !pfx.compiled || pfx.panicked.is_some() {
            continue;
        }
        let pfx_table = stages[..stages.len() - 1].iter().any(|s| matches!(s.1, Kind::Agg | Kind::Sort));
        let full_table = pfx_table || matches!(last.1, Kind::Agg | Kind::Sort);
        if c.model.starts_with("SKIP") {
            // e.g. a sort whose key is missing on some row has no determined order (C09's concern)
            ctx.case("stagewise", "", "skip", serde_json::json!({"why": "result not determined (model marks the case unmodelled)"}));
            continue;
        }
        let (mut mid, got) = match (rows_of(&pfx.stdout, pfx_table, false), rows_of(&c.imp.stdout, full_table, true)) {
            (Some(a), Some(b)) => (a, b),
            _ => continue,
        };
        // values that do not survive a JSON round trip (floats that print as integers, computed
        // strings that look like numbers) would make this oracle unsound: keep to int/string/bool data
        let has_null = |j: &J| matches!(j, J::Obj(kvs) if kvs.iter().any(|kv| kv.1 == J::Null));
        if pfx_table && mid.iter().any(has_null) {
            let prefix_makes_none = stages[..stages.len() - 1].iter().any(|s| s.1 == Kind::Agg || s.0.contains("null") || s.0.contains("if("));
            if null_free_input && !prefix_makes_none {
                // no None value can exist: every null cell is an absent cell → re-feed without it
                mid = rows_of(&pfx.stdout, pfx_table, true).unwrap_or_default();
                ctx.count("stagewise:heterogeneous-table-refed");
            } else {
                // a printed table cannot tell an absent cell from a None cell: the re-read would differ
                ctx.case("stagewise", "", "skip", serde_json::json!({"why": "null cell in an intermediate table (absent vs None not recoverable from JSON)"}));
                continue;
            }
        }
        if mid.iter().any(has_float) || got.iter().any(has_float) {
            ctx.case("stagewise", "", "skip", serde_json::json!({"why": "integral or long floats in intermediate rows (JSON round trip not exact)"}));
            continue;
        }
        // the prefix, when it ends in an aggregation, gets an implicit sort that the full pipeline
        // does not have: its row ORDER is then not the order stage n saw; compare as multisets unless
        // the last stage fixes the order itself
        let step_q = format!("* | json | {}", last.0);
        let step = imp::run(&step_q, &to_lines(&mid), "json", 10);
        if !step.compiled || step.panicked.is_some() {
            continue;
        }
        let step_table = matches!(last.1, Kind::Agg | Kind::Sort);
        let mut want = match rows_of(&step.stdout, step_table, true) {
            Some(x) => x,
            None => continue,
        };
        let mut got2 = got.clone();
        let pfx_ends_agg = stages[stages.len() - 2].1 == Kind::Agg;
        let order_fixed = match last.1 {
            // ties of a sort are broken by the column list, which a re-read table does not keep:
            // the order produced by a final sort is judged by C09, here only the rows
            Kind::Sort => false,
            Kind::Limit | Kind::Total => !pfx_ends_agg || last.1 == Kind::Limit,
            Kind::Agg => false,
            Kind::Row => !pfx_ends_agg && stages[..stages.len() - 1].iter().all(|s| s.1 != Kind::Agg || true) && ordered_before_last(&stages),
        };
        if !order_fixed {
            want.sort_by(|a, b| to_json(a).cmp(&to_json(b)));
            got2.sort_by(|a, b| to_json(a).cmp(&to_json(b)));
        }
        if last.1 == Kind::Total && pfx_ends_agg {
            // `agg | total`: no sort in the full pipeline → hash order; excluded above, defensive
            continue;
        }
        if want != got2 {
            ctx.case(
                "stagewise",
                &key,
                "viol",
                serde_json::json!({"class": "", "what": "output of s1|…|sn differs from sn applied to the complete output of s1|…|s(n-1)",
                    "last_stage": last.0, "prefix": prefix, "prefix_rows": mid.iter().map(to_json).collect::<Vec<_>>(),
                    "expected": want.iter().map(to_json).collect::<Vec<_>>(), "got": got2.iter().map(to_json).collect::<Vec<_>>(), "case": info}),
            );
        } else {
            ctx.case("stagewise", &key, "pass", info);
        }
    }
}

/// On a terminal the stages after the first aggregation are applied again for every frame, to the
/// table as it stands: each application must be to the COMPLETE CURRENT output of the stages before
/// (no state of an earlier frame may survive). Checked on the last frame: it must be what a
/// non-terminal run (one application, at end of input) prints.
fn check_live_reapplication(ctx: &mut Ctx) {
    let n = ctx.budget(160, 4000);
    for _ in 0..n {
        let mut r = ctx.rng.fork();
        // tables that shrink, empty out or change keys while input streams in
        let q = (*r.pick(&[
            "* | json | count by k | where _count < 2 | count",
            "* | json | count by k | where _count < 3 | sum(_count) as s",
            "* | json | sort by n | limit -1 | where n < 5 | sum(n) as s",
            "* | json | count as c by k | count as groups by c",
            "* | json | count by k | where _count < 2",
            "* | json | count by k | where _count < 2 | total(_count) as t",
            "* | json | sum(n) as s by k | where s < 6 | count, max(s)",
            "* | json | count by k | limit 2 | count",
            "* | json | count by k, n | where _count > 1 | count by k",
            "* | json | sort by n desc | limit 3 | count by k | sort by k",
            "* | json | count by k | sort by k | limit -2 | where _count < 3 | count",
        ]))
        .to_string();
        let nrows = 3 + r.below(14);
        let input = agg_docs(&mut r, nrows);
        let key = ckey(&q, &input);
        let info = serde_json::json!({"query": q, "input": String::from_utf8_lossy(&input)});
        let plain = super::c16::run_pipeline(&q, &input, None, false, 1, 100, vec![]);
        let live = super::c16::run_pipeline(&q, &input, Some((60, 200)), true, r.next(), *r.pick(&[100usize, 100, 50]), vec![]);
        if !plain.compiled || !live.compiled || plain.panicked.is_some() || live.panicked.is_some() || plain.hung || live.hung {
            ctx.case("live-reapplication", &key, "viol", serde_json::json!({"class": "", "what": "run did not complete", "panic": live.panicked.or(plain.panicked), "case": info}));
            continue;
        }
        let frames = super::c16::split_frames(&String::from_utf8_lossy(&live.bytes));
        let last = frames.last().cloned().unwrap_or_default();
        let plain_text = String::from_utf8_lossy(&plain.bytes).to_string();
        match super::c16::frame_vs_plain(&last, &plain_text, 200, 60, true) {
            None => ctx.case("live-reapplication", &key, "pass", serde_json::json!({"query": q, "frames": frames.len()})),
            Some(why) => ctx.case("live-reapplication", &key, "viol", serde_json::json!({"class": "", "what": format!("after {} frames the last frame is not the pipeline applied to the complete input: {}", frames.len(), why), "last_frame": last, "non_terminal_output": plain_text, "case": info})),
        }
    }
}

fn ordered_before_last(stages: &[(String, Kind)]) -> bool {
    // is the row order reaching the last stage determined?  (stream order, or fixed by a sort /
    // implicit sort and not disturbed since)
    let mut ordered = true;
    for (i, s) in stages[..stages.len() - 1].iter().enumerate() {
        match s.1 {
            Kind::Agg => ordered = false,
            Kind::Sort => ordered = true,
            Kind::Limit => {
                if i > 0 && stages[i - 1].1 == Kind::Agg {
                    ordered = true
                }
            }
            _ => {}
        }
    }
    ordered
}
