//! Generic end-to-end differential (development aid and shared F-level core).
use super::common::*;
use crate::gen;
use crate::Ctx;

pub fn generic(ctx: &mut Ctx) {
    let n = ctx.budget(2000, 40000);
    for i in 0..n {
        let mut r = ctx.rng.fork();
        let cfg = gen::QueryCfg { allow_agg: true, allow_sort: true, max_stages: 4 };
        let q = gen::json_pipeline(&mut r, &cfg);
        let rows = r.below(12);
        let input = gen::json_input(&mut r, rows, &gen::DocCfg { key_domain: 3, numeric_only: false }, 8);
        let c = run_both(ctx, &q, &input);
        let info = case_info(&q, &input);
        match compare(&c, false) {
            F::Agree => ctx.case("run", &format!("{}", i), "pass", info),
            F::Skip(w) => ctx.case("run", "", "skip", serde_json::json!({"why": w.split(':').next().unwrap_or("").to_string(), "case": info})),
            F::Disagree(d) => ctx.case("run", &format!("{}", i), "fdis", serde_json::json!({"what": d, "case": info})),
        }
    }
}
