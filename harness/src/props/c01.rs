//! C01: grouped aggregation reports the true per-group statistics.
//! P-level: an independent reference aggregation computed in the harness from the input documents.
//! F-level: implementation = Lean model on -o json.
use super::common::*;
use crate::canon::{self, J};
use crate::gen;
use crate::rng::Rng;
use crate::Ctx;
use std::collections::BTreeMap;

/// documents for this check: numeric arguments are JSON numbers (or null / bool / words / missing),
/// never digit-bearing strings — string→number coercion is C08's subject
pub fn doc(r: &mut Rng, obj_keys: bool) -> String {
    let mut m: Vec<String> = vec![];
    if r.chance(90) {
        let v = match r.below(10) {
            0 => format!("{}", r.range(0, 2)),
            1 => "null".into(),
            2 if obj_keys => "{\"p\":1,\"q\":2,\"r\":3}".into(),
            _ => format!("\"{}\"", r.pick(&["a", "b", "c"])),
        };
        m.push(format!("\"k\":{}", v));
    }
    if r.chance(85) {
        m.push(format!("\"n\":{}", r.range(-20, 60)));
    }
    if r.chance(85) {
        let v = match r.below(8) {
            0 => "null".to_string(),
            1 => "\"word\"".to_string(),
            2 => "true".to_string(),
            3 => "[1,2]".to_string(),
            4 | 5 => format!("{}", r.range(-100, 100)),
            _ => format!("{}.{}", r.range(-100, 100), r.range(1, 99)),
        };
        m.push(format!("\"x\":{}", v));
    }
    if r.chance(70) {
        m.push(format!("\"s\":\"{}\"", r.pick(&["alpha", "beta", "GET", "err", "", "héllo"])));
    }
    if r.chance(50) {
        m.push(format!("\"b\":{}", r.pick(&["true", "false", "null"])));
    }
    if r.chance(50) {
        m.push(format!("\"o\":{{\"p\":{}}}", r.range(0, 3)));
    }
    if r.chance(60) {
        // values of different types whose TEXT coincides (200 / "200", true / "true", null / "None")
        m.push(format!("\"t\":{}", r.pick(&["200", "\"200\"", "1.5", "\"1.5\"", "true", "\"true\"", "null", "\"None\"", "\"null\"", "0", "\"0\"", "false", "\"\"", "[1]", "\"[1]\""])));
    }
    format!("{{{}}}", m.join(","))
}

fn get_path<'a>(d: &'a J, path: &str) -> Option<&'a J> {
    let mut cur = d;
    for part in path.split('.') {
        match cur {
            J::Obj(kvs) => cur = &kvs.iter().rev().find(|kv| kv.0 == part)?.1, // last duplicate wins
            _ => return None,
        }
    }
    Some(cur)
}

fn num(j: Option<&J>) -> Option<f64> {
    match j {
        Some(J::Int(i)) => Some(*i as f64),
        Some(J::Float(f)) => Some(*f),
        _ => None,
    }
}

#[derive(Clone)]
enum Fun {
    Count,
    CountGt(String, i64),
    Sum(String),
    Min(String),
    Max(String),
    Avg(String),
    Distinct(String),
    Pct(u32, String),
}

fn fun_text(f: &Fun) -> String {
    match f {
        Fun::Count => "count".into(),
        Fun::CountGt(c, k) => format!("count({} > {})", c, k),
        Fun::Sum(c) => format!("sum({})", c),
        Fun::Min(c) => format!("min({})", c),
        Fun::Max(c) => format!("max({})", c),
        Fun::Avg(c) => format!("avg({})", c),
        Fun::Distinct(c) => format!("count_distinct({})", c),
        Fun::Pct(p, c) => format!("p{}({})", p, c),
    }
}

fn close(a: f64, b: f64) -> bool {
    a == b || (a - b).abs() <= 1e-9 * (a.abs().max(b.abs()).max(1.0))
}

fn as_f64(j: &J) -> Option<f64> {
    match j {
        J::Int(i) => Some(*i as f64),
        J::Float(f) => Some(*f),
        _ => None,
    }
}

pub fn check(ctx: &mut Ctx) {
    let n = ctx.budget(1500, 60000);
    for _ in 0..n {
        let mut r = ctx.rng.fork();
        let obj_keys = r.chance(6);
        let nrows = if ctx.thorough() && r.chance(2) { 600 + r.below(3000) } else { r.below(40) };
        let docs: Vec<String> = (0..nrows).map(|_| doc(&mut r, obj_keys)).collect();
        let mut input = vec![];
        for d in &docs {
            input.extend(d.as_bytes());
            input.push(b'\n');
        }
        // stage
        let nk = r.below(3);
        let mut keys: Vec<String> = vec![];
        for _ in 0..nk {
            let k = r.pick(&["k", "b", "s", "o.p", "n", "missing", "t"]).to_string();
            if !keys.contains(&k) {
                keys.push(k)
            }
        }
        let nf = 1 + r.below(4);
        let mut funs: Vec<(String, Fun)> = vec![("c_all".into(), Fun::Count)];
        for i in 0..nf {
            let col = r.pick(&["n", "x", "o.p", "missing"]).to_string();
            let f = match r.below(9) {
                0 => Fun::Count,
                1 => Fun::CountGt(r.pick(&["n", "x"]).to_string(), r.range(0, 30)),
                2 => Fun::Sum(col),
                3 => Fun::Min(col),
                4 => Fun::Max(col),
                5 => Fun::Avg(col),
                6 => Fun::Distinct(r.pick(&["k", "s", "n", "b", "x", "t", "t"]).to_string()),
                7 => Fun::Pct(*r.pick(&[50u32, 90, 99, 10, 75]), col),
                _ => Fun::Sum(r.pick(&["n", "o.p"]).to_string()),
            };
            funs.push((format!("f{}", i), f));
        }
        let stage = format!(
            "{}{}",
            funs.iter().map(|(n, f)| format!("{} as {}", fun_text(f), n)).collect::<Vec<_>>().join(", "),
            if keys.is_empty() { String::new() } else { format!(" by {}", keys.join(", ")) }
        );
        let q = format!("* | json | {}", stage);
        let key = ckey(&q, &input);
        let info = serde_json::json!({"query": q, "input": String::from_utf8_lossy(&input)});
        let c = run_both(ctx, &q, &input);
        if !c.imp.compiled || c.imp.panicked.is_some() || c.imp.hung {
            ctx.case("agg", &key, "viol", serde_json::json!({"class": "", "what": "aggregation stage did not run", "panic": c.imp.panicked, "compile_err": c.imp.compile_err, "case": info}));
            continue;
        }
        // ---- reference
        let parsed: Vec<J> = docs.iter().filter_map(|d| canon::parse(d).ok()).collect();
        let mut groups: BTreeMap<String, (Vec<J>, Vec<&J>)> = BTreeMap::new();
        for d in &parsed {
            let kv: Vec<J> = keys.iter().map(|k| canon::normalize(get_path(d, k).unwrap_or(&J::Null))).collect();
            let ks = format!("{:?}", kv);
            groups.entry(ks).or_insert_with(|| (kv.clone(), vec![])).1.push(d);
        }
        // ---- implementation rows
        let text = String::from_utf8_lossy(&c.imp.stdout).to_string();
        let rows = match canon::parse(text.trim_end()) {
            Ok(J::Arr(rows)) => rows,
            _ => {
                ctx.case("agg", &key, "viol", serde_json::json!({"class": "", "what": "output is not a JSON array", "case": info}));
                continue;
            }
        };
        let mut problem: Option<String> = None;
        // object-valued `k` used as a group key or as a count_distinct argument: both go through
        // im::HashMap's Hash, which depends on each map's private iteration order
        let has_obj_key = parsed.iter().any(|d| matches!(get_path(d, "k"), Some(J::Obj(_))))
            && (keys.contains(&"k".to_string()) || funs.iter().any(|f| matches!(&f.1, Fun::Distinct(c) if c == "k")));
        let mut seen: BTreeMap<String, usize> = BTreeMap::new();
        let mut total_count = 0i64;
        for row in &rows {
            let kvs = match row {
                J::Obj(kvs) => kvs,
                _ => {
                    problem = Some("row is not an object".into());
                    break;
                }
            };
            let cell = |name: &str| kvs.iter().find(|kv| kv.0 == name).map(|kv| &kv.1);
            let kv: Vec<J> = keys.iter().map(|k| canon::normalize(cell(k).unwrap_or(&J::Null))).collect();
            let ks = format!("{:?}", kv);
            *seen.entry(ks.clone()).or_insert(0) += 1;
            let g = match groups.get(&ks) {
                Some(g) => g,
                None => {
                    problem = Some(format!("output has a group {} that no input row has", ks));
                    break;
                }
            };
            for (name, f) in &funs {
                let got = cell(name).cloned().unwrap_or(J::Null);
                let members = &g.1;
                let bad = match f {
                    Fun::Count => got != J::Int(members.len() as i64),
                    Fun::CountGt(c, k) => {
                        // `v > k` under the documented value order: None < bool < numbers < strings < … ;
                        // a missing field is an evaluation error (row not counted)
                        let want = members
                            .iter()
                            .filter(|d| match get_path(d, c) {
                                None => false,
                                Some(J::Null) | Some(J::Bool(_)) => false,
                                Some(J::Int(i)) => (*i as f64) > *k as f64,
                                Some(J::Float(f)) => *f > *k as f64,
                                Some(_) => true,
                            })
                            .count();
                        got != J::Int(want as i64)
                    }
                    Fun::Sum(c) => {
                        let want: f64 = members.iter().filter_map(|d| num(get_path(d, c))).sum();
                        !as_f64(&got).map(|g| close(g, want)).unwrap_or(false)
                    }
                    Fun::Min(c) | Fun::Max(c) => {
                        let vals: Vec<f64> = members.iter().filter_map(|d| num(get_path(d, c))).collect();
                        if vals.is_empty() {
                            got != J::Null
                        } else {
                            let want = if matches!(f, Fun::Min(_)) { vals.iter().cloned().fold(f64::INFINITY, f64::min) } else { vals.iter().cloned().fold(f64::NEG_INFINITY, f64::max) };
                            as_f64(&got) != Some(want)
                        }
                    }
                    Fun::Avg(c) => {
                        let vals: Vec<f64> = members.iter().filter_map(|d| num(get_path(d, c))).collect();
                        if vals.is_empty() {
                            false // NaN → null: not judged (property does not state it)
                        } else {
                            let want = vals.iter().sum::<f64>() / vals.len() as f64;
                            !as_f64(&got).map(|g| close(g, want)).unwrap_or(false)
                        }
                    }
                    Fun::Distinct(c) => {
                        let mut set: Vec<String> = members.iter().filter_map(|d| get_path(d, c)).map(|v| format!("{:?}", canon::normalize(v))).collect();
                        set.sort();
                        set.dedup();
                        got != J::Int(set.len() as i64)
                    }
                    Fun::Pct(p, c) => {
                        let mut vals: Vec<f64> = members.iter().filter_map(|d| num(get_path(d, c))).collect();
                        if vals.is_empty() {
                            got != J::Null
                        } else {
                            vals.sort_by(|a, b| a.partial_cmp(b).unwrap());
                            match as_f64(&got) {
                                None => true,
                                Some(v) => {
                                    // one of the observed values, within the sketch's rank tolerance
                                    let nn = vals.len() as f64;
                                    let target = (*p as f64 / 100.0) * nn;
                                    let lo = vals.iter().position(|x| *x == v);
                                    let hi = vals.iter().rposition(|x| *x == v);
                                    match (lo, hi) {
                                        (Some(lo), Some(hi)) => {
                                            let tol = 0.001 * nn + 1.5;
                                            !((lo as f64 + 1.0) - tol <= target && target <= (hi as f64 + 1.0) + tol)
                                        }
                                        _ => true,
                                    }
                                }
                            }
                        }
                    }
                };
                if bad {
                    problem = Some(format!("group {} column {} = {}: value {:?} is not that function of the group's {} rows", ks, name, fun_text(f), got, members.len()));
                }
            }
            if let Some(J::Int(c)) = cell("c_all") {
                total_count += c;
            }
        }
        if problem.is_none() {
            if seen.values().any(|c| *c > 1) {
                problem = Some("a key combination appears in more than one row".into());
            } else if seen.len() != groups.len() {
                problem = Some(format!("{} groups in the output, {} distinct key combinations in the input", seen.len(), groups.len()));
            } else if total_count != parsed.len() as i64 {
                problem = Some(format!("counts add up to {} but {} rows reached the stage", total_count, parsed.len()));
            }
        }
        match problem {
            Some(w) => {
                let class = if has_obj_key { "C01/object-valued-key-splits-groups" } else { "" };
                ctx.case("agg", &key, "viol", serde_json::json!({"class": class, "what": w, "got": text, "case": info}));
                continue;
            }
            None => ctx.case("agg", &key, "pass", info.clone()),
        }
        // ---- F-level (row order of the final table is fixed by the implicit sort)
        if has_obj_key {
            continue;
        }
        match compare(&c, true) {
            F::Agree => ctx.case("model", &key, "pass", info),
            F::Skip(w) => ctx.case("model", "", "skip", serde_json::json!({"why": w.split(':').next().unwrap_or("").to_string()})),
            F::Disagree(d) => ctx.case("model", &key, "fdis", serde_json::json!({"what": d, "case": info})),
        }
    }
    // ---- arguments of every non-numeric type (dates, durations, booleans, arrays, objects), alone
    // or mixed with numbers in one column: the numeric functions ignore them, the rows still count
    let nt = ctx.budget(300, 8000);
    for _ in 0..nt {
        let mut r = ctx.rng.fork();
        let nrows = 1 + r.below(14);
        let thr = r.range(0, 40);
        let mut input = vec![];
        let mut rows: Vec<(String, Option<i64>)> = vec![];
        for _ in 0..nrows {
            let k = r.pick(&["a", "b", "c"]).to_string();
            let n = if r.chance(85) { Some(r.range(-20, 60)) } else { None };
            let ts = format!("20{:02}-0{}-1{}T0{}:{:02}:{:02}Z", r.range(0, 30), 1 + r.below(9), r.below(9), r.below(9), r.below(60), r.below(60));
            let mut m = vec![format!("\"k\":\"{}\"", k), format!("\"ts\":\"{}\"", ts), "\"arr\":[1,2]".to_string(), "\"o\":{\"p\":1}".to_string()];
            if let Some(n) = n {
                m.push(format!("\"n\":{}", n));
            }
            input.extend(format!("{{{}}}\n", m.join(",")).into_bytes());
            rows.push((k, n));
        }
        // (expression, which rows contribute which number)
        let (expr, pick): (String, Box<dyn Fn(Option<i64>) -> Option<i64>>) = match r.below(8) {
            0 => ("parseDate(ts)".into(), Box::new(|_| None)),
            1 => ("parseDate(ts) - parseDate(ts)".into(), Box::new(|_| None)),
            2 => ("n > 3".into(), Box::new(|_| None)),
            3 => ("arr".into(), Box::new(|_| None)),
            4 => ("o".into(), Box::new(|_| None)),
            5 => (format!("if(n > {}, parseDate(ts), n)", thr), Box::new(move |n| n.filter(|v| *v <= thr))),
            6 => (format!("if(n > {}, arr, n)", thr), Box::new(move |n| n.filter(|v| *v <= thr))),
            _ => (format!("if(n <= {}, n, n > 0)", thr), Box::new(move |n| n.filter(|v| *v <= thr))),
        };
        let by = r.chance(60);
        let q = format!("* | json | count as c, sum({e}) as s, min({e}) as lo, max({e}) as hi, avg({e}) as av{}", if by { " by k" } else { "" }, e = expr);
        let key = ckey(&q, &input);
        let info = serde_json::json!({"query": q, "input": String::from_utf8_lossy(&input)});
        let c = run_both(ctx, &q, &input);
        if !c.imp.compiled || c.imp.panicked.is_some() || c.imp.hung {
            ctx.case("typed-args", &key, "viol", serde_json::json!({"class": "", "what": "aggregation stage did not run", "panic": c.imp.panicked, "compile_err": c.imp.compile_err, "case": info}));
            continue;
        }
        let text = String::from_utf8_lossy(&c.imp.stdout).to_string();
        let out = match canon::parse(text.trim_end()) {
            Ok(J::Arr(rows)) => rows,
            _ => vec![],
        };
        let mut problem: Option<String> = None;
        let groups: Vec<Option<&str>> = if by { vec![Some("a"), Some("b"), Some("c")] } else { vec![None] };
        let mut expected_rows = 0;
        for g in groups {
            let members: Vec<&(String, Option<i64>)> = rows.iter().filter(|x| g.map(|g| x.0 == g).unwrap_or(true)).collect();
            if members.is_empty() {
                continue;
            }
            expected_rows += 1;
            let nums: Vec<i64> = members.iter().filter_map(|x| pick(x.1)).collect();
            let row = out.iter().find(|row| match (row, g) {
                (J::Obj(kvs), Some(g)) => kvs.iter().any(|kv| kv.0 == "k" && kv.1 == J::Str(g.to_string())),
                (J::Obj(_), None) => true,
                _ => false,
            });
            let kvs = match row {
                Some(J::Obj(kvs)) => kvs,
                _ => {
                    problem = Some(format!("group {:?} missing", g));
                    break;
                }
            };
            let cell = |name: &str| kvs.iter().find(|kv| kv.0 == name).map(|kv| kv.1.clone()).unwrap_or(J::Null);
            let want_lo = nums.iter().min().map(|v| J::Int(*v)).unwrap_or(J::Null);
            let want_hi = nums.iter().max().map(|v| J::Int(*v)).unwrap_or(J::Null);
            let sum: i64 = nums.iter().sum();
            if cell("c") != J::Int(members.len() as i64) {
                problem = Some(format!("group {:?}: count {:?}, {} rows", g, cell("c"), members.len()));
            } else if as_f64(&cell("s")) != Some(sum as f64) {
                problem = Some(format!("group {:?}: sum {:?}, the numeric values add up to {} (non-numeric arguments are ignored)", g, cell("s"), sum));
            } else if canon::normalize(&cell("lo")) != canon::normalize(&want_lo) || canon::normalize(&cell("hi")) != canon::normalize(&want_hi) {
                problem = Some(format!("group {:?}: min/max {:?}/{:?}, expected {:?}/{:?} (None when the group has no numeric value)", g, cell("lo"), cell("hi"), want_lo, want_hi));
            } else if !nums.is_empty() && !as_f64(&cell("av")).map(|a| close(a, sum as f64 / nums.len() as f64)).unwrap_or(false) {
                problem = Some(format!("group {:?}: average {:?} of {:?}", g, cell("av"), nums));
            }
        }
        if problem.is_none() && out.len() != expected_rows {
            problem = Some(format!("{} rows in the result, {} groups in the input", out.len(), expected_rows));
        }
        match problem {
            Some(w) => {
                ctx.case("typed-args", &key, "viol", serde_json::json!({"class": "", "what": w, "got": text, "case": info}));
                continue;
            }
            None => ctx.case("typed-args", &key, "pass", info.clone()),
        }
        match compare(&c, true) {
            F::Agree => ctx.case("model", &key, "pass", info),
            F::Skip(w) => ctx.case("model", "", "skip", serde_json::json!({"why": w.split(':').next().unwrap_or("").to_string()})),
            F::Disagree(d) => ctx.case("model", &key, "fdis", serde_json::json!({"what": d, "case": info})),
        }
    }
    // ---- percentiles over groups large enough for the sketch to compress (its documented rank
    // tolerance is 0.1 % of the group's rows): values are a permutation of 1..N, so a value's rank is
    // the value itself; a small group rides along and must stay exact
    let np = ctx.budget(16, 400);
    for _ in 0..np {
        let mut r = ctx.rng.fork();
        let n = *r.pick(&[600usize, 1000, 2000, 5000, 10007]);
        let mult = *r.pick(&[1usize, 7919, 3571, 104729]);
        let mut input = String::new();
        for i in 0..n {
            let v = (i * mult) % n + 1; // a permutation when gcd(mult, n) = 1; otherwise values repeat (fine)
            input.push_str(&format!("{{\"k\":\"big\",\"v\":{}}}\n", v));
            if i % (n / 20) == 0 {
                input.push_str(&format!("{{\"k\":\"small\",\"v\":{}}}\n", i / (n / 20) + 1));
            }
        }
        let q = "* | json | count as c, p1(v) as q1, p25(v) as q25, p50(v) as q50, p75(v) as q75, p90(v) as q90, p99(v) as q99 by k";
        let key = format!("pct-large:{}:{}", n, mult);
        let res = crate::imp::run(q, input.as_bytes(), "json", 60);
        let info = serde_json::json!({"query": q, "rows_in_big_group": n, "values": format!("(i*{}) mod {} + 1", mult, n)});
        let rows = match canon::parse(String::from_utf8_lossy(&res.stdout).trim_end()) {
            Ok(J::Arr(rows)) => rows,
            _ => vec![],
        };
        let mut sorted: Vec<f64> = (0..n).map(|i| ((i * mult) % n + 1) as f64).collect();
        sorted.sort_by(|a, b| a.partial_cmp(b).unwrap());
        let mut problem: Option<String> = None;
        let big = rows.iter().find(|row| matches!(row, J::Obj(kvs) if kvs.iter().any(|kv| kv.0 == "k" && kv.1 == J::Str("big".into()))));
        match big {
            Some(J::Obj(kvs)) => {
                for (name, p) in [("q1", 1.0), ("q25", 25.0), ("q50", 50.0), ("q75", 75.0), ("q90", 90.0), ("q99", 99.0)] {
                    let got = kvs.iter().find(|kv| kv.0 == name).and_then(|kv| as_f64(&kv.1));
                    match got {
                        None => problem = Some(format!("{} missing", name)),
                        Some(v) => {
                            let lo = sorted.iter().position(|x| *x == v);
                            let hi = sorted.iter().rposition(|x| *x == v);
                            let target = p / 100.0 * n as f64;
                            // twice the documented tolerance, plus one rank
                            let tol = 0.002 * n as f64 + 1.5;
                            match (lo, hi) {
                                (Some(lo), Some(hi)) if (lo as f64 + 1.0) - tol <= target && target <= (hi as f64 + 1.0) + tol => {}
                                (Some(lo), _) => problem = Some(format!("{} = {} has rank {} of {}, {:.1} ranks from the requested {:.1} (tolerance {:.1})", name, v, lo + 1, n, (lo as f64 + 1.0 - target).abs(), target, tol)),
                                _ => problem = Some(format!("{} = {} is not one of the observed values", name, v)),
                            }
                        }
                    }
                }
                if kvs.iter().find(|kv| kv.0 == "c").map(|kv| kv.1.clone()) != Some(J::Int(n as i64)) {
                    problem = Some("count of the big group is wrong".into());
                }
            }
            _ => problem = Some("group `big` missing".into()),
        }
        match problem {
            Some(w) => ctx.case("pct-large", &key, "viol", serde_json::json!({"class": "", "what": w, "got": String::from_utf8_lossy(&res.stdout).chars().take(600).collect::<String>(), "case": info})),
            None => ctx.case("pct-large", &key, "pass", info),
        }
    }
    // two functions of the same kind in one stage (README uses this): each must have its own column
    if ctx.shard == 0 {
        let input = b"{\"a\":1,\"b\":2}\n{\"a\":1,\"b\":3}\n{\"a\":2,\"b\":2}\n".to_vec();
        let q = "* | json | count(a == 1), count(b == 2)";
        let r = crate::imp::run(q, &input, "json", 10);
        let text = String::from_utf8_lossy(&r.stdout).to_string();
        let ok = match canon::parse(text.trim_end()) {
            Ok(J::Arr(rows)) if rows.len() == 1 => match &rows[0] {
                J::Obj(kvs) => kvs.len() == 2 && kvs.iter().map(|kv| &kv.1).collect::<Vec<_>>() == vec![&J::Int(2), &J::Int(2)] && kvs[0].0 != kvs[1].0,
                _ => false,
            },
            _ => !r.compiled, // rejecting the ambiguous stage at compile time is also fine
        };
        if ok {
            ctx.case("same-default-name", "count,count", "pass", serde_json::json!({"query": q}));
        } else {
            ctx.case("same-default-name", "count,count", "viol", serde_json::json!({"class": "C01/same-default-column-name-collapses", "what": "two aggregate functions with the same default column name share one accumulator/column", "query": q, "got": text}));
        }
        // more shapes of the same hazard: each must be rejected, or give every function its own correct column
        for q in ["* | json | sum(a), sum(b)", "* | json | count, count(b == 2) by a", "* | json | count as a by a", "* | json | min(a) as x, max(b) as x"] {
            let r = crate::imp::run(q, &input, "json", 10);
            let text = String::from_utf8_lossy(&r.stdout).to_string();
            if r.compiled || r.panicked.is_some() {
                ctx.case("same-default-name", q, "viol", serde_json::json!({"class": "C01/same-default-column-name-collapses", "what": "two columns of one aggregation have the same name and the stage was accepted", "query": q, "got": text}));
            } else {
                ctx.case("same-default-name", q, "pass", serde_json::json!({"query": q}));
            }
        }
    }
    // witness replay of the open finding on object-valued keys
    if ctx.shard == 0 {
        let line = "{\"k\":{\"p\":1,\"q\":2,\"r\":3,\"s\":4}}\n";
        let input = line.repeat(12).into_bytes();
        let r = crate::imp::run("* | json | count by k", &input, "json", 10);
        let text = String::from_utf8_lossy(&r.stdout).to_string();
        let groups = match canon::parse(text.trim_end()) {
            Ok(J::Arr(rows)) => rows.len(),
            _ => 0,
        };
        if groups == 1 {
            ctx.case("witness", "object-key", "pass", serde_json::json!({"query": "* | json | count by k", "groups": groups}));
        } else {
            ctx.case("witness", "object-key", "known", serde_json::json!({"class": "C01/object-valued-key-splits-groups", "what": "12 identical rows with an object-valued key", "groups": groups, "got": text}));
        }
    }
    let _ = gen::small_int;
    // ---- chains of aggregation stages (a stage that is not the first aggregation), non-terminal
    let nc = ctx.budget(640, 24000);
    for _ in 0..nc {
        let mut r = ctx.rng.fork();
        chain_plain(ctx, &mut r);
    }
    // ---- the same chains on a live terminal: the chain is re-run on every refresh
    let nl = ctx.budget(96, 640);
    for i in 0..nl {
        let mut r = ctx.rng.fork();
        chain_live(ctx, i, &mut r);
    }
}

/* ---------- aggregation of an aggregation: generated chains and their reference ---------- */

/// a cell of the reference tables: integers, words and None only (no floats: their spelling is not
/// this property's subject)
#[derive(Clone, Debug, PartialEq, Eq, PartialOrd, Ord)]
enum V {
    N,
    I(i64),
    S(String),
}

/// a row; a member that is absent = the field is missing (only possible in the input documents)
type RRow = BTreeMap<String, V>;

#[derive(Clone, Debug)]
enum AF {
    Count,
    CountGt(String, i64),
    Sum(String),
    Min(String),
    Max(String),
    Distinct(String),
}

#[derive(Clone, Debug)]
enum St {
    Agg { funs: Vec<(String, AF)>, keys: Vec<String> },
    /// `where col > t` (gt) or `where col <= t`, on a column that always holds an integer
    Where { col: String, gt: bool, t: i64 },
}

/// what a column can hold
#[derive(Clone, Copy, PartialEq, Debug)]
enum Kind {
    Int,
    IntOpt,
    Word,
}

fn af_text(f: &AF) -> String {
    match f {
        AF::Count => "count".into(),
        AF::CountGt(c, t) => format!("count({} > {})", c, t),
        AF::Sum(c) => format!("sum({})", c),
        AF::Min(c) => format!("min({})", c),
        AF::Max(c) => format!("max({})", c),
        AF::Distinct(c) => format!("count_distinct({})", c),
    }
}

fn st_text(s: &St) -> String {
    match s {
        St::Agg { funs, keys } => format!(
            "{}{}",
            funs.iter().map(|(n, f)| format!("{} as {}", af_text(f), n)).collect::<Vec<_>>().join(", "),
            if keys.is_empty() { String::new() } else { format!(" by {}", keys.join(", ")) }
        ),
        St::Where { col, gt, t } => format!("where {} {} {}", col, if *gt { ">" } else { "<=" }, t),
    }
}

/// The property, executed: one row per distinct key combination among `rows` (a key that is missing
/// groups under None), every function over exactly the rows of its group; numeric functions ignore
/// rows whose argument is missing or not a number.  None = not judged (a key-less stage that no row
/// reaches: the statement says nothing about it).
fn ref_stage(rows: &[RRow], st: &St) -> Option<Vec<RRow>> {
    match st {
        St::Where { col, gt, t } => {
            let mut out = vec![];
            for row in rows {
                match row.get(col) {
                    Some(V::I(i)) => {
                        if (*i > *t) == *gt {
                            out.push(row.clone())
                        }
                    }
                    _ => return None, // (the generator filters on always-integer columns only)
                }
            }
            Some(out)
        }
        St::Agg { funs, keys } => {
            if rows.is_empty() && keys.is_empty() {
                return None;
            }
            let mut groups: BTreeMap<Vec<V>, Vec<&RRow>> = BTreeMap::new();
            for row in rows {
                let kv: Vec<V> = keys.iter().map(|k| row.get(k).cloned().unwrap_or(V::N)).collect();
                groups.entry(kv).or_default().push(row);
            }
            let mut out = vec![];
            for (kv, members) in groups {
                let mut o: RRow = BTreeMap::new();
                for (k, v) in keys.iter().zip(kv) {
                    o.insert(k.clone(), v);
                }
                let ints = |c: &String| -> Vec<i64> {
                    members
                        .iter()
                        .filter_map(|m| match m.get(c) {
                            Some(V::I(i)) => Some(*i),
                            _ => None,
                        })
                        .collect()
                };
                for (name, f) in funs {
                    let v = match f {
                        AF::Count => V::I(members.len() as i64),
                        AF::CountGt(c, t) => V::I(ints(c).iter().filter(|i| **i > *t).count() as i64),
                        AF::Sum(c) => V::I(ints(c).iter().sum()),
                        AF::Min(c) => ints(c).iter().min().map(|i| V::I(*i)).unwrap_or(V::N),
                        AF::Max(c) => ints(c).iter().max().map(|i| V::I(*i)).unwrap_or(V::N),
                        AF::Distinct(c) => {
                            let mut vals: Vec<&V> = members.iter().filter_map(|m| m.get(c)).collect();
                            vals.sort();
                            vals.dedup();
                            V::I(vals.len() as i64)
                        }
                    };
                    o.insert(name.clone(), v);
                }
                out.push(o);
            }
            Some(out)
        }
    }
}

fn ref_chain(docs: &[RRow], chain: &[St]) -> Option<Vec<RRow>> {
    let mut rows = docs.to_vec();
    for st in chain {
        rows = ref_stage(&rows, st)?;
    }
    Some(rows)
}

/// the columns of the chain's final table
fn final_columns(chain: &[St]) -> Vec<String> {
    for st in chain.iter().rev() {
        if let St::Agg { funs, keys } = st {
            return keys.iter().cloned().chain(funs.iter().map(|f| f.0.clone())).collect();
        }
    }
    vec![]
}

/// rows as sorted tuples over `cols` (the row order of a table is not this property's subject)
fn project(rows: &[RRow], cols: &[String]) -> Vec<Vec<V>> {
    let mut out: Vec<Vec<V>> = rows.iter().map(|r| cols.iter().map(|c| r.get(c).cloned().unwrap_or(V::S("<column missing>".into()))).collect()).collect();
    out.sort();
    out
}

struct Chain {
    stages: Vec<St>,
    query: String,
    docs: Vec<RRow>,
    input: Vec<u8>,
}

/// Two or three aggregation stages; the keys of a later stage are mostly aggregate columns of the
/// stage before (counts that grow while the input arrives, minima / maxima / sums that move), so
/// that the tables of input prefixes hold key values the final table lacks.  Now and then a
/// `where` on an always-integer column sits between two stages.
fn gen_chain(r: &mut Rng, rows: usize) -> Chain {
    // the documents: few distinct keys, small integers (values of different groups coincide often)
    let nk = 1 + r.below(4);
    let nb = 1 + r.below(3);
    let (vlo, vhi) = *r.pick(&[(0i64, 3i64), (-9, 40), (1, 9), (-3, 3)]);
    let (miss_k, miss_b, miss_v) = (*r.pick(&[0usize, 0, 8, 30]), *r.pick(&[0usize, 10, 40]), *r.pick(&[0usize, 15, 50]));
    let mut docs: Vec<RRow> = vec![];
    let mut input = String::new();
    for _ in 0..rows {
        let mut d: RRow = BTreeMap::new();
        let mut m: Vec<String> = vec![];
        if !r.chance(miss_k) {
            let k = format!("k{}", r.below(nk));
            m.push(format!("\"k\":\"{}\"", k));
            d.insert("k".into(), V::S(k));
        }
        if !r.chance(miss_b) {
            let b = ["x", "y", "z"][r.below(nb)].to_string();
            m.push(format!("\"b\":\"{}\"", b));
            d.insert("b".into(), V::S(b));
        }
        if !r.chance(miss_v) {
            let v = r.range(vlo, vhi);
            m.push(format!("\"v\":{}", v));
            d.insert("v".into(), V::I(v));
        }
        let u = r.range(0, 5);
        m.push(format!("\"u\":{}", u));
        d.insert("u".into(), V::I(u));
        if r.chance(50) {
            m.reverse();
        }
        input.push_str(&format!("{{{}}}\n", m.join(",")));
        docs.push(d);
    }
    // the stages
    let mut cols: Vec<(String, Kind)> = vec![("k".into(), Kind::Word), ("b".into(), Kind::Word), ("v".into(), Kind::IntOpt), ("u".into(), Kind::Int)];
    let mut prev_aggs: Vec<String> = vec![];
    let nst = if r.chance(65) { 2 } else { 3 };
    let mut stages: Vec<St> = vec![];
    for si in 0..nst {
        let first = si == 0;
        let last = si + 1 == nst;
        // keys
        let nkeys = match r.below(100) {
            0..=9 if !last => 0,
            0..=5 => 0,
            6..=74 => 1,
            _ => 2,
        };
        let mut keys: Vec<String> = vec![];
        for _ in 0..nkeys {
            let k = if first {
                r.pick(&["k", "k", "k", "b", "b", "u", "v"]).to_string()
            } else if !prev_aggs.is_empty() && r.chance(80) {
                r.pick(&prev_aggs).clone()
            } else {
                cols[r.below(cols.len())].0.clone()
            };
            if !keys.contains(&k) {
                keys.push(k);
            }
        }
        // functions
        let numeric: Vec<(String, Kind)> = cols.iter().filter(|c| c.1 != Kind::Word).cloned().collect();
        let nf = 1 + r.below(3);
        let mut funs: Vec<(String, AF)> = vec![];
        let mut out_cols: Vec<(String, Kind)> = keys.iter().map(|k| (k.clone(), cols.iter().find(|c| &c.0 == k).map(|c| c.1).unwrap_or(Kind::Word))).collect();
        for fi in 0..nf {
            let name = format!("{}{}", ["p", "q", "r"][si], fi);
            let num = numeric[r.below(numeric.len())].clone();
            // (the language has no negative literal: thresholds are ≥ 0, the values need not be)
            let thr = if first {
                r.range(vlo.max(0), vhi)
            } else if num.1 == Kind::Int {
                r.range(0, 4)
            } else {
                r.range(0, 30)
            };
            // the first function of the first stage is one whose value moves while rows arrive
            let choice = if first && fi == 0 { *r.pick(&[0usize, 0, 0, 2, 3, 4]) } else { r.below(7) };
            let (f, kind) = match choice {
                0 => (AF::Count, Kind::Int),
                1 => (AF::CountGt(num.0, thr), Kind::Int),
                2 => (AF::Sum(num.0), Kind::Int),
                3 => (AF::Min(num.0), Kind::IntOpt),
                4 => (AF::Max(num.0), Kind::IntOpt),
                5 => (AF::Distinct(cols[r.below(cols.len())].0.clone()), Kind::Int),
                _ => (AF::Count, Kind::Int),
            };
            funs.push((name.clone(), f));
            out_cols.push((name, kind));
        }
        prev_aggs = funs.iter().map(|f| f.0.clone()).collect();
        stages.push(St::Agg { funs, keys });
        cols = out_cols;
        // a filter between two stages
        if !last && r.chance(20) {
            let ints: Vec<&(String, Kind)> = cols.iter().filter(|c| c.1 == Kind::Int).collect();
            if !ints.is_empty() {
                let col = ints[r.below(ints.len())].0.clone();
                stages.push(St::Where { col, gt: r.chance(50), t: r.range(0, 3) });
            }
        }
    }
    let query = format!("* | json | {}", stages.iter().map(st_text).collect::<Vec<_>>().join(" | "));
    Chain { stages, query, docs, input: input.into_bytes() }
}

fn j_to_v(j: &J) -> V {
    match j {
        J::Null => V::N,
        J::Int(i) => V::I(*i),
        J::Str(s) => V::S(s.clone()),
        other => V::S(format!("<{:?}>", other)),
    }
}

/// first difference between a table of the implementation and the reference table, in words
fn table_diff(cols_got: &[String], got: &[Vec<V>], want_cols: &[String], want: &[RRow]) -> Option<String> {
    if want.is_empty() && got.is_empty() {
        return None;
    }
    let (mut a, mut b) = (cols_got.to_vec(), want_cols.to_vec());
    a.sort();
    b.sort();
    if a != b {
        return Some(format!("columns {:?}, the stage defines {:?}", cols_got, want_cols));
    }
    let mut got_sorted = got.to_vec();
    got_sorted.sort();
    let want_rows = project(want, cols_got);
    if let Some(extra) = got_sorted.iter().find(|g| !want_rows.contains(g)) {
        return Some(format!("the result has the row {:?} (columns {:?}); no group of the rows that reach the last stage has these values ({} rows in the result, {} groups expected)", extra, cols_got, got.len(), want_rows.len()));
    }
    if let Some(lost) = want_rows.iter().find(|w| !got_sorted.contains(w)) {
        return Some(format!("the row {:?} (columns {:?}) is missing from the result ({} rows in the result, {} groups expected)", lost, cols_got, got.len(), want_rows.len()));
    }
    if got_sorted != want_rows {
        return Some(format!("{} rows in the result, {} groups expected: a key combination appears more than once", got.len(), want_rows.len()));
    }
    None
}

/// non-terminal: `-o json` of the whole chain against the reference, then implementation = model
fn chain_plain(ctx: &mut Ctx, r: &mut Rng) {
    let rows = match r.below(10) {
        0 => r.below(3),
        1..=6 => 3 + r.below(20),
        _ => 20 + r.below(60),
    };
    let ch = gen_chain(r, rows);
    let key = ckey(&ch.query, &ch.input);
    let info = serde_json::json!({"query": ch.query, "input": String::from_utf8_lossy(&ch.input)});
    let want = match ref_chain(&ch.docs, &ch.stages) {
        Some(w) => w,
        None => {
            ctx.count("agg-of-agg not judged: a key-less stage that no row reaches");
            return;
        }
    };
    let c = run_both(ctx, &ch.query, &ch.input);
    if !c.imp.compiled || c.imp.panicked.is_some() || c.imp.hung {
        ctx.case("agg-of-agg", &key, "viol", serde_json::json!({"class": "", "what": "chain of aggregation stages did not run", "panic": c.imp.panicked, "compile_err": c.imp.compile_err, "case": info}));
        return;
    }
    let text = String::from_utf8_lossy(&c.imp.stdout).to_string();
    let want_cols = final_columns(&ch.stages);
    let problem = match canon::parse(text.trim_end()) {
        Ok(J::Arr(out)) => {
            let mut got: Vec<Vec<V>> = vec![];
            let mut bad = None;
            for row in &out {
                match row {
                    J::Obj(kvs) => {
                        let mut names: Vec<&String> = kvs.iter().map(|kv| &kv.0).collect();
                        names.sort();
                        let mut w: Vec<&String> = want_cols.iter().collect();
                        w.sort();
                        if names != w {
                            bad = Some(format!("a row has the members {:?}, the stage defines {:?}", names, want_cols));
                        }
                        got.push(want_cols.iter().map(|c| kvs.iter().find(|kv| &kv.0 == c).map(|kv| j_to_v(&kv.1)).unwrap_or(V::S("<column missing>".into()))).collect());
                    }
                    _ => bad = Some("a row is not an object".to_string()),
                }
            }
            bad.or_else(|| table_diff(&want_cols, &got, &want_cols, &want))
        }
        _ => Some("output is not a JSON array".to_string()),
    };
    match problem {
        Some(w) => {
            ctx.case("agg-of-agg", &key, "viol", serde_json::json!({"class": "", "what": w, "got": text, "case": info}));
            return;
        }
        None => ctx.case("agg-of-agg", &key, "pass", info.clone()),
    }
    match compare(&c, true) {
        F::Agree => ctx.case("model", &key, "pass", info),
        F::Skip(w) => ctx.case("model", "", "skip", serde_json::json!({"why": w.split(':').next().unwrap_or("").to_string()})),
        F::Disagree(d) => ctx.case("model", &key, "fdis", serde_json::json!({"what": d, "case": info})),
    }
}

/// the cells of a table as the legacy printer draws it (cells hold no blanks here): header, rows.
/// `No data` = no columns, no rows.  None = not a table.
fn parse_legacy_table(text: &str) -> Option<(Vec<String>, Vec<Vec<V>>)> {
    if text == "No data\n" {
        return Some((vec![], vec![]));
    }
    let body = text.strip_suffix('\n')?;
    let lines: Vec<&str> = body.split('\n').collect();
    if lines.len() < 2 || lines[1].is_empty() || !lines[1].chars().all(|c| c == '-') {
        return None;
    }
    let header: Vec<String> = lines[0].split_whitespace().map(|s| s.to_string()).collect();
    let mut rows = vec![];
    for l in &lines[2..] {
        let cells: Vec<&str> = l.split_whitespace().collect();
        if cells.len() != header.len() {
            return None;
        }
        rows.push(
            cells
                .iter()
                .map(|c| match (*c, c.parse::<i64>()) {
                    ("None", _) => V::N,
                    (_, Ok(i)) => V::I(i),
                    (s, _) => V::S(s.to_string()),
                })
                .collect(),
        );
    }
    Some((header, rows))
}

/// Live terminal (forced through the `verif` hooks, as C16 does): the input arrives in chunks with
/// idle periods of 120–300 ms in between, the whole chain is re-run on every refresh (after the
/// first row, on the scripted fraction of rows and idle ticks, at end of input).  A later stage
/// thus receives a sequence of complete upstream tables and must describe the latest one only:
/// the final frame is the reference table of ALL rows, equal to what a non-terminal run of the same
/// bytes prints, and every earlier frame is the reference table of a (non-decreasing) input prefix.
fn chain_live(ctx: &mut Ctx, idx: usize, r: &mut Rng) {
    chain_live_as(ctx, idx, r, "live-agg-of-agg")
}

/// the same family under another property's name (C14: the result describes the rows that
/// arrived, whatever intermediate tables the refreshes went through)
pub fn chain_live_as(ctx: &mut Ctx, idx: usize, r: &mut Rng, family: &str) {
    use super::c16::{frame_vs_plain, run_pipeline, split_frames};
    let rows = 3 + r.below(24);
    let ch = gen_chain(r, rows);
    // wide and tall enough for every table of the run: no clipping, no ellipsis
    let w = 170 + r.below(80) as u16;
    let h = 70 + r.below(60) as u16;
    let line_starts: Vec<usize> = std::iter::once(0).chain(ch.input.iter().enumerate().filter(|(_, b)| **b == b'\n').map(|(i, _)| i + 1)).collect();
    // paced: 2–4 idle periods between rows; one case in four arrives at once with a dense schedule
    let paced = !r.chance(25);
    let mut pauses: Vec<(usize, u64)> = vec![];
    if paced {
        for _ in 0..2 + r.below(3) {
            pauses.push((line_starts[1 + r.below(rows - 1)], 120 + r.below(181) as u64));
        }
        pauses.sort();
        pauses.dedup_by_key(|p| p.0);
    }
    let density = if paced { *r.pick(&[10usize, 40, 100]) } else { *r.pick(&[60usize, 100]) };
    let seed = r.next();
    let key = format!("{}:{}", family, ckey(&ch.query, &ch.input));
    let info = serde_json::json!({"index": idx, "query": ch.query, "input": String::from_utf8_lossy(&ch.input), "size": [w, h], "refresh_density": density, "refresh_seed": seed,
        "pauses_before_byte_ms": pauses, "rows": rows});
    // the reference table of every prefix of the input
    let refs: Vec<Option<Vec<RRow>>> = (0..=rows).map(|k| ref_chain(&ch.docs[..k], &ch.stages)).collect();
    let want = match &refs[rows] {
        Some(w) => w.clone(),
        None => {
            ctx.count("live-agg-of-agg not judged: a key-less stage that no row reaches");
            return;
        }
    };
    let want_cols = final_columns(&ch.stages);
    let tty = run_pipeline(&ch.query, &ch.input, Some((w, h)), true, seed, density, pauses.clone());
    if tty.hung || tty.panicked.is_some() || !tty.compiled {
        ctx.case(family, &key, "viol", serde_json::json!({"class": "", "what": format!("terminal run failed: hung={} panic={:?} compiled={}", tty.hung, tty.panicked, tty.compiled), "case": info}));
        return;
    }
    let plain = run_pipeline(&ch.query, &ch.input, None, false, seed, density, vec![]);
    if plain.hung || plain.panicked.is_some() || !plain.compiled {
        ctx.case(family, &key, "viol", serde_json::json!({"class": "", "what": format!("non-terminal run failed: hung={} panic={:?}", plain.hung, plain.panicked), "case": info}));
        return;
    }
    let plain_text = String::from_utf8_lossy(&plain.bytes).into_owned();
    let frames = split_frames(&String::from_utf8_lossy(&tty.bytes));
    let last = frames.last().cloned().unwrap_or_default();
    let judge = |text: &str, want: &[RRow]| -> Option<String> {
        match parse_legacy_table(text) {
            None => Some("not a table".to_string()),
            Some((cols, got)) => table_diff(&cols, &got, &want_cols, want),
        }
    };
    // 1. the final frame against the reference table of all rows
    if let Some(what) = judge(&last, &want) {
        ctx.case(
            family,
            &key,
            "viol",
            serde_json::json!({"class": "", "what": format!("final frame on a terminal, after {} frames: {}", frames.len(), what), "final_frame": last, "expected_rows": format!("{:?}", project(&want, &want_cols)),
                "expected_columns": want_cols, "non_terminal_output": plain_text, "case": info}),
        );
        return;
    }
    // 2. the non-terminal run of the same bytes: the same table
    if let Some(what) = judge(&plain_text, &want).or_else(|| frame_vs_plain(&last, &plain_text, w, h, false)) {
        ctx.case(family, &key, "viol", serde_json::json!({"class": "", "what": format!("non-terminal run of the same query and bytes: {}", what), "final_frame": last, "non_terminal_output": plain_text, "case": info}));
        return;
    }
    // 3. every earlier frame: the table of the rows received so far
    let mut at = 0usize;
    for (fi, f) in frames.iter().enumerate() {
        let found = (at..=rows).find(|k| matches!(&refs[*k], Some(t) if judge(f, t).is_none()));
        match found {
            Some(k) => at = k,
            None if (at..=rows).any(|k| refs[k].is_none()) => {} // may be a prefix that is not judged
            None => {
                let what = refs[at].as_ref().and_then(|t| judge(f, t)).unwrap_or_default();
                ctx.case(
                    family,
                    &key,
                    "viol",
                    serde_json::json!({"class": "", "what": format!("frame {} of {} is not the table of any input prefix of ≥ {} rows; against the prefix of {} rows: {}", fi, frames.len(), at, at, what), "frame": f, "case": info}),
                );
                return;
            }
        }
    }
    ctx.case(family, &key, "pass", serde_json::json!({"query": ch.query, "rows": rows, "frames": frames.len(), "refresh_density": density, "idle_periods": pauses.len(), "size": [w, h]}));
}
