//! C01: grouped aggregation reports the true per-group statistics.
//! P-level: an independent reference aggregation computed in the harness from the input documents.
//! F-level: implementation = Lean model on -o json.
use super::common::*;
use crate::canon::{self, J};
use crate::gen;
use crate::rng::Rng;
use crate::Ctx;
use std::collections::BTreeMap;

/// documents for this check: numeric arguments are JSON numbers (or null / bool / words / missing),
/// never digit-bearing strings — string→number coercion is C08's subject
pub fn doc(r: &mut Rng, obj_keys: bool) -> String {
    let mut m: Vec<String> = vec![];
    if r.chance(90) {
        let v = match r.below(10) {
            0 => format!("{}", r.range(0, 2)),
            1 => "null".into(),
            2 if obj_keys => "{\"p\":1,\"q\":2,\"r\":3}".into(),
            _ => format!("\"{}\"", r.pick(&["a", "b", "c"])),
        };
        m.push(format!("\"k\":{}", v));
    }
    if r.chance(85) {
        m.push(format!("\"n\":{}", r.range(-20, 60)));
    }
    if r.chance(85) {
        let v = match r.below(8) {
            0 => "null".to_string(),
            1 => "\"word\"".to_string(),
            2 => "true".to_string(),
            3 => "[1,2]".to_string(),
            4 | 5 => format!("{}", r.range(-100, 100)),
            _ => format!("{}.{}", r.range(-100, 100), r.range(1, 99)),
        };
        m.push(format!("\"x\":{}", v));
    }
    if r.chance(70) {
        m.push(format!("\"s\":\"{}\"", r.pick(&["alpha", "beta", "GET", "err", "", "héllo"])));
    }
    if r.chance(50) {
        m.push(format!("\"b\":{}", r.pick(&["true", "false", "null"])));
    }
    if r.chance(50) {
        m.push(format!("\"o\":{{\"p\":{}}}", r.range(0, 3)));
    }
    if r.chance(60) {
        // values of different types whose TEXT coincides (200 / "200", true / "true", null / "None")
        m.push(format!("\"t\":{}", r.pick(&["200", "\"200\"", "1.5", "\"1.5\"", "true", "\"true\"", "null", "\"None\"", "\"null\"", "0", "\"0\"", "false", "\"\"", "[1]", "\"[1]\""])));
    }
    format!("{{{}}}", m.join(","))
}

fn get_path<'a>(d: &'a J, path: &str) -> Option<&'a J> {
    let mut cur = d;
    for part in path.split('.') {
        match cur {
            J::Obj(kvs) => cur = &kvs.iter().rev().find(|kv| kv.0 == part)?.1, // last duplicate wins
            _ => return None,
        }
    }
    Some(cur)
}

fn num(j: Option<&J>) -> Option<f64> {
    match j {
        Some(J::Int(i)) => Some(*i as f64),
        Some(J::Float(f)) => Some(*f),
        _ => None,
    }
}

#[derive(Clone)]
enum Fun {
    Count,
    CountGt(String, i64),
    Sum(String),
    Min(String),
    Max(String),
    Avg(String),
    Distinct(String),
    Pct(u32, String),
}

fn fun_text(f: &Fun) -> String {
    match f {
        Fun::Count => "count".into(),
        Fun::CountGt(c, k) => format!("count({} > {})", c, k),
        Fun::Sum(c) => format!("sum({})", c),
        Fun::Min(c) => format!("min({})", c),
        Fun::Max(c) => format!("max({})", c),
        Fun::Avg(c) => format!("avg({})", c),
        Fun::Distinct(c) => format!("count_distinct({})", c),
        Fun::Pct(p, c) => format!("p{}({})", p, c),
    }
}

fn close(a: f64, b: f64) -> bool {
    a == b || (a - b).abs() <= 1e-9 * (a.abs().max(b.abs()).max(1.0))
}

fn as_f64(j: &J) -> Option<f64> {
    match j {
        J::Int(i) => Some(*i as f64),
        J::Float(f) => Some(*f),
        _ => None,
    }
}

pub fn check(ctx: &mut Ctx) {
    let n = ctx.budget(1500, 60000);
    for _ in 0..n {
        let mut r = ctx.rng.fork();
        let obj_keys = r.chance(6);
        let nrows = if ctx.thorough() && r.chance(2) { 600 + r.below(3000) } else { r.below(40) };
        let docs: Vec<String> = (0..nrows).map(|_| doc(&mut r, obj_keys)).collect();
        let mut input = vec![];
        for d in &docs {
            input.extend(d.as_bytes());
            input.push(b'\n');
        }
        // stage
        let nk = r.below(3);
        let mut keys: Vec<String> = vec![];
        for _ in 0..nk {
            let k = r.pick(&["k", "b", "s", "o.p", "n", "missing", "t"]).to_string();
            if !keys.contains(&k) {
                keys.push(k)
            }
        }
        let nf = 1 + r.below(4);
        let mut funs: Vec<(String, Fun)> = vec![("c_all".into(), Fun::Count)];
        for i in 0..nf {
            let col = r.pick(&["n", "x", "o.p", "missing"]).to_string();
            let f = match r.below(9) {
                0 => Fun::Count,
                1 => Fun::CountGt(r.pick(&["n", "x"]).to_string(), r.range(0, 30)),
                2 => Fun::Sum(col),
                3 => Fun::Min(col),
                4 => Fun::Max(col),
                5 => Fun::Avg(col),
                6 => Fun::Distinct(r.pick(&["k", "s", "n", "b", "x", "t", "t"]).to_string()),
                7 => Fun::Pct(*r.pick(&[50u32, 90, 99, 10, 75]), col),
                _ => Fun::Sum(r.pick(&["n", "o.p"]).to_string()),
            };
            funs.push((format!("f{}", i), f));
        }
        let stage = format!(
            "{}{}",
            funs.iter().map(|(n, f)| format!("{} as {}", fun_text(f), n)).collect::<Vec<_>>().join(", "),
            if keys.is_empty() { String::new() } else { format!(" by {}", keys.join(", ")) }
        );
        let q = format!("* | json | {}", stage);
        let key = ckey(&q, &input);
        let info = serde_json::json!({"query": q, "input": String::from_utf8_lossy(&input)});
        let c = run_both(ctx, &q, &input);
        if !c.imp.compiled || c.imp.panicked.is_some() || c.imp.hung {
            ctx.case("agg", &key, "viol", serde_json::json!({"class": "", "what": "aggregation stage did not run", "panic": c.imp.panicked, "compile_err": c.imp.compile_err, "case": info}));
            continue;
        }
        // ---- reference
        let parsed: Vec<J> = docs.iter().filter_map(|d| canon::parse(d).ok()).collect();
        let mut groups: BTreeMap<String, (Vec<J>, Vec<&J>)> = BTreeMap::new();
        for d in &parsed {
            let kv: Vec<J> = keys.iter().map(|k| canon::normalize(get_path(d, k).unwrap_or(&J::Null))).collect();
            let ks = format!("{:?}", kv);
            groups.entry(ks).or_insert_with(|| (kv.clone(), vec![])).1.push(d);
        }
        // ---- implementation rows
        let text = String::from_utf8_lossy(&c.imp.stdout).to_string();
        let rows = match canon::parse(text.trim_end()) {
            Ok(J::Arr(rows)) => rows,
            _ => {
                ctx.case("agg", &key, "viol", serde_json::json!({"class": "", "what": "output is not a JSON array", "case": info}));
                continue;
            }
        };
        let mut problem: Option<String> = None;
        // object-valued `k` used as a group key or as a count_distinct argument: both go through
        // im::HashMap's Hash, which depends on each map's private iteration order
        let has_obj_key = parsed.iter().any(|d| matches!(get_path(d, "k"), Some(J::Obj(_))))
            && (keys.contains(&"k".to_string()) || funs.iter().any(|f| matches!(&f.1, Fun::Distinct(c) if c == "k")));
        let mut seen: BTreeMap<String, usize> = BTreeMap::new();
        let mut total_count = 0i64;
        for row in &rows {
            let kvs = match row {
                J::Obj(kvs) => kvs,
                _ => {
                    problem = Some("row is not an object".into());
                    break;
                }
            };
            let cell = |name: &str| kvs.iter().find(|kv| kv.0 == name).map(|kv| &kv.1);
            let kv: Vec<J> = keys.iter().map(|k| canon::normalize(cell(k).unwrap_or(&J::Null))).collect();
            let ks = format!("{:?}", kv);
            *seen.entry(ks.clone()).or_insert(0) += 1;
            let g = match groups.get(&ks) {
                Some(g) => g,
                None => {
                    problem = Some(format!("output has a group {} that no input row has", ks));
                    break;
                }
            };
            for (name, f) in &funs {
                let got = cell(name).cloned().unwrap_or(J::Null);
                let members = &g.1;
                let bad = match f {
                    Fun::Count => got != J::Int(members.len() as i64),
                    Fun::CountGt(c, k) => {
                        // `v > k` under the documented value order: None < bool < numbers < strings < … ;
                        // a missing field is an evaluation error (row not counted)
                        let want = members
                            .iter()
                            .filter(|d| match get_path(d, c) {
                                None => false,
                                Some(J::Null) | Some(J::Bool(_)) => false,
                                Some(J::Int(i)) => (*i as f64) > *k as f64,
                                Some(J::Float(f)) => *f > *k as f64,
                                Some(_) => true,
                            })
                            .count();
                        got != J::Int(want as i64)
                    }
                    Fun::Sum(c) => {
                        let want: f64 = members.iter().filter_map(|d| num(get_path(d, c))).sum();
                        !as_f64(&got).map(|g| close(g, want)).unwrap_or(false)
                    }
                    Fun::Min(c) | Fun::Max(c) => {
                        let vals: Vec<f64> = members.iter().filter_map(|d| num(get_path(d, c))).collect();
                        if vals.is_empty() {
                            got != J::Null
                        } else {
                            let want = if matches!(f, Fun::Min(_)) { vals.iter().cloned().fold(f64::INFINITY, f64::min) } else { vals.iter().cloned().fold(f64::NEG_INFINITY, f64::max) };
                            as_f64(&got) != Some(want)
                        }
                    }
                    Fun::Avg(c) => {
                        let vals: Vec<f64> = members.iter().filter_map(|d| num(get_path(d, c))).collect();
                        if vals.is_empty() {
                            false // NaN → null: not judged (property does not state it)
                        } else {
                            let want = vals.iter().sum::<f64>() / vals.len() as f64;
                            !as_f64(&got).map(|g| close(g, want)).unwrap_or(false)
                        }
                    }
                    Fun::Distinct(c) => {
                        let mut set: Vec<String> = members.iter().filter_map(|d| get_path(d, c)).map(|v| format!("{:?}", canon::normalize(v))).collect();
                        set.sort();
                        set.dedup();
                        got != J::Int(set.len() as i64)
                    }
                    Fun::Pct(p, c) => {
                        let mut vals: Vec<f64> = members.iter().filter_map(|d| num(get_path(d, c))).collect();
                        if vals.is_empty() {
                            got != J::Null
                        } else {
                            vals.sort_by(|a, b| a.partial_cmp(b).unwrap());
                            match as_f64(&got) {
                                None => true,
                                Some(v) => {
                                    // one of the observed values, within the sketch's rank tolerance
                                    let nn = vals.len() as f64;
                                    let target = (*p as f64 / 100.0) * nn;
                                    let lo = vals.iter().position(|x| *x == v);
                                    let hi = vals.iter().rposition(|x| *x == v);
                                    match (lo, hi) {
                                        (Some(lo), Some(hi)) => {
                                            let tol = 0.001 * nn + 1.5;
                                            !((lo as f64 + 1.0) - tol <= target && target <= (hi as f64 + 1.0) + tol)
                                        }
                                        _ => true,
                                    }
                                }
                            }
                        }
                    }
                };
                if bad {
                    problem = Some(format!("group {} column {} = {}: value {:?} is not that function of the group's {} rows", ks, name, fun_text(f), got, members.len()));
                }
            }
            if let Some(J::Int(c)) = cell("c_all") {
                total_count += c;
            }
        }
        if problem.is_none() {
            if seen.values().any(|c| *c > 1) {
                problem = Some("a key combination appears in more than one row".into());
            } else if seen.len() != groups.len() {
                problem = Some(format!("{} groups in the output, {} distinct key combinations in the input", seen.len(), groups.len()));
            } else if total_count != parsed.len() as i64 {
                problem = Some(format!("counts add up to {} but {} rows reached the stage", total_count, parsed.len()));
            }
        }
        match problem {
            Some(w) => {
                let class = if has_obj_key { "C01/object-valued-key-splits-groups" } else { "" };
                ctx.case("agg", &key, "viol", serde_json::json!({"class": class, "what": w, "got": text, "case": info}));
                continue;
            }
            None => ctx.case("agg", &key, "pass", info.clone()),
        }
        // ---- F-level (row order of the final table is fixed by the implicit sort)
        if has_obj_key {
            continue;
        }
        match compare(&c, true) {
            F::Agree => ctx.case("model", &key, "pass", info),
            F::Skip(w) => ctx.case("model", "", "skip", serde_json::json!({"why": w.split(':').next().unwrap_or("").to_string()})),
            F::Disagree(d) => ctx.case("model", &key, "fdis", serde_json::json!({"what": d, "case": info})),
        }
    }
    // ---- arguments of every non-numeric type (dates, durations, booleans, arrays, objects), alone
    // or mixed with numbers in one column: the numeric functions ignore them, the rows still count
    let nt = ctx.budget(300, 8000);
    for _ in 0..nt {
        let mut r = ctx.rng.fork();
        let nrows = 1 + r.below(14);
        let thr = r.range(0, 40);
        let mut input = vec![];
        let mut rows: Vec<(String, Option<i64>)> = vec![];
        for _ in 0..nrows {
            let k = r.pick(&["a", "b", "c"]).to_string();
            let n = if r.chance(85) { Some(r.range(-20, 60)) } else { None };
            let ts = format!("20{:02}-0{}-1{}T0{}:{:02}:{:02}Z", r.range(0, 30), 1 + r.below(9), r.below(9), r.below(9), r.below(60), r.below(60));
            let mut m = vec![format!("\"k\":\"{}\"", k), format!("\"ts\":\"{}\"", ts), "\"arr\":[1,2]".to_string(), "\"o\":{\"p\":1}".to_string()];
            if let Some(n) = n {
                m.push(format!("\"n\":{}", n));
            }
            input.extend(format!("{{{}}}\n", m.join(",")).into_bytes());
            rows.push((k, n));
        }
        // (expression, which rows contribute which number)
        let (expr, pick): (String, Box<dyn Fn(Option<i64>) -> Option<i64>>) = match r.below(8) {
            0 => ("parseDate(ts)".into(), Box::new(|_| None)),
            1 => ("parseDate(ts) - parseDate(ts)".into(), Box::new(|_| None)),
            2 => ("n > 3".into(), Box::new(|_| None)),
            3 => ("arr".into(), Box::new(|_| None)),
            4 => ("o".into(), Box::new(|_| None)),
            5 => (format!("if(n > {}, parseDate(ts), n)", thr), Box::new(move |n| n.filter(|v| *v <= thr))),
            6 => (format!("if(n > {}, arr, n)", thr), Box::new(move |n| n.filter(|v| *v <= thr))),
            _ => (format!("if(n <= {}, n, n > 0)", thr), Box::new(move |n| n.filter(|v| *v <= thr))),
        };
        let by = r.chance(60);
        let q = format!("* | json | count as c, sum({e}) as s, min({e}) as lo, max({e}) as hi, avg({e}) as av{}", if by { " by k" } else { "" }, e = expr);
        let key = ckey(&q, &input);
        let info = serde_json::json!({"query": q, "input": String::from_utf8_lossy(&input)});
        let c = run_both(ctx, &q, &input);
        if !c.imp.compiled || c.imp.panicked.is_some() || c.imp.hung {
            ctx.case("typed-args", &key, "viol", serde_json::json!({"class": "", "what": "aggregation stage did not run", "panic": c.imp.panicked, "compile_err": c.imp.compile_err, "case": info}));
            continue;
        }
        let text = String::from_utf8_lossy(&c.imp.stdout).to_string();
        let out = match canon::parse(text.trim_end()) {
            Ok(J::Arr(rows)) => rows,
            _ => vec![],
        };
        let mut problem: Option<String> = None;
        let groups: Vec<Option<&str>> = if by { vec![Some("a"), Some("b"), Some("c")] } else { vec![None] };
        let mut expected_rows = 0;
        for g in groups {
            let members: Vec<&(String, Option<i64>)> = rows.iter().filter(|x| g.map(|g| x.0 == g).unwrap_or(true)).collect();
            if members.is_empty() {
                continue;
            }
            expected_rows += 1;
            let nums: Vec<i64> = members.iter().filter_map(|x| pick(x.1)).collect();
            let row = out.iter().find(|row| match (row, g) {
                (J::Obj(kvs), Some(g)) => kvs.iter().any(|kv| kv.0 == "k" && kv.1 == J::Str(g.to_string())),
                (J::Obj(_), None) => true,
                _ => false,
            });
            let kvs = match row {
                Some(J::Obj(kvs)) => kvs,
                _ => {
                    problem = Some(format!("group {:?} missing", g));
                    break;
                }
            };
            let cell = |name: &str| kvs.iter().find(|kv| kv.0 == name).map(|kv| kv.1.clone()).unwrap_or(J::Null);
            let want_lo = nums.iter().min().map(|v| J::Int(*v)).unwrap_or(J::Null);
            let want_hi = nums.iter().max().map(|v| J::Int(*v)).unwrap_or(J::Null);
            let sum: i64 = nums.iter().sum();
            if cell("c") != J::Int(members.len() as i64) {
                problem = Some(format!("group {:?}: count {:?}, {} rows", g, cell("c"), members.len()));
            } else if as_f64(&cell("s")) != Some(sum as f64) {
                problem = Some(format!("group {:?}: sum {:?}, the numeric values add up to {} (non-numeric arguments are ignored)", g, cell("s"), sum));
            } else if canon::normalize(&cell("lo")) != canon::normalize(&want_lo) || canon::normalize(&cell("hi")) != canon::normalize(&want_hi) {
                problem = Some(format!("group {:?}: min/max {:?}/{:?}, expected {:?}/{:?} (None when the group has no numeric value)", g, cell("lo"), cell("hi"), want_lo, want_hi));
            } else if !nums.is_empty() && !as_f64(&cell("av")).map(|a| close(a, sum as f64 / nums.len() as f64)).unwrap_or(false) {
                problem = Some(format!("group {:?}: average {:?} of {:?}", g, cell("av"), nums));
            }
        }
        if problem.is_none() && out.len() != expected_rows {
            problem = Some(format!("{} rows in the result, {} groups in the input", out.len(), expected_rows));
        }
        match problem {
            Some(w) => {
                ctx.case("typed-args", &key, "viol", serde_json::json!({"class": "", "what": w, "got": text, "case": info}));
                continue;
            }
            None => ctx.case("typed-args", &key, "pass", info.clone()),
        }
        match compare(&c, true) {
            F::Agree => ctx.case("model", &key, "pass", info),
            F::Skip(w) => ctx.case("model", "", "skip", serde_json::json!({"why": w.split(':').next().unwrap_or("").to_string()})),
            F::Disagree(d) => ctx.case("model", &key, "fdis", serde_json::json!({"what": d, "case": info})),
        }
    }
    // ---- percentiles over groups large enough for the sketch to compress (its documented rank
    // tolerance is 0.1 % of the group's rows): values are a permutation of 1..N, so a value's rank is
    // the value itself; a small group rides along and must stay exact
    let np = ctx.budget(16, 400);
    for _ in 0..np {
        let mut r = ctx.rng.fork();
        let n = *r.pick(&[600usize, 1000, 2000, 5000, 10007]);
        let mult = *r.pick(&[1usize, 7919, 3571, 104729]);
        let mut input = String::new();
        for i in 0..n {
            let v = (i * mult) % n + 1; // a permutation when gcd(mult, n) = 1; otherwise values repeat (fine)
            input.push_str(&format!("{{\"k\":\"big\",\"v\":{}}}\n", v));
            if i % (n / 20) == 0 {
                input.push_str(&format!("{{\"k\":\"small\",\"v\":{}}}\n", i / (n / 20) + 1));
            }
        }
        let q = "* | json | count as c, p1(v) as q1, p25(v) as q25, p50(v) as q50, p75(v) as q75, p90(v) as q90, p99(v) as q99 by k";
        let key = format!("pct-large:{}:{}", n, mult);
        let res = crate::imp::run(q, input.as_bytes(), "json", 60);
        let info = serde_json::json!({"query": q, "rows_in_big_group": n, "values": format!("(i*{}) mod {} + 1", mult, n)});
        let rows = match canon::parse(String::from_utf8_lossy(&res.stdout).trim_end()) {
            Ok(J::Arr(rows)) => rows,
            _ => vec![],
        };
        let mut sorted: Vec<f64> = (0..n).map(|i| ((i * mult) % n + 1) as f64).collect();
        sorted.sort_by(|a, b| a.partial_cmp(b).unwrap());
        let mut problem: Option<String> = None;
        let big = rows.iter().find(|row| matches!(row, J::Obj(kvs) if kvs.iter().any(|kv| kv.0 == "k" && kv.1 == J::Str("big".into()))));
        match big {
            Some(J::Obj(kvs)) => {
                for (name, p) in [("q1", 1.0), ("q25", 25.0), ("q50", 50.0), ("q75", 75.0), ("q90", 90.0), ("q99", 99.0)] {
                    let got = kvs.iter().find(|kv| kv.0 == name).and_then(|kv| as_f64(&kv.1));
                    match got {
                        None => problem = Some(format!("{} missing", name)),
                        Some(v) => {
                            let lo = sorted.iter().position(|x| *x == v);
                            let hi = sorted.iter().rposition(|x| *x == v);
                            let target = p / 100.0 * n as f64;
                            // twice the documented tolerance, plus one rank
                            let tol = 0.002 * n as f64 + 1.5;
                            match (lo, hi) {
                                (Some(lo), Some(hi)) if (lo as f64 + 1.0) - tol <= target && target <= (hi as f64 + 1.0) + tol => {}
                                (Some(lo), _) => problem = Some(format!("{} = {} has rank {} of {}, {:.1} ranks from the requested {:.1} (tolerance {:.1})", name, v, lo + 1, n, (lo as f64 + 1.0 - target).abs(), target, tol)),
                                _ => problem = Some(format!("{} = {} is not one of the observed values", name, v)),
                            }
                        }
                    }
                }
                if kvs.iter().find(|kv| kv.0 == "c").map(|kv| kv.1.clone()) != Some(J::Int(n as i64)) {
                    problem = Some("count of the big group is wrong".into());
                }
            }
            _ => problem = Some("group `big` missing".into()),
        }
        match problem {
            Some(w) => ctx.case("pct-large", &key, "viol", serde_json::json!({"class": "", "what": w, "got": String::from_utf8_lossy(&res.stdout).chars().take(600).collect::<String>(), "case": info})),
            None => ctx.case("pct-large", &key, "pass", info),
        }
    }
    // two functions of the same kind in one stage (README uses this): each must have its own column
    if ctx.shard == 0 {
        let input = b"{\"a\":1,\"b\":2}\n{\"a\":1,\"b\":3}\n{\"a\":2,\"b\":2}\n".to_vec();
        let q = "* | json | count(a == 1), count(b == 2)";
        let r = crate::imp::run(q, &input, "json", 10);
        let text = String::from_utf8_lossy(&r.stdout).to_string();
        let ok = match canon::parse(text.trim_end()) {
            Ok(J::Arr(rows)) if rows.len() == 1 => match &rows[0] {
                J::Obj(kvs) => kvs.len() == 2 && kvs.iter().map(|kv| &kv.1).collect::<Vec<_>>() == vec![&J::Int(2), &J::Int(2)] && kvs[0].0 != kvs[1].0,
                _ => false,
            },
            _ => !r.compiled, // rejecting the ambiguous stage at compile time is also fine
        };
        if ok {
            ctx.case("same-default-name", "count,count", "pass", serde_json::json!({"query": q}));
        } else {
            ctx.case("same-default-name", "count,count", "viol", serde_json::json!({"class": "C01/same-default-column-name-collapses", "what": "two aggregate functions with the same default column name share one accumulator/column", "query": q, "got": text}));
        }
        // more shapes of the same hazard: each must be rejected, or give every function its own correct column
        for q in ["* | json | sum(a), sum(b)", "* | json | count, count(b == 2) by a", "* | json | count as a by a", "* | json | min(a) as x, max(b) as x"] {
            let r = crate::imp::run(q, &input, "json", 10);
            let text = String::from_utf8_lossy(&r.stdout).to_string();
            if r.compiled || r.panicked.is_some() {
                ctx.case("same-default-name", q, "viol", serde_json::json!({"class": "C01/same-default-column-name-collapses", "what": "two columns of one aggregation have the same name and the stage was accepted", "query": q, "got": text}));
            } else {
                ctx.case("same-default-name", q, "pass", serde_json::json!({"query": q}));
            }
        }
    }
    // witness replay of the open finding on object-valued keys
    if ctx.shard == 0 {
        let line = "{\"k\":{\"p\":1,\"q\":2,\"r\":3,\"s\":4}}\n";
        let input = line.repeat(12).into_bytes();
        let r = crate::imp::run("* | json | count by k", &input, "json", 10);
        let text = String::from_utf8_lossy(&r.stdout).to_string();
        let groups = match canon::parse(text.trim_end()) {
            Ok(J::Arr(rows)) => rows.len(),
            _ => 0,
        };
        if groups == 1 {
            ctx.case("witness", "object-key", "pass", serde_json::json!({"query": "* | json | count by k", "groups": groups}));
        } else {
            ctx.case("witness", "object-key", "known", serde_json::json!({"class": "C01/object-valued-key-splits-groups", "what": "12 identical rows with an object-valued key", "groups": groups, "got": text}));
        }
    }
    let _ = gen::small_int;
}
