//! C17: I/O faults end the run cleanly.
//!
//! Oracles on the real code (P-level): the run terminates, at most one `error:` line per fault, no
//! panic / crash report, clean exit status.  F-level: the Lean model (AgModel/Sched.lean via
//! `SCHED`) predicts, for the same fault, the bytes that got out and the number of error lines of
//! the renderer and of the reader; Props/C17.lean proves what holds for every schedule
//! (`C17_no_panic`, `C17_at_most_one_error_line`, `C17_read_error_clean`, …) and gives the
//! counterexample that is reproduced here as the listed open finding:
//!   C17/unbounded-run-after-consumer-closed  design-level: the reader learns of a closed output
//!                                            only by a failing send; no row sent ⇒ never  (verdict `known`)
//! Repaired, now checked as ordinary oracles (a regression is a `viol` with the old class):
//!   C17/json-writer-expect-panic   /repo 1b6cc1e  (JsonPrinter `.expect` on a write error)
//!   C17/read-error-unwrap-panic    /repo 566c084  (`read_until(..).unwrap()`, `--file <directory>`)
use super::c15::{ensure_binary, model_sched, run_proc, split_rows, start, Feed, Gate, Sink};
use crate::enc::hexb;
use crate::imp;
use crate::Ctx;
use serde_json::json;
use std::io::{BufReader, Cursor};
use std::time::{Duration, Instant};

const CEILING: Duration = Duration::from_secs(10);

fn input_lines(n: usize) -> Vec<Vec<u8>> {
    (0..n)
        .map(|i| {
            // group sizes pairwise different (no ties in the implicit sort of `count by k`)
            let k = if i % 7 == 0 { "a" } else if i % 3 == 0 { "b" } else { "c" };
            format!("{{\"k\":\"{}\",\"n\":{}}}\n", k, i).into_bytes()
        })
        .collect()
}

const MODES: &[(&str, &str)] = &[("legacy", "legacy"), ("json", "json"), ("logfmt", "logfmt"), ("format", "format={k}:{n}:{_count}")];

struct Witnesses {
    reported: std::collections::BTreeMap<String, usize>,
    /// `--replay FILE`: only the case with this key is run
    only: Option<String>,
}

impl Witnesses {
    fn skip(&self, key: &str) -> bool {
        match &self.only {
            Some(k) => k != key,
            None => false,
        }
    }
    /// report a reproduced witness of the listed open finding `class` (verdict `known`):
    /// the first witnesses in full, the rest compactly
    fn finding(&mut self, ctx: &mut Ctx, fam: &str, key: &str, class: &str, info: serde_json::Value) {
        let n = self.reported.entry(class.to_string()).or_insert(0);
        *n += 1;
        if *n <= 2 {
            let mut i = info;
            i["class"] = json!(class);
            ctx.case(fam, key, "known", i);
        } else {
            ctx.case(fam, key, "known", json!({"class": class, "what": info["what"], "case": info["case"], "note": "further witness of the same class"}));
        }
    }
}

// ------------------------------------------------------------------------------------------------
// in-process: the sink fails for ever after k bytes
// ------------------------------------------------------------------------------------------------

/// the model's configuration for a query on these lines: (variant, per-line rows, fault-free output)
fn model_table(q: &str, mode: &str, lines: &[Vec<u8>], agg: bool) -> Option<(&'static str, Vec<Option<Vec<u8>>>, Vec<u8>)> {
    let all: Vec<u8> = lines.concat();
    let full = imp::run(q, &all, mode, 30);
    if !full.compiled || full.panicked.is_some() || full.hung || full.error_lines != 0 {
        return None;
    }
    let f = full.stdout;
    if agg {
        // one final write: the whole table (the model's aggFinal appends the newline)
        if lines.is_empty() || f.last() != Some(&b'\n') {
            return None;
        }
        let mut t: Vec<Option<Vec<u8>>> = vec![None; lines.len()];
        t[0] = Some(f[..f.len() - 1].to_vec());
        return Some(("agg", t, f));
    }
    let rows = split_rows(&f);
    let (base, head) = match q.rsplit_once(" | limit ") {
        Some((b, n)) => (b, n.trim().parse::<usize>().ok()),
        None => (q, None),
    };
    let mut table = vec![];
    let mut k = 0usize;
    for l in lines {
        let alone = imp::run(base, l, "json", 10);
        let survives = !alone.stdout.is_empty() && head.map(|h| k < h).unwrap_or(true);
        if survives {
            table.push(Some(rows.get(k)?.clone()));
            k += 1;
        } else {
            table.push(None);
        }
    }
    if k != rows.len() {
        return None;
    }
    Some(("rec", table, f))
}

fn wide_lines(n: usize, width: usize) -> Vec<Vec<u8>> {
    (0..n)
        .map(|i| {
            let k = if i % 7 == 0 { "a" } else if i % 3 == 0 { "b" } else { "c" };
            format!("{{\"k\":\"{}\",\"n\":{},\"pad\":\"{}\"}}\n", k, i, "é".repeat(width)).into_bytes()
        })
        .collect()
}

fn check_sink_faults(ctx: &mut Ctx, w: &mut Witnesses) {
    // (name, query, aggregate?)
    let mut queries: Vec<(&str, &str, bool)> = vec![("record", "* | json", false), ("aggregate", "* | json | count by k", true)];
    let mut inputs: Vec<(String, Vec<Vec<u8>>)> = vec![("12".into(), input_lines(12))];
    if ctx.thorough() || w.only.is_some() {
        queries.extend_from_slice(&[
            ("record-filtered", "* | json | where n >= 3", false),
            ("record-fields", "* | json | fields k", false),
            ("record-limit", "* | json | limit 5", false),
            ("record-none", "* | json | where n > 1000", false),
            ("aggregate-total", "* | json | count", true),
            ("aggregate-sum", "* | json | sum(n) by k", true),
            ("aggregate-limit", "* | json | count by k | limit 2", true),
        ]);
        inputs.push(("1".into(), input_lines(1)));
        inputs.push(("3".into(), input_lines(3)));
        inputs.push(("40".into(), input_lines(40)));
        inputs.push(("wide".into(), wide_lines(9, 150)));
    }
    let mut job = 0usize;
    for (iname, lines) in inputs.iter() {
        let all: Vec<u8> = lines.concat();
        for (qname, q, agg) in queries.iter() {
            for (mname, mode) in MODES {
                let cname = format!("{}/{}/{}", qname, mname, iname);
                let (variant, table, f) = match model_table(q, mode, lines, *agg) {
                    Some(t) => t,
                    None => {
                        ctx.case("sink-fault", "", "skip", json!({"why": "no per-line table for this combination", "combo": cname}));
                        continue;
                    }
                };
                let step = if f.len() <= 2048 { 1 } else { 1 + f.len() / 1024 };
                let mut ks: Vec<usize> = (0..=f.len()).step_by(step).collect();
                // every line boundary in any case
                for (i, b) in f.iter().enumerate() {
                    if *b == b'\n' {
                        ks.push(i);
                        ks.push(i + 1);
                    }
                }
                ks.push(f.len());
                ks.push(f.len() + 7); // no fault at all
                ks.sort();
                ks.dedup();
                for k in ks {
                    job += 1;
                    let key = format!("{}:k={}", cname, k);
                    if job % ctx.nshards != ctx.shard || w.skip(&key) {
                        continue;
                    }
                    let sink = Sink::failing_at(k);
                    // input either whole or released line by line through the gate (other interleavings)
                    let gated = k % 3 == 1;
                    let run = if gated {
                        let gate = Gate::default();
                        for l in lines {
                            gate.release(l);
                        }
                        gate.eof();
                        start(q, mode, gate.reader(), sink.clone())
                    } else {
                        start(q, mode, BufReader::new(Cursor::new(all.clone())), sink.clone())
                    };
                    let info = json!({"combo": cname, "query": q, "mode": mode, "fault_offset": k, "output_len": f.len(), "lines": lines.len()});
                    let o = match run.wait(Duration::from_secs(30)) {
                        None => {
                            ctx.case("sink-fault", &key, "viol", json!({"class": "C17/no-termination-finite-input", "what": "finite input, failing sink: process() did not return within 30 s", "case": info}));
                            continue;
                        }
                        Some(o) => o,
                    };
                    let got = sink.bytes();
                    // the model's prediction
                    let m = model_sched(ctx, variant, 1000, &table, &[], &[all.clone()], Some(k), None, ctx.seed ^ (k as u64 * 7919));
                    let model_panics = m.rend == "panicked" || m.reader == "panicked" || m.join_err;
                    let f_ok = m.ok && m.written == hexb(&got) && m.errs + m.rd_errs == o.error_lines && model_panics == o.panicked.is_some() && m.reader == "done";
                    if !f_ok {
                        ctx.case("sink-fault", &key, "fdis", json!({"what": "model and implementation disagree on (bytes written, error lines, panic) for this fault offset",
                            "impl": {"written_hex": hexb(&got[..got.len().min(200)]), "written_len": got.len(), "error_lines": o.error_lines, "panic": o.panicked},
                            "model": m.raw.chars().take(300).collect::<String>(), "case": info}));
                        continue;
                    }
                    // P-level
                    if let Some(p) = &o.panicked {
                        ctx.case("sink-fault", &key, "viol", json!({"class": "C17/json-writer-expect-panic", "what": "a write error panics a thread instead of ending the run with an error line",
                            "panic": p, "stderr": o.stderr, "case": info, "input_hex": hexb(&all[..all.len().min(600)])}));
                        continue;
                    }
                    if o.error_lines > 1 || got != f[..k.min(f.len())] {
                        ctx.case("sink-fault", &key, "viol", json!({"class": "C17/unclean-fault-handling", "what": "more than one error line, or bytes written are not the first k bytes of the fault-free output",
                            "error_lines": o.error_lines, "written_len": got.len(), "stderr": o.stderr, "case": info}));
                        continue;
                    }
                    ctx.case("sink-fault", &key, "pass", json!({"case": info, "error_lines": o.error_lines, "failed_writes": sink.failed_writes()}));
                }
            }
        }
    }
}

// ------------------------------------------------------------------------------------------------
// in-process: endless input, closed output
// ------------------------------------------------------------------------------------------------

fn check_endless_inproc(ctx: &mut Ctx, w: &mut Witnesses) {
    let block: Vec<u8> = input_lines(50).concat();
    // (name, query, mode, fault offset, model says the run ends)
    let cases: Vec<(&str, &str, &str, usize, bool)> = vec![
        ("records/logfmt", "* | json", "logfmt", 0, true),
        ("records/logfmt-k100", "* | json", "logfmt", 100, true),
        ("records/legacy", "* | json", "legacy", 37, true),
        ("records/format", "* | json", "format={k}{n}", 11, true),
        ("records/filter-some", "* | json | where n > 40", "logfmt", 5, true),
        ("where-false", "* | json | where n > 1000", "logfmt", 0, false),
        ("limit-1-satisfied", "* | json | limit 1", "logfmt", 3, false),
        ("aggregate", "* | json | count by k", "logfmt", 0, false),
        ("keyword-never", "nosuchword", "logfmt", 0, false),
    ];
    for (j, (name, q, mode, k, ends)) in cases.iter().enumerate() {
        let key = format!("endless:{}", name);
        if j % ctx.nshards != ctx.shard || w.skip(&key) {
            continue;
        }
        let gate = Gate::default();
        gate.endless(block.clone());
        let sink = Sink::failing_at(*k);
        let run = start(q, mode, gate.reader(), sink.clone());
        let info = json!({"case": name, "query": q, "mode": mode, "fault_offset": k, "input": "endless (50-line block repeated)"});
        if *ends {
            let o = run.wait(CEILING);
            gate.eof();
            match o {
                None => {
                    let _ = run.wait(Duration::from_secs(30));
                    ctx.case("endless-inproc", &key, "viol", json!({"class": "C17/no-stop-although-rows-sent", "what": "rows keep surviving, the sink failed, but process() did not return within 10 s", "case": info}));
                }
                Some(o) => {
                    if o.panicked.is_some() || o.error_lines != 1 || sink.len() != *k {
                        ctx.case("endless-inproc", &key, "viol", json!({"class": "C17/unclean-fault-handling", "what": "endless input with a failing sink did not end with exactly one error line and k bytes out",
                            "panic": o.panicked, "error_lines": o.error_lines, "written": sink.len(), "case": info}));
                    } else {
                        ctx.case("endless-inproc", &key, "pass", json!({"case": info, "secs": o.secs, "bytes_consumed": gate.consumed()}));
                    }
                }
            }
        } else {
            // model (C17_unbounded_*): the reader never attempts a send, so it never stops
            let o = run.wait(Duration::from_millis(1500));
            let c1 = gate.consumed();
            std::thread::sleep(Duration::from_millis(300));
            let c2 = gate.consumed();
            let failed = sink.failed_writes();
            gate.eof(); // let it finish so that no thread is left behind
            let end = run.wait(Duration::from_secs(60));
            match o {
                None if c2 > c1 => {
                    w.finding(ctx, "endless-inproc", &key, "C17/unbounded-run-after-consumer-closed",
                        json!({"what": "the output is closed, no (further) row reaches the channel, the reader keeps consuming endless input and never stops",
                               "bytes_consumed_after_1.5s": c1, "bytes_consumed_after_1.8s": c2, "failed_writes_seen": failed,
                               "finished_after_eof": end.is_some(), "case": info}));
                }
                None => ctx.case("endless-inproc", &key, "fdis", json!({"what": "run neither ended nor kept consuming", "case": info})),
                Some(_) => ctx.case("endless-inproc", &key, "fdis", json!({"what": "the model predicts an endless run (nothing is ever sent) but the implementation stopped", "case": info})),
            }
        }
    }
}

// ------------------------------------------------------------------------------------------------
// in-process: the input fails at line j
// ------------------------------------------------------------------------------------------------

fn check_read_faults(ctx: &mut Ctx, w: &mut Witnesses) {
    let nl = if ctx.thorough() || w.only.is_some() { 14 } else { 8 };
    let lines = input_lines(nl);
    let mut job = 0;
    // a run that does not end costs the full watchdog time (and leaks its threads): after two of
    // them the family stops, the violation is already established
    let mut hangs = 0;
    for (q, mode, agg) in [
        ("* | json", "logfmt", false),
        ("* | json", "json", false),
        ("* | json", "legacy", false),
        ("* | json | where n >= 3", "format={k}{n}", false),
        ("* | json | limit -2", "logfmt", false),
        ("* | json | count", "logfmt", true),
        ("* | json | count by k", "json", true),
    ] {
        for j in 0..=lines.len() {
            for partial in [false, true] {
                job += 1;
                let key = format!("read-error:{}:{}:line={}:partial={}", q, mode, j, partial);
                if job % ctx.nshards != ctx.shard || w.skip(&key) {
                    continue;
                }
                if hangs >= 2 {
                    ctx.case("read-fault", &key, "skip", json!({"why": "two earlier cases of this family did not end; not run"}));
                    continue;
                }
                let gate = Gate::default();
                for l in &lines[..j] {
                    gate.release(l);
                }
                if partial && j < lines.len() {
                    gate.release(&lines[j][..5]); // the error arrives in the middle of a line
                }
                gate.fail();
                let sink = Sink::default();
                let run = start(q, mode, gate.reader(), sink.clone());
                let info = json!({"query": q, "mode": mode, "error_at_line": j, "inside_a_line": partial});
                let o = match run.wait(Duration::from_secs(30)) {
                    None => {
                        ctx.case("read-fault", &key, "viol", json!({"class": "C17/no-termination-finite-input", "what": "read error: process() did not return within 30 s", "case": info}));
                        hangs += 1;
                        continue;
                    }
                    Some(o) => o,
                };
                // a clean stop: the rows of the lines read before the error, as if the input had ended there
                let before: Vec<u8> = lines[..j].concat();
                let expect = imp::run(q, &before, mode, 10).stdout;
                let got = sink.bytes();
                if o.panicked.is_some() || o.error_lines != 1 || got != expect {
                    ctx.case("read-fault", &key, "viol", json!({"class": "C17/read-error-unwrap-panic", "what": "a read error must end the run with exactly one error line, no panic, and the output of the lines read before it",
                        "panic": o.panicked, "error_lines": o.error_lines, "stderr": o.stderr, "expected": String::from_utf8_lossy(&expect), "got": String::from_utf8_lossy(&got), "case": info}));
                    continue;
                }
                // F-level: the model with a read fault at line j
                if q.contains("limit -") {
                    // tail rows come out of the drain loop
                    let m = model_sched(ctx, "rec", 1000, &vec![None; j], &split_rows(&expect), &[before.clone()], None, Some(j), ctx.seed ^ j as u64);
                    if !m.ok || m.written != hexb(&got) || m.rd_errs != 1 || m.errs != 0 || m.reader != "done" {
                        ctx.case("read-fault", &key, "fdis", json!({"what": "model and implementation disagree on a read error", "model": m.raw.chars().take(300).collect::<String>(), "case": info}));
                        continue;
                    }
                } else if let Some((variant, table, _)) = model_table(q, mode, &lines[..j], agg) {
                    let m = model_sched(ctx, variant, 1000, &table, &[], &[before.clone()], None, Some(j), ctx.seed ^ j as u64);
                    if !m.ok || m.written != hexb(&got) || m.rd_errs != 1 || m.errs != 0 || m.reader != "done" {
                        ctx.case("read-fault", &key, "fdis", json!({"what": "model and implementation disagree on a read error", "model": m.raw.chars().take(300).collect::<String>(), "case": info}));
                        continue;
                    }
                }
                ctx.case("read-fault", &key, "pass", json!({"case": info, "error_lines": o.error_lines, "bytes": got.len()}));
            }
        }
    }
}

// ------------------------------------------------------------------------------------------------
// subprocess
// ------------------------------------------------------------------------------------------------

fn big_row_input(n: usize, width: usize) -> Vec<u8> {
    let pad = "x".repeat(width);
    let mut s = String::new();
    for i in 0..n {
        s.push_str(&format!("{{\"k\":\"a\",\"n\":{},\"pad\":\"{}\"}}\n", i, pad));
    }
    s.into_bytes()
}

fn scratch_dir() -> String {
    let d = format!("/verif/harness/target/scratch/c17-{}", std::process::id());
    let _ = std::fs::create_dir_all(&d);
    d
}

fn check_binary(ctx: &mut Ctx, w: &mut Witnesses) {
    #[derive(Clone)]
    struct Job {
        name: String,
        args: Vec<String>,
        endless: bool,
        input: Vec<u8>,
        close_after: Option<usize>,
        /// what the model says: "exits", "endless", "read-error", "usage"
        expect: &'static str,
    }
    let mut jobs: Vec<Job> = vec![];
    let finite: Vec<u8> = input_lines(20000).concat();
    let block: Vec<u8> = input_lines(200).concat();
    let sv = |v: &[&str]| v.iter().map(|s| s.to_string()).collect::<Vec<String>>();
    // closed stdout after k bytes: record and aggregate pipelines × modes × finite / endless input
    for (mname, mode) in MODES {
        let rec_probe = imp::run("* | json", &input_lines(4).concat(), mode, 10).stdout;
        let mut ks: Vec<usize> = vec![0, 1];
        for (i, b) in rec_probe.iter().enumerate() {
            if *b == b'\n' {
                ks.push(i);
                ks.push(i + 1);
            }
        }
        ks.push(70000); // beyond one pipe buffer
        if !ctx.thorough() && w.only.is_none() {
            ks = vec![0, *ks.get(2).unwrap_or(&1), *ks.get(3).unwrap_or(&2), 70000];
        }
        ks.sort();
        ks.dedup();
        for k in ks {
            jobs.push(Job { name: format!("closed/record/{}/finite/k={}", mname, k), args: sv(&["* | json", "-o", mode]), endless: false, input: finite.clone(), close_after: Some(k), expect: "exits" });
            jobs.push(Job { name: format!("closed/record/{}/endless/k={}", mname, k), args: sv(&["* | json", "-o", mode]), endless: true, input: block.clone(), close_after: Some(k), expect: "exits" });
        }
        for k in [0usize, 3] {
            jobs.push(Job { name: format!("closed/aggregate/{}/finite/k={}", mname, k), args: sv(&["* | json | count by n", "-o", mode]), endless: false, input: finite.clone(), close_after: Some(k), expect: "exits" });
        }
    }
    // slow endless input (a line every 120 ms, so the renderer idles between rows): the write error
    // of the first row after the consumer went away must end the run — it must not be lost in a
    // buffer or swallowed by an idle-time flush
    for (mname, mode) in MODES {
        jobs.push(Job { name: format!("closed/record/{}/slow-endless/k=1", mname), args: sv(&["* | json", "-o", mode]), endless: true, input: block.clone(), close_after: Some(1), expect: "exits-slow" });
    }
    jobs.push(Job { name: "closed/record/where/slow-endless/k=1".into(), args: sv(&["* | json | where n >= 0 | fields n", "-o", "logfmt"]), endless: true, input: block.clone(), close_after: Some(1), expect: "exits-slow" });
    // rows larger than stdout's line buffer, -o json
    // rows larger than a pipe buffer: the write is blocked *inside* a row when the consumer goes away
    jobs.push(Job { name: "closed/record/json-rows-70000B/finite/k=10".into(), args: sv(&["* | json", "-o", "json"]), endless: false, input: big_row_input(60, 70000), close_after: Some(10), expect: "exits" });
    jobs.push(Job { name: "closed/record/logfmt-rows-70000B/finite/k=10".into(), args: sv(&["* | json", "-o", "logfmt"]), endless: false, input: big_row_input(60, 70000), close_after: Some(10), expect: "exits" });
    // rows larger than stdout's 1 KiB line buffer: whether EPIPE arrives inside a row is a race
    jobs.push(Job { name: "closed/record/json-rows-5000B/finite/k=10".into(), args: sv(&["* | json", "-o", "json"]), endless: false, input: big_row_input(400, 5000), close_after: Some(10), expect: "exits" });
    // endless input, nothing (more) to send
    jobs.push(Job { name: "closed/where-false/endless".into(), args: sv(&["* | json | where n > 100000", "-o", "logfmt"]), endless: true, input: block.clone(), close_after: Some(0), expect: "endless" });
    jobs.push(Job { name: "closed/limit-1/endless".into(), args: sv(&["* | json | limit 1", "-o", "logfmt"]), endless: true, input: block.clone(), close_after: Some(3), expect: "endless" });
    jobs.push(Job { name: "closed/aggregate/endless".into(), args: sv(&["* | json | count", "-o", "logfmt"]), endless: true, input: block.clone(), close_after: Some(0), expect: "endless" });
    // unreadable inputs and invalid command lines
    let dir = scratch_dir();
    jobs.push(Job { name: "file/missing".into(), args: sv(&["*", "--file", "/verif/harness/target/scratch/does-not-exist"]), endless: false, input: vec![], close_after: None, expect: "usage" });
    jobs.push(Job { name: "file/directory".into(), args: sv(&["*", "--file", &dir]), endless: false, input: vec![], close_after: None, expect: "read-error" });
    jobs.push(Job { name: "args/unknown-flag".into(), args: sv(&["*", "--no-such-flag"]), endless: false, input: vec![], close_after: None, expect: "usage" });
    jobs.push(Job { name: "args/output-bogus".into(), args: sv(&["*", "-o", "bogus"]), endless: false, input: vec![], close_after: None, expect: "usage" });
    jobs.push(Job { name: "args/output-format-empty".into(), args: sv(&["*", "-o", "format="]), endless: false, input: vec![], close_after: None, expect: "usage" });
    jobs.push(Job { name: "args/output-and-format".into(), args: sv(&["*", "-o", "json", "--format", "x"]), endless: false, input: vec![], close_after: None, expect: "usage" });
    jobs.push(Job { name: "args/no-query".into(), args: vec![], endless: false, input: vec![], close_after: None, expect: "usage" });
    jobs.push(Job { name: "args/bad-query".into(), args: sv(&["* | nosuchoperator"]), endless: false, input: vec![], close_after: None, expect: "usage" });
    jobs.push(Job { name: "args/bad-format-string".into(), args: sv(&["*", "-o", "format={unclosed"]), endless: false, input: vec![], close_after: None, expect: "usage" });

    // endless-and-never-stopping jobs cost the full ceiling: spread them first
    jobs.sort_by_key(|j| if j.expect == "endless" { 0 } else { 1 });
    let mine: Vec<Job> = jobs.into_iter().enumerate().filter(|(i, j)| i % ctx.nshards == ctx.shard && !w.skip(&format!("bin:{}", j.name))).map(|p| p.1).collect();
    if mine.is_empty() {
        let _ = std::fs::remove_dir_all(&dir);
        return;
    }
    let bin = match ensure_binary() {
        Ok(b) => b,
        Err(e) => {
            ctx.case("binary", "", "skip", json!({"why": "binary not available", "err": e}));
            let _ = std::fs::remove_dir_all(&dir);
            return;
        }
    };
    for j in mine {
        let feed = if j.expect == "exits-slow" {
            Feed::Paced(j.input.clone(), 120)
        } else if j.endless {
            Feed::Endless(j.input.clone())
        } else {
            Feed::Finite(j.input.clone())
        };
        let t0 = Instant::now();
        let o = run_proc(&bin, &j.args, feed, j.close_after, 0, CEILING);
        let info = json!({"case": j.name, "args": j.args, "input": if j.endless { "endless" } else { "finite" }, "input_bytes_per_round": j.input.len(),
                          "close_stdout_after": j.close_after, "proc": o.summary(), "wall_s": t0.elapsed().as_secs_f64()});
        let key = format!("bin:{}", j.name);
        let clean = !o.timed_out && !o.crashed() && o.error_lines() <= 1 && o.stderr.lines().count() <= 12;
        match j.expect {
            "exits" | "exits-slow" => {
                if clean {
                    ctx.case("binary", &key, "pass", info);
                } else if o.timed_out {
                    ctx.case("binary", &key, "viol", json!({"class": "C17/no-stop-although-rows-sent", "what": "stdout closed, rows keep being produced, but the binary did not exit within 10 s", "case": info}));
                } else if o.crashed() && j.args.iter().any(|a| a == "json") {
                    ctx.case("binary", &key, "viol", json!({"class": "C17/json-writer-expect-panic", "what": "closed stdout with -o json record output: panic instead of a clean stop", "case": info}));
                } else {
                    ctx.case("binary", &key, "viol", json!({"class": "C17/unclean-fault-handling", "what": "closed stdout: crash, more than one error line, or a multi-line report", "case": info}));
                }
            }
            "endless" => {
                if o.timed_out && !o.crashed() {
                    w.finding(ctx, "binary", &key, "C17/unbounded-run-after-consumer-closed",
                        json!({"what": "stdout was closed by the consumer; the binary kept reading endless input and had to be killed after 10 s", "case": info}));
                } else if clean {
                    ctx.case("binary", &key, "fdis", json!({"what": "the model predicts an endless run but the binary stopped by itself", "case": info}));
                } else {
                    ctx.case("binary", &key, "viol", json!({"class": "C17/unclean-fault-handling", "what": "crash on closed stdout", "case": info}));
                }
            }
            "read-error" => {
                // `--file <directory>`: the first read fails (EISDIR) → one error line, clean end
                if clean && o.error_lines() == 1 && o.stdout.is_empty() {
                    ctx.case("binary", &key, "pass", info);
                } else {
                    ctx.case("binary", &key, "viol", json!({"class": "C17/read-error-unwrap-panic", "what": "a directory as input must end with one error line and no crash", "case": info}));
                }
            }
            _ => {
                // an error message and a clean non-zero exit
                let ok = !o.timed_out && !o.crashed() && o.status.map(|s| s != 0).unwrap_or(false) && !o.stderr.trim().is_empty() && o.stdout.is_empty();
                if ok {
                    ctx.case("binary", &key, "pass", info);
                } else {
                    ctx.case("binary", &key, "viol", json!({"class": "C17/bad-invocation-not-reported", "what": "unreadable input / invalid command line: expected an error message and a clean non-zero exit", "case": info}));
                }
            }
        }
    }
    let _ = std::fs::remove_dir_all(&dir);
}

pub fn check(ctx: &mut Ctx) {
    let mut w = Witnesses { reported: Default::default(), only: super::c15::replay_key(ctx) };
    check_binary(ctx, &mut w);
    check_sink_faults(ctx, &mut w);
    check_read_faults(ctx, &mut w);
    check_endless_inproc(ctx, &mut w);
}
