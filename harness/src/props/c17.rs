//! C17: I/O faults end the run cleanly.
//!
//! Oracles on the real code (P-level): the run terminates, at most one `error:` line per fault, no
//! panic / crash report, clean exit status.  F-level: the Lean model (AgModel/Sched.lean via
//! `SCHED`) predicts, for the same fault, the bytes that got out and the number of error lines of
//! the renderer and of the reader; Props/C17.lean proves what holds for every schedule
//! (`C17_no_panic`, `C17_at_most_one_error_line`, `C17_read_error_clean`, …) and gives the
//! counterexample that is reproduced here as the listed open finding:
//!   C17/unbounded-run-after-consumer-closed  design-level: the reader learns of a closed output
//!                                            only by a failing send; no row sent ⇒ never  (verdict `known`)
//! Repaired, now checked as ordinary oracles (a regression is a `viol` with the old class):
//!   C17/json-writer-expect-panic   /repo 1b6cc1e  (JsonPrinter `.expect` on a write error)
//!   C17/read-error-unwrap-panic    /repo 566c084  (`read_until(..).unwrap()`, `--file <directory>`)
use super::c15::{ensure_binary, model_sched, run_proc, split_rows, start, Feed, Gate, Sink};
use crate::enc::hexb;
use crate::imp;
use crate::Ctx;
use serde_json::json;
use std::io::{BufReader, Cursor};
use std::time::{Duration, Instant};

const CEILING: Duration = Duration::from_secs(10);

fn input_lines(n: usize) -> Vec<Vec<u8>> {
    (0..n)
        .map(|i| {
            // group sizes pairwise different (no ties in the implicit sort of `count by k`)
            let k = if i % 7 == 0 { "a" } else if i % 3 == 0 { "b" } else { "c" };
            format!("{{\"k\":\"{}\",\"n\":{}}}\n", k, i).into_bytes()
        })
        .collect()
}

const MODES: &[(&str, &str)] = &[("legacy", "legacy"), ("json", "json"), ("logfmt", "logfmt"), ("format", "format={k}:{n}:{_count}")];

struct Witnesses {
    reported: std::collections::BTreeMap<String, usize>,
    /// `--replay FILE`: only the case with this key is run
    only: Option<String>,
}

impl Witnesses {
    fn skip(&self, key: &str) -> bool {
        match &self.only {
            Some(k) => k != key,
            None => false,
        }
    }
    /// report a reproduced witness of the listed open finding `class` (verdict `known`):
    /// the first witnesses in full, the rest compactly
    fn finding(&mut self, ctx: &mut Ctx, fam: &str, key: &str, class: &str, info: serde_json::Value) {
        let n = self.reported.entry(class.to_string()).or_insert(0);
        *n += 1;
        if *n <= 2 {
            let mut i = info;
            i["class"] = json!(class);
            ctx.case(fam, key, "known", i);
        } else {
            ctx.case(fam, key, "known", json!({"class": class, "what": info["what"], "case": info["case"], "note": "further witness of the same class"}));
        }
    }
}

// ------------------------------------------------------------------------------------------------
// in-process: the sink fails for ever after k bytes
// ------------------------------------------------------------------------------------------------

/// the model's configuration for a query on these lines: (variant, per-line rows, fault-free output)
fn model_table(q: &str, mode: &str, lines: &[Vec<u8>], agg: bool) -> Option<(&'static str, Vec<Option<Vec<u8>>>, Vec<u8>)> {
    let all: Vec<u8> = lines.concat();
    let full = imp::run(q, &all, mode, 30);
    if !full.compiled || full.panicked.is_some() || full.hung || full.error_lines != 0 {
        return None;
    }
    let f = full.stdout;
    if agg {
        // one final write: the whole table (the model's aggFinal appends the newline)
        if lines.is_empty() || f.last() != Some(&b'\n') {
            return None;
        }
        let mut t: Vec<Option<Vec<u8>>> = vec![None; lines.len()];
        t[0] = Some(f[..f.len() - 1].to_vec());
        return Some(("agg", t, f));
    }
    let rows = split_rows(&f);
    let (base, head) = match q.rsplit_once(" | limit ") {
        Some((b, n)) => (b, n.trim().parse::<usize>().ok()),
        None => (q, None),
    };
    let mut table = vec![];
    let mut k = 0usize;
    for l in lines {
        let alone = imp::run(base, l, "json", 10);
        let survives = !alone.stdout.is_empty() && head.map(|h| k < h).unwrap_or(true);
        if survives {
            table.push(Some(rows.get(k)?.clone()));
            k += 1;
        } else {
            table.push(None);
        }
    }
    if k != rows.len() {
        return None;
    }
    Some(("rec", table, f))
}

fn wide_lines(n: usize, width: usize) -> Vec<Vec<u8>> {
    (0..n)
        .map(|i| {
            let k = if i % 7 == 0 { "a" } else if i % 3 == 0 { "b" } else { "c" };
            format!("{{\"k\":\"{}\",\"n\":{},\"pad\":\"{}\"}}\n", k, i, "é".repeat(width)).into_bytes()
        })
        .collect()
}

fn check_sink_faults(ctx: &mut Ctx, w: &mut Witnesses) {
    // (name, query, aggregate?)
    let mut queries: Vec<(&str, &str, bool)> = vec![("record", "* | json", false), ("aggregate", "* | json | count by k", true)];
    let mut inputs: Vec<(String, Vec<Vec<u8>>)> = vec![("12".into(), input_lines(12))];
    if ctx.thorough() || w.only.is_some() {
        queries.extend_from_slice(&[
            ("record-filtered", "* | json | where n >= 3", false),
            ("record-fields", "* | json | fields k", false),
            ("record-limit", "* | json | limit 5", false),
            ("record-none", "* | json | where n > 1000", false),
            ("aggregate-total", "* | json | count", true),
            ("aggregate-sum", "* | json | sum(n) by k", true),
            ("aggregate-limit", "* | json | count by k | limit 2", true),
        ]);
        inputs.push(("1".into(), input_lines(1)));
        inputs.push(("3".into(), input_lines(3)));
        inputs.push(("40".into(), input_lines(40)));
        inputs.push(("wide".into(), wide_lines(9, 150)));
    }
    let mut job = 0usize;
    for (iname, lines) in inputs.iter() {
        let all: Vec<u8> = lines.concat();
        for (qname, q, agg) in queries.iter() {
            for (mname, mode) in MODES {
                let cname = format!("{}/{}/{}", qname, mname, iname);
                let (variant, table, f) = match model_table(q, mode, lines, *agg) {
                    Some(t) => t,
                    None => {
                        ctx.case("sink-fault", "", "skip", json!({"why": "no per-line table for this combination", "combo": cname}));
                        continue;
                    }
                };
                let step = if f.len() <= 2048 { 1 } else { 1 + f.len() / 1024 };
                let mut ks: Vec<usize> = (0..=f.len()).step_by(step).collect();
                // every line boundary in any case
                for (i, b) in f.iter().enumerate() {
                    if *b == b'\n' {
                        ks.push(i);
                        ks.push(i + 1);
                    }
                }
                ks.push(f.len());
                ks.push(f.len() + 7); // no fault at all
                ks.sort();
                ks.dedup();
                for k in ks {
                    job += 1;
                    let key = format!("{}:k={}", cname, k);
                    if job % ctx.nshards != ctx.shard || w.skip(&key) {
                        continue;
                    }
                    let sink = Sink::failing_at(k);
                    // input either whole or released line by line through the gate (other interleavings)
                    let gated = k % 3 == 1;
                    let run = if gated {
                        let gate = Gate::default();
                        for l in lines {
                            gate.release(l);
                        }
                        gate.eof();
                        start(q, mode, gate.reader(), sink.clone())
                    } else {
                        start(q, mode, BufReader::new(Cursor::new(all.clone())), sink.clone())
                    };
                    let info = json!({"combo": cname, "query": q, "mode": mode, "fault_offset": k, "output_len": f.len(), "lines": lines.len()});
                    let o = match run.wait(Duration::from_secs(30)) {
                        None => {
                            ctx.case("sink-fault", &key, "viol", json!({"class": "C17/no-termination-finite-input", "what": "finite input, failing sink: process() did not return within 30 s", "case": info}));
                            continue;
                        }
                        Some(o) => o,
                    };
                    let got = sink.bytes();
                    // the model's prediction
                    let m = model_sched(ctx, variant, 1000, &table, &[], &[all.clone()], Some(k), None, ctx.seed ^ (k as u64 * 7919));
                    let model_panics = m.rend == "panicked" || m.reader == "panicked" || m.join_err;
                    let f_ok = m.ok && m.written == hexb(&got) && m.errs + m.rd_errs == o.error_lines && model_panics == o.panicked.is_some() && m.reader == "done";
                    if !f_ok {
                        ctx.case("sink-fault", &key, "fdis", json!({"what": "model and implementation disagree on (bytes written, error lines, panic) for this fault offset",
                            "impl": {"written_hex": hexb(&got[..got.len().min(200)]), "written_len": got.len(), "error_lines": o.error_lines, "panic": o.panicked},
                            "model": m.raw.chars().take(300).collect::<String>(), "case": info}));
                        continue;
                    }
                    // P-level
                    if let Some(p) = &o.panicked {
                        ctx.case("sink-fault", &key, "viol", json!({"class": "C17/json-writer-expect-panic", "what": "a write error panics a thread instead of ending the run with an error line",
                            "panic": p, "stderr": o.stderr, "case": info, "input_hex": hexb(&all[..all.len().min(600)])}));
                        continue;
                    }
                    if o.error_lines > 1 || got != f[..k.min(f.len())] {
                        ctx.case("sink-fault", &key, "viol", json!({"class": "C17/unclean-fault-handling", "what": "more than one error line, or bytes written are not the first k bytes of the fault-free output",
                            "error_lines": o.error_lines, "written_len": got.len(), "stderr": o.stderr, "case": info}));
                        continue;
                    }
                    ctx.case("sink-fault", &key, "pass", json!({"case": info, "error_lines": o.error_lines, "failed_writes": sink.failed_writes()}));
                }
            }
        }
    }
}

// ------------------------------------------------------------------------------------------------
// in-process: endless input, closed output
// ------------------------------------------------------------------------------------------------

fn check_endless_inproc(ctx: &mut Ctx, w: &mut Witnesses) {
    let block: Vec<u8> = input_lines(50).concat();
    // (name, query, mode, fault offset, model says the run ends)
    let cases: Vec<(&str, &str, &str, usize, bool)> = vec![
        ("records/logfmt", "* | json", "logfmt", 0, true),
        ("records/logfmt-k100", "* | json", "logfmt", 100, true),
        ("records/legacy", "* | json", "legacy", 37, true),
        ("records/format", "* | json", "format={k}{n}", 11, true),
        ("records/filter-some", "* | json | where n > 40", "logfmt", 5, true),
        ("where-false", "* | json | where n > 1000", "logfmt", 0, false),
        ("limit-1-satisfied", "* | json | limit 1", "logfmt", 3, false),
        ("aggregate", "* | json | count by k", "logfmt", 0, false),
        ("keyword-never", "nosuchword", "logfmt", 0, false),
    ];
    for (j, (name, q, mode, k, ends)) in cases.iter().enumerate() {
        let key = format!("endless:{}", name);
        if j % ctx.nshards != ctx.shard || w.skip(&key) {
            continue;
        }
        let gate = Gate::default();
        gate.endless(block.clone());
        let sink = Sink::failing_at(*k);
        let run = start(q, mode, gate.reader(), sink.clone());
        let info = json!({"case": name, "query": q, "mode": mode, "fault_offset": k, "input": "endless (50-line block repeated)"});
        if *ends {
            let o = run.wait(CEILING);
            gate.eof();
            match o {
                None => {
                    let _ = run.wait(Duration::from_secs(30));
                    ctx.case("endless-inproc", &key, "viol", json!({"class": "C17/no-stop-although-rows-sent", "what": "rows keep surviving, the sink failed, but process() did not return within 10 s", "case": info}));
                }
                Some(o) => {
                    if o.panicked.is_some() || o.error_lines != 1 || sink.len() != *k {
                        ctx.case("endless-inproc", &key, "viol", json!({"class": "C17/unclean-fault-handling", "what": "endless input with a failing sink did not end with exactly one error line and k bytes out",
                            "panic": o.panicked, "error_lines": o.error_lines, "written": sink.len(), "case": info}));
                    } else {
                        ctx.case("endless-inproc", &key, "pass", json!({"case": info, "secs": o.secs, "bytes_consumed": gate.consumed()}));
                    }
                }
            }
        } else {
            // model (C17_unbounded_*): the reader never attempts a send, so it never stops
            let o = run.wait(Duration::from_millis(1500));
            let c1 = gate.consumed();
            std::thread::sleep(Duration::from_millis(300));
            let c2 = gate.consumed();
            let failed = sink.failed_writes();
            gate.eof(); // let it finish so that no thread is left behind
            let end = run.wait(Duration::from_secs(60));
            match o {
                None if c2 > c1 => {
                    w.finding(ctx, "endless-inproc", &key, "C17/unbounded-run-after-consumer-closed",
                        json!({"what": "the output is closed, no (further) row reaches the channel, the reader keeps consuming endless input and never stops",
                               "bytes_consumed_after_1.5s": c1, "bytes_consumed_after_1.8s": c2, "failed_writes_seen": failed,
                               "finished_after_eof": end.is_some(), "case": info}));
                }
                None => ctx.case("endless-inproc", &key, "fdis", json!({"what": "run neither ended nor kept consuming", "case": info})),
                Some(_) => ctx.case("endless-inproc", &key, "fdis", json!({"what": "the model predicts an endless run (nothing is ever sent) but the implementation stopped", "case": info})),
            }
        }
    }
}

// ------------------------------------------------------------------------------------------------
// in-process: the input fails at line j
// ------------------------------------------------------------------------------------------------

fn check_read_faults(ctx: &mut Ctx, w: &mut Witnesses) {
    let nl = if ctx.thorough() || w.only.is_some() { 14 } else { 8 };
    let lines = input_lines(nl);
    let mut job = 0;
    // a run that does not end costs the full watchdog time (and leaks its threads): after two of
    // them the family stops, the violation is already established
    let mut hangs = 0;
    for (q, mode, agg) in [
        ("* | json", "logfmt", false),
        ("* | json", "json", false),
        ("* | json", "legacy", false),
        ("* | json | where n >= 3", "format={k}{n}", false),
        ("* | json | limit -2", "logfmt", false),
        ("* | json | count", "logfmt", true),
        ("* | json | count by k", "json", true),
    ] {
        for j in 0..=lines.len() {
            for partial in [false, true] {
                job += 1;
                let key = format!("read-error:{}:{}:line={}:partial={}", q, mode, j, partial);
                if job % ctx.nshards != ctx.shard || w.skip(&key) {
                    continue;
                }
                if hangs >= 2 {
                    ctx.case("read-fault", &key, "skip", json!({"why": "two earlier cases of this family did not end; not run"}));
                    continue;
                }
                let gate = Gate::default();
                for l in &lines[..j] {
                    gate.release(l);
                }
                if partial && j < lines.len() {
                    gate.release(&lines[j][..5]); // the error arrives in the middle of a line
                }
                gate.fail();
                let sink = Sink::default();
                let run = start(q, mode, gate.reader(), sink.clone());
                let info = json!({"query": q, "mode": mode, "error_at_line": j, "inside_a_line": partial});
                let o = match run.wait(Duration::from_secs(30)) {
                    None => {
                        ctx.case("read-fault", &key, "viol", json!({"class": "C17/no-termination-finite-input", "what": "read error: process() did not return within 30 s", "case": info}));
                        hangs += 1;
                        continue;
                    }
                    Some(o) => o,
                };
                // a clean stop: the rows of the lines read before the error, as if the input had ended there
                let before: Vec<u8> = lines[..j].concat();
                let expect = imp::run(q, &before, mode, 10).stdout;
                let got = sink.bytes();
                if o.panicked.is_some() || o.error_lines != 1 || got != expect {
                    ctx.case("read-fault", &key, "viol", json!({"class": "C17/read-error-unwrap-panic", "what": "a read error must end the run with exactly one error line, no panic, and the output of the lines read before it",
                        "panic": o.panicked, "error_lines": o.error_lines, "stderr": o.stderr, "expected": String::from_utf8_lossy(&expect), "got": String::from_utf8_lossy(&got), "case": info}));
                    continue;
                }
                // F-level: the model with a read fault at line j
                if q.contains("limit -") {
                    // tail rows come out of the drain loop
                    let m = model_sched(ctx, "rec", 1000, &vec![None; j], &split_rows(&expect), &[before.clone()], None, Some(j), ctx.seed ^ j as u64);
                    if !m.ok || m.written != hexb(&got) || m.rd_errs != 1 || m.errs != 0 || m.reader != "done" {
                        ctx.case("read-fault", &key, "fdis", json!({"what": "model and implementation disagree on a read error", "model": m.raw.chars().take(300).collect::<String>(), "case": info}));
                        continue;
                    }
                } else if let Some((variant, table, _)) = model_table(q, mode, &lines[..j], agg) {
                    let m = model_sched(ctx, variant, 1000, &table, &[], &[before.clone()], None, Some(j), ctx.seed ^ j as u64);
                    if !m.ok || m.written != hexb(&got) || m.rd_errs != 1 || m.errs != 0 || m.reader != "done" {
                        ctx.case("read-fault", &key, "fdis", json!({"what": "model and implementation disagree on a read error", "model": m.raw.chars().take(300).collect::<String>(), "case": info}));
                        continue;
                    }
                }
                ctx.case("read-fault", &key, "pass", json!({"case": info, "error_lines": o.error_lines, "bytes": got.len()}));
            }
        }
    }
}

// ------------------------------------------------------------------------------------------------
// subprocess
// ------------------------------------------------------------------------------------------------

fn big_row_input(n: usize, width: usize) -> Vec<u8> {
    let pad = "x".repeat(width);
    let mut s = String::new();
    for i in 0..n {
        s.push_str(&format!("{{\"k\":\"a\",\"n\":{},\"pad\":\"{}\"}}\n", i, pad));
    }
    s.into_bytes()
}

fn scratch_dir() -> String {
    let d = format!("/verif/harness/target/scratch/c17-{}", std::process::id());
    let _ = std::fs::create_dir_all(&d);
    d
}

/// run the binary on a command line given as bytes (not necessarily UTF-8), stdin empty
fn run_raw(bin: &str, args: &[Vec<u8>], ceiling: Duration) -> super::c15::ProcOut {
    use std::os::unix::ffi::OsStringExt;
    use std::os::unix::process::ExitStatusExt;
    use std::process::{Command, Stdio};
    let os: Vec<std::ffi::OsString> = args.iter().map(|a| std::ffi::OsString::from_vec(a.clone())).collect();
    let mut out = super::c15::ProcOut::default();
    let mut child = match Command::new(bin).args(&os).env("RUST_BACKTRACE", "0").env_remove("RUST_LOG").stdin(Stdio::null()).stdout(Stdio::piped()).stderr(Stdio::piped()).spawn() {
        Ok(c) => c,
        Err(e) => {
            out.stderr = format!("spawn failed: {}", e);
            return out;
        }
    };
    // a rejected command line prints a few lines: the pipes cannot fill up; a child that does not
    // end within the ceiling is killed and reported as timed out
    let t0 = Instant::now();
    loop {
        match child.try_wait() {
            Ok(Some(_)) => break,
            Ok(None) if t0.elapsed() > ceiling => {
                out.timed_out = true;
                let _ = child.kill();
                break;
            }
            Ok(None) => std::thread::sleep(Duration::from_millis(5)),
            Err(_) => break,
        }
    }
    if let Ok(o) = child.wait_with_output() {
        out.status = o.status.code();
        out.signal = if out.timed_out { None } else { o.status.signal() };
        out.stdout = o.stdout;
        out.stderr = String::from_utf8_lossy(&o.stderr).to_string();
    }
    out
}

/// Command lines with an INVALID value of `-o` / `--format` / `-m`, or that are not UTF-8: each must
/// be answered by an error message and a clean non-zero exit.  A fixed part (one per kind of text)
/// and `ngen` values composed from the same pieces with `seed` (the same list in every shard).
/// Every value here names no output mode / is no format string for the unchanged tool (probed);
/// valid look-alikes (`format=é`, `json=`, `legacy=`) are deliberately absent.
/// `cap`: at most so many lines — the first `CORE` fixed `-o` values, the not-UTF-8 query and `-o`
/// value, and a sample (by `seed`) of all the others.
fn invalid_value_lines(seed: u64, ngen: usize, cap: Option<usize>) -> Vec<(String, Vec<Vec<u8>>)> {
    const CORE: usize = 9;
    // characters whose lower- or upper-case form has another UTF-8 length, or more than one char
    const CASE_LEN: &[&str] = &["\u{212A}", "\u{2126}", "\u{130}", "\u{1E9E}", "\u{DF}", "\u{FB01}", "\u{149}", "\u{23A}", "\u{1F88}"];
    // same length in either case, combining marks, 4-byte characters, invisible ones
    const OTHER: &[&str] = &["\u{E9}", "\u{C9}", "a\u{301}", "\u{301}", "\u{1F600}", "\u{1D518}", "\u{200B}", "\u{FEFF}", "\u{A0}", "\u{10400}", "\u{3A3}"];
    const CTRL: &[&str] = &["\t", "\n", "\r", "\u{1b}[31m", "\u{7f}", "\u{1}", "\u{85}"];
    const MODES: &[&str] = &["json", "logfmt", "legacy", "format"];
    let mut o_values: Vec<String> = vec![];
    // non-ASCII before and after `=`
    for c in CASE_LEN.iter().take(6) {
        o_values.push(format!("{}=x", c));
    }
    o_values.push("\u{2126}=\u{E9}".into());
    o_values.push("\u{130}=\u{E9}".into());
    o_values.push("\u{130}\u{130}=x".into());
    for v in ["=", "=x", "x="] {
        o_values.push(v.into());
    }
    // (the values up to here are the core that is run whatever the cap)
    o_values.push("x=\u{212A}".into());
    o_values.push("\u{E9}=\u{E9}".into());
    o_values.push("a\u{301}=\u{301}".into());
    o_values.push("\u{1F600}=\u{1F600}".into());
    o_values.push("\u{1D518}=x".into());
    // … and without `=`, glued to a mode name
    o_values.push("\u{130}".into());
    o_values.push("json\u{212A}".into());
    o_values.push("\u{FEFF}json".into());
    o_values.push("format\u{212A}={a}".into());
    o_values.push("\u{212A}=format={a}".into());
    // `format=` followed by non-ASCII text that is no format string
    o_values.push("format={\u{E9}".into());
    o_values.push("format={a}}\u{130}".into());
    // empty pieces
    for v in ["==", "", " =json"] {
        o_values.push(v.into());
    }
    // control characters
    for v in ["js\ton", "json\n", "\u{1b}[31m=x", "\u{7f}=\u{1}"] {
        o_values.push(v.into());
    }
    // very long (one argument may have up to 128 KiB)
    o_values.push("x".repeat(100_000));
    o_values.push(format!("{}=x", "\u{212A}".repeat(20_000)));
    o_values.push(format!("format={{{}", "y".repeat(50_000)));
    let mut r = crate::rng::Rng::new(seed ^ 0xC17_A865);
    let piece = |r: &mut crate::rng::Rng| -> String {
        let mut s = String::new();
        for _ in 0..r.below(4) {
            match r.below(10) {
                0..=3 => s.push_str(*r.pick(CASE_LEN)),
                4..=6 => s.push_str(*r.pick(OTHER)),
                7 => s.push_str(*r.pick(CTRL)),
                8 => s.push_str(*r.pick(MODES)),
                _ => s.push_str(*r.pick(&["x", "J", " ", "-", "{", "}"])),
            }
        }
        s
    };
    let mut n = 0;
    let mut tries = 0;
    while n < ngen && tries < ngen * 20 {
        tries += 1;
        let pre = piece(&mut r);
        // a valid mode name before `=` could make the value valid: the name must not be one
        if MODES.contains(&pre.as_str()) {
            continue;
        }
        let v = if r.chance(85) { format!("{}={}", pre, piece(&mut r)) } else { pre };
        if o_values.contains(&v) {
            continue;
        }
        o_values.push(v);
        n += 1;
    }
    let b = |s: &str| s.as_bytes().to_vec();
    let mut lines: Vec<(String, Vec<Vec<u8>>)> = vec![];
    let mut core: Vec<usize> = (0..CORE + 3).collect();
    for (i, v) in o_values.iter().enumerate() {
        // the three spellings of the option in turn
        let (sp, args) = match i % 3 {
            0 => ("-o", vec![b("*"), b("-o"), b(v)]),
            1 => ("--output=", vec![b("*"), b(&format!("--output={}", v))]),
            _ => ("-o,query-last", vec![b("-o"), b(v), b("*")]),
        };
        // `-o ''` attached is `-o` followed by the query: another command line
        let args = if v.is_empty() { vec![b("*"), b("-o"), b("")] } else { args };
        lines.push((format!("args/o-value/{}:{}:{}", i, sp, v.escape_default().to_string().chars().take(48).collect::<String>()), args));
    }
    // the deprecated format flag, both spellings
    let f_values: Vec<String> = vec!["".into(), "{\u{212A}".into(), "\u{212A}={".into(), "{a}}\u{130}".into(), "{a{b}}\u{E9}".into(), "\u{1F600}}".into(), format!("{{{}", "y".repeat(50_000))];
    for (i, v) in f_values.iter().enumerate() {
        let flag = if i % 2 == 0 { "--format" } else { "-m" };
        lines.push((format!("args/format-value/{}:{}:{}", i, flag, v.escape_default().to_string().chars().take(48).collect::<String>()), vec![b("*"), b(flag), b(v)]));
    }
    // not UTF-8: the query, the values, a file name, an option name
    let raw: Vec<(&str, Vec<Vec<u8>>)> = vec![
        ("query", vec![vec![0xff, 0xfe]]),
        ("query-truncated-char", vec![b"* | json \xe2\x84".to_vec(), b("-o"), b("json")]),
        ("o-value", vec![b("*"), b("-o"), b"json\xff".to_vec()]),
        ("o-value-after-kelvin", vec![b("*"), b("-o"), b"\xe2\x84\xaa=\xff".to_vec()]),
        ("format-value", vec![b("*"), b("--format"), b"{a}\xff".to_vec()]),
        ("m-value", vec![b("*"), b("-m"), vec![0xc3]]),
        ("file-name", vec![b("*"), b("--file"), b"/verif/harness/target/scratch/does-not-exist-\xff".to_vec()]),
        ("option-name", vec![b("*"), b"--outp\xff".to_vec()]),
    ];
    for (name, args) in raw {
        if name == "query" || name == "o-value" {
            core.push(lines.len());
        }
        lines.push((format!("args/not-utf8/{}", name), args));
    }
    if let Some(cap) = cap {
        let mut rest: Vec<usize> = (0..lines.len()).filter(|i| !core.contains(i)).collect();
        r.shuffle(&mut rest);
        rest.truncate(cap.saturating_sub(core.len()));
        let mut i = 0;
        lines.retain(|_| {
            i += 1;
            core.contains(&(i - 1)) || rest.contains(&(i - 1))
        });
    }
    lines
}

fn check_binary(ctx: &mut Ctx, w: &mut Witnesses) {
    #[derive(Clone)]
    struct Job {
        name: String,
        args: Vec<String>,
        endless: bool,
        input: Vec<u8>,
        close_after: Option<usize>,
        /// what the model says: "exits", "endless", "read-error", "usage"
        expect: &'static str,
        /// the command line as bytes when it is not valid UTF-8 (then `args` is its lossy text)
        raw: Option<Vec<Vec<u8>>>,
    }
    let mut jobs: Vec<Job> = vec![];
    let finite: Vec<u8> = input_lines(20000).concat();
    let block: Vec<u8> = input_lines(200).concat();
    let sv = |v: &[&str]| v.iter().map(|s| s.to_string()).collect::<Vec<String>>();
    // closed stdout after k bytes: record and aggregate pipelines × modes × finite / endless input
    for (mname, mode) in MODES {
        let rec_probe = imp::run("* | json", &input_lines(4).concat(), mode, 10).stdout;
        let mut ks: Vec<usize> = vec![0, 1];
        for (i, b) in rec_probe.iter().enumerate() {
            if *b == b'\n' {
                ks.push(i);
                ks.push(i + 1);
            }
        }
        ks.push(70000); // beyond one pipe buffer
        if !ctx.thorough() && w.only.is_none() {
            ks = vec![0, *ks.get(2).unwrap_or(&1), *ks.get(3).unwrap_or(&2), 70000];
        }
        ks.sort();
        ks.dedup();
        for k in ks {
            jobs.push(Job { name: format!("closed/record/{}/finite/k={}", mname, k), args: sv(&["* | json", "-o", mode]), endless: false, input: finite.clone(), close_after: Some(k), expect: "exits", raw: None });
            jobs.push(Job { name: format!("closed/record/{}/endless/k={}", mname, k), args: sv(&["* | json", "-o", mode]), endless: true, input: block.clone(), close_after: Some(k), expect: "exits", raw: None });
        }
        for k in [0usize, 3] {
            jobs.push(Job { name: format!("closed/aggregate/{}/finite/k={}", mname, k), args: sv(&["* | json | count by n", "-o", mode]), endless: false, input: finite.clone(), close_after: Some(k), expect: "exits", raw: None });
        }
    }
    // slow endless input (a line every 120 ms, so the renderer idles between rows): the write error
    // of the first row after the consumer went away must end the run — it must not be lost in a
    // buffer or swallowed by an idle-time flush
    for (mname, mode) in MODES {
        jobs.push(Job { name: format!("closed/record/{}/slow-endless/k=1", mname), args: sv(&["* | json", "-o", mode]), endless: true, input: block.clone(), close_after: Some(1), expect: "exits-slow", raw: None });
    }
    jobs.push(Job { name: "closed/record/where/slow-endless/k=1".into(), args: sv(&["* | json | where n >= 0 | fields n", "-o", "logfmt"]), endless: true, input: block.clone(), close_after: Some(1), expect: "exits-slow", raw: None });
    // rows larger than stdout's line buffer, -o json
    // rows larger than a pipe buffer: the write is blocked *inside* a row when the consumer goes away
    // the same endless producer behind `--file`: the input named on the command line need not be a
    // regular file (a pipe handed over as /dev/stdin, /dev/fd/0, /proc/self/fd/0): rows must flow
    // and a closed stdout must stop the run just the same
    for (mname, mode) in MODES.iter().take(3) {
        for dev in ["/dev/stdin", "/dev/fd/0", "/proc/self/fd/0"] {
            for k in [1usize, 300] {
                jobs.push(Job { name: format!("closed/record/{}/file={}/endless/k={}", mname, dev, k), args: sv(&["* | json", "-o", mode, "--file", dev]), endless: true, input: block.clone(), close_after: Some(k), expect: "exits", raw: None });
            }
        }
    }
    jobs.push(Job { name: "closed/record/where/file=/dev/stdin/endless/k=1".into(), args: sv(&["* | json | where n >= 0 | fields n", "-o", "logfmt", "-f", "/dev/stdin"]), endless: true, input: block.clone(), close_after: Some(1), expect: "exits", raw: None });
    jobs.push(Job { name: "closed/record/json-rows-70000B/finite/k=10".into(), args: sv(&["* | json", "-o", "json"]), endless: false, input: big_row_input(60, 70000), close_after: Some(10), expect: "exits", raw: None });
    jobs.push(Job { name: "closed/record/logfmt-rows-70000B/finite/k=10".into(), args: sv(&["* | json", "-o", "logfmt"]), endless: false, input: big_row_input(60, 70000), close_after: Some(10), expect: "exits", raw: None });
    // rows larger than stdout's 1 KiB line buffer: whether EPIPE arrives inside a row is a race
    jobs.push(Job { name: "closed/record/json-rows-5000B/finite/k=10".into(), args: sv(&["* | json", "-o", "json"]), endless: false, input: big_row_input(400, 5000), close_after: Some(10), expect: "exits", raw: None });
    // endless input, nothing (more) to send
    jobs.push(Job { name: "closed/where-false/endless".into(), args: sv(&["* | json | where n > 100000", "-o", "logfmt"]), endless: true, input: block.clone(), close_after: Some(0), expect: "endless", raw: None });
    jobs.push(Job { name: "closed/limit-1/endless".into(), args: sv(&["* | json | limit 1", "-o", "logfmt"]), endless: true, input: block.clone(), close_after: Some(3), expect: "endless", raw: None });
    jobs.push(Job { name: "closed/aggregate/endless".into(), args: sv(&["* | json | count", "-o", "logfmt"]), endless: true, input: block.clone(), close_after: Some(0), expect: "endless", raw: None });
    // unreadable inputs and invalid command lines
    let dir = scratch_dir();
    jobs.push(Job { name: "file/missing".into(), args: sv(&["*", "--file", "/verif/harness/target/scratch/does-not-exist"]), endless: false, input: vec![], close_after: None, expect: "usage", raw: None });
    jobs.push(Job { name: "file/directory".into(), args: sv(&["*", "--file", &dir]), endless: false, input: vec![], close_after: None, expect: "read-error", raw: None });
    jobs.push(Job { name: "args/unknown-flag".into(), args: sv(&["*", "--no-such-flag"]), endless: false, input: vec![], close_after: None, expect: "usage", raw: None });
    jobs.push(Job { name: "args/output-bogus".into(), args: sv(&["*", "-o", "bogus"]), endless: false, input: vec![], close_after: None, expect: "usage", raw: None });
    jobs.push(Job { name: "args/output-format-empty".into(), args: sv(&["*", "-o", "format="]), endless: false, input: vec![], close_after: None, expect: "usage", raw: None });
    jobs.push(Job { name: "args/output-and-format".into(), args: sv(&["*", "-o", "json", "--format", "x"]), endless: false, input: vec![], close_after: None, expect: "usage", raw: None });
    jobs.push(Job { name: "args/no-query".into(), args: vec![], endless: false, input: vec![], close_after: None, expect: "usage", raw: None });
    jobs.push(Job { name: "args/bad-query".into(), args: sv(&["* | nosuchoperator"]), endless: false, input: vec![], close_after: None, expect: "usage", raw: None });
    jobs.push(Job { name: "args/bad-format-string".into(), args: sv(&["*", "-o", "format={unclosed"]), endless: false, input: vec![], close_after: None, expect: "usage", raw: None });
    // format strings whose braces are fine but whose SPEC may not be valid for the text a field is
    // printed as (`{n:.2f}`, `{k:x}`, `{n:+}`, `{k:=8}` …): whether a given spec is accepted is the
    // formatter's business, but the outcome must be one of two — rejected at start-up with a message,
    // or accepted and every row printed; never a crash once the first row arrives
    {
        let mut r = crate::rng::Rng::new(ctx.seed ^ 0xF0A3_17);
        let nspec = if ctx.thorough() || w.only.is_some() { 160 } else { 28 };
        for i in 0..nspec {
            let mut spec = String::new();
            if r.chance(40) {
                if r.chance(40) {
                    spec.push(*r.pick(&['_', '*', ' ', '0', 'x']));
                }
                spec.push(*r.pick(&['<', '>', '^', '=']));
            }
            if r.chance(25) {
                spec.push(*r.pick(&['+', '-', ' ']));
            }
            if r.chance(15) {
                spec.push('#');
            }
            if r.chance(15) {
                spec.push('0');
            }
            if r.chance(50) {
                spec.push_str(&r.range(0, 24).to_string());
            }
            if r.chance(12) {
                spec.push(',');
            }
            if r.chance(40) {
                spec.push('.');
                spec.push_str(&r.range(0, 6).to_string());
            }
            if r.chance(60) {
                spec.push(*r.pick(&['s', 'f', 'e', 'E', 'x', 'X', 'b', 'o', 'd', 'n', '%', 'g', 'c', '?']));
            }
            let field = *r.pick(&["n", "k", "n", "k", "_count"]);
            let fmt = format!("format=[{{{}:{}}}] {{k}}", field, spec);
            let (q, rows): (&str, usize) = *r.pick(&[("* | json", 6usize), ("* | json | count by k", 1), ("* | json | where n >= 0", 1), ("* | json | sum(n) as n by k", 1)]);
            let args = if r.chance(25) { sv(&[q, "--format", &fmt["format=".len()..]]) } else { sv(&[q, "-o", &fmt]) };
            let _ = rows;
            jobs.push(Job { name: format!("args/format-spec/{}/{}", i, spec), args, endless: false, input: block.clone(), close_after: None, expect: "usage-or-clean", raw: None });
        }
    }
    // invalid values of -o / --format / -m (text a shell passes on unchanged: non-ASCII, empty
    // pieces, control characters, very long) and command lines that are not UTF-8
    let full = ctx.thorough() || w.only.is_some();
    for (name, args) in invalid_value_lines(ctx.seed, if full { 120 } else { 8 }, if full { None } else { Some(40) }) {
        let text: Vec<String> = args.iter().map(|a| String::from_utf8_lossy(a).to_string()).collect();
        let raw = if args.iter().all(|a| std::str::from_utf8(a).is_ok()) { None } else { Some(args) };
        jobs.push(Job { name, args: text, endless: false, input: vec![], close_after: None, expect: "usage", raw });
    }

    // endless-and-never-stopping jobs cost the full ceiling: spread them first
    jobs.sort_by_key(|j| if j.expect == "endless" { 0 } else { 1 });
    let mine: Vec<Job> = jobs.into_iter().enumerate().filter(|(i, j)| i % ctx.nshards == ctx.shard && !w.skip(&format!("bin:{}", j.name))).map(|p| p.1).collect();
    if mine.is_empty() {
        let _ = std::fs::remove_dir_all(&dir);
        return;
    }
    let bin = match ensure_binary() {
        Ok(b) => b,
        Err(e) => {
            ctx.case("binary", "", "skip", json!({"why": "binary not available", "err": e}));
            let _ = std::fs::remove_dir_all(&dir);
            return;
        }
    };
    for j in mine {
        let feed = if j.expect == "exits-slow" {
            Feed::Paced(j.input.clone(), 120)
        } else if j.endless {
            Feed::Endless(j.input.clone())
        } else {
            Feed::Finite(j.input.clone())
        };
        let t0 = Instant::now();
        let o = match &j.raw {
            Some(raw) => run_raw(&bin, raw, CEILING),
            None => run_proc(&bin, &j.args, feed, j.close_after, 0, CEILING),
        };
        // long values are cut in the report; the case name and the seed re-create them
        let shown: Vec<String> = j.args.iter().map(|a| if a.len() > 300 { format!("{}… ({} bytes)", a.chars().take(60).collect::<String>(), a.len()) } else { a.clone() }).collect();
        let info = json!({"case": j.name, "args": shown, "args_hex": j.raw.as_ref().map(|r| r.iter().map(|a| hexb(&a[..a.len().min(200)])).collect::<Vec<String>>()), "input": if j.endless { "endless" } else { "finite" }, "input_bytes_per_round": j.input.len(),
                          "close_stdout_after": j.close_after, "proc": o.summary(), "wall_s": t0.elapsed().as_secs_f64()});
        let key = format!("bin:{}", j.name);
        let clean = !o.timed_out && !o.crashed() && o.error_lines() <= 1 && o.stderr.lines().count() <= 12;
        match j.expect {
            "exits" | "exits-slow" => {
                if clean {
                    ctx.case("binary", &key, "pass", info);
                } else if o.timed_out {
                    ctx.case("binary", &key, "viol", json!({"class": "C17/no-stop-although-rows-sent", "what": "stdout closed, rows keep being produced, but the binary did not exit within 10 s", "case": info}));
                } else if o.crashed() && j.args.iter().any(|a| a == "json") {
                    ctx.case("binary", &key, "viol", json!({"class": "C17/json-writer-expect-panic", "what": "closed stdout with -o json record output: panic instead of a clean stop", "case": info}));
                } else {
                    ctx.case("binary", &key, "viol", json!({"class": "C17/unclean-fault-handling", "what": "closed stdout: crash, more than one error line, or a multi-line report", "case": info}));
                }
            }
            "endless" => {
                if o.timed_out && !o.crashed() {
                    w.finding(ctx, "binary", &key, "C17/unbounded-run-after-consumer-closed",
                        json!({"what": "stdout was closed by the consumer; the binary kept reading endless input and had to be killed after 10 s", "case": info}));
                } else if clean {
                    ctx.case("binary", &key, "fdis", json!({"what": "the model predicts an endless run but the binary stopped by itself", "case": info}));
                } else {
                    ctx.case("binary", &key, "viol", json!({"class": "C17/unclean-fault-handling", "what": "crash on closed stdout", "case": info}));
                }
            }
            "read-error" => {
                // `--file <directory>`: the first read fails (EISDIR) → one error line, clean end
                if clean && o.error_lines() == 1 && o.stdout.is_empty() {
                    ctx.case("binary", &key, "pass", info);
                } else {
                    ctx.case("binary", &key, "viol", json!({"class": "C17/read-error-unwrap-panic", "what": "a directory as input must end with one error line and no crash", "case": info}));
                }
            }
            "usage-or-clean" => {
                let rejected = !o.timed_out && !o.crashed() && o.status.map(|s| s != 0).unwrap_or(false) && !o.stderr.trim().is_empty() && o.stdout.is_empty();
                let ran = !o.timed_out && !o.crashed() && o.status == Some(0) && !o.stdout.is_empty() && !String::from_utf8_lossy(&o.stdout).lines().any(|l| l.starts_with("Error:"));
                if rejected || ran {
                    ctx.count(if rejected { "format-spec:rejected-at-start" } else { "format-spec:accepted-and-printed" });
                    ctx.case("binary", &key, "pass", info);
                } else {
                    ctx.case("binary", &key, "viol", json!({"class": "C17/format-spec-accepted-then-crash", "what": "a format string must either be rejected at start-up (message, non-zero exit, no output) or be applied to every row: crash, `Error:` on stdout or no output at all", "case": info}));
                }
            }
            _ => {
                // an error message and a clean non-zero exit
                let ok = !o.timed_out && !o.crashed() && o.status.map(|s| s != 0).unwrap_or(false) && !o.stderr.trim().is_empty() && o.stdout.is_empty();
                if ok {
                    ctx.case("binary", &key, "pass", info);
                } else {
                    ctx.case("binary", &key, "viol", json!({"class": "C17/bad-invocation-not-reported", "what": "unreadable input / invalid command line: expected an error message and a clean non-zero exit", "case": info}));
                }
            }
        }
    }
    let _ = std::fs::remove_dir_all(&dir);
}

pub fn check(ctx: &mut Ctx) {
    let mut w = Witnesses { reported: Default::default(), only: super::c15::replay_key(ctx) };
    check_binary(ctx, &mut w);
    check_sink_faults(ctx, &mut w);
    check_read_faults(ctx, &mut w);
    check_endless_inproc(ctx, &mut w);
}
