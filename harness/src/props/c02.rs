//! C02: filters select exactly the matching lines.
//!
//! F-level (model vs implementation, verdict `fdis`):
//!   kw-regex       `Keyword::to_regex().as_str()` = model `KW`
//!   kw-match       `regex.is_match` / `regex.captures` = model `MATCH` on (keyword, line) pairs
//!   kw-exhaustive  the same over every keyword (len 1..=4) x line (len 0..=4) of a 7-letter alphabet (thorough)
//!   filter-e2e     `<filter>` and `<filter> | count`, documented parenthesised forms, through RUN
//!   filter-chain   unparenthesised chains / stray juxtaposition, through RUN
//! P-level (implementation vs the property text, verdict `viol`; no model, no regex crate):
//!   kw-spec        `is_match` = kw_spec                          C02/keyword-match-differs-from-spec
//!   filter-ast     parsed AST = the generator's intended tree     C02/filter-grammar-differs-from-documented
//!   filter-sel     `agrind '<filter>'` prints exactly the selected lines, in order   C02/selected-lines-differ
//!   filter-count   `_count` = number of selected lines            C02/count-differs
//!   filter-badutf8-sel / -count   the same two on lines that are not valid UTF-8: the line the filter
//!                  judges is the lossily decoded text (each invalid sequence = U+FFFD, exactly
//!                  `String::from_utf8_lossy`), so a wildcard gap spans such bytes like any other text
//!   filter-big-input-sel / -stdin / -count   the REAL BINARY on 9 KB .. 2 MB files (`--file P` and `< P`):
//!                  lines and characters across its 8 KiB read buffer, lines longer than the buffer;
//!                  selected lines byte for byte in input order, `--file P` = `< P`, `| count`
//!                  C02/selected-lines-differ, C02/file-differs-from-stdin, C02/count-differs
//!   any panic / hang                                              C02/crash
use super::common::*;
use super::kwgen::{self, Kind, Passes};
use crate::enc;
use crate::imp;
use crate::rng::Rng;
use crate::Ctx;
use serde_json::json;

fn kw_info(kind: Kind, text: &str, line: &str) -> serde_json::Value {
    json!({"kind": kind.name(), "keyword": text, "keyword_hex": enc::hex(text), "line": line, "line_hex": enc::hex(line)})
}

/* ------------------------------------------------------------------------------------------ */
/* (a) + (b): keyword level                                                                    */
/* ------------------------------------------------------------------------------------------ */

/// one keyword text, one kind: the regex text, then `lines` against the model and the oracle
fn keyword_case(ctx: &mut Ctx, ps: &mut Passes, r: &mut Rng, kind: Kind, text: &str, nlines: usize) {
    let kkey = format!("{}:{}", kind.name(), enc::hex(text));
    let re = match kwgen::impl_regex(kind, text) {
        Ok(re) => re,
        Err(p) => {
            ctx.case("kw-regex", &kkey, "viol", json!({"class": "C02/crash", "what": "Keyword::to_regex panicked", "panic": p, "kind": kind.name(), "keyword": text, "keyword_hex": enc::hex(text)}));
            return;
        }
    };
    // (a)
    let want = ctx.drv.ask(&format!("KW\t{}\t{}", kind.name(), enc::hex(text)));
    let got = format!("RE {}", enc::hex(re.as_str()));
    if want.starts_with("SKIP") {
        ctx.case("kw-regex", "", "skip", json!({"why": kwgen::skip_why(&want)}));
    } else if want == got {
        ps.pass(ctx, "kw-regex", &kkey, || json!({"kind": kind.name(), "keyword": text, "regex": re.as_str()}));
    } else {
        let model_re = want.strip_prefix("RE ").map(|h| String::from_utf8_lossy(&enc::unhex(h)).into_owned());
        ctx.case("kw-regex", &kkey, "fdis", json!({"what": "regex text differs", "kind": kind.name(), "keyword": text, "keyword_hex": enc::hex(text),
            "impl": re.as_str(), "model": model_re, "model_raw": want}));
    }
    // (b)
    for _ in 0..nlines {
        let line = kwgen::gen_line(r, kind, text);
        pair_case(ctx, ps, kind, text, &re, &line, "kw-match", "kw-spec");
    }
}

fn pair_case(ctx: &mut Ctx, ps: &mut Passes, kind: Kind, text: &str, re: &regex::Regex, line: &str, ffam: &str, pfam: &str) {
    let key = format!("{}:{}:{}", kind.name(), enc::hex(text), enc::hex(line));
    let (is_m, caps) = match kwgen::impl_match(re, line) {
        Ok(x) => x,
        Err(p) => {
            let mut i = kw_info(kind, text, line);
            i["class"] = json!("C02/crash");
            i["what"] = json!("regex matching panicked");
            i["panic"] = json!(p);
            ctx.case(ffam, &key, "viol", i);
            return;
        }
    };
    ctx.count(if is_m { "kw-match:matched" } else { "kw-match:unmatched" });
    // F-level
    let req = format!("MATCH\t{}\t{}\t{}", kind.name(), enc::hex(text), enc::hex(line));
    let model = ctx.drv.ask(&req);
    let got = kwgen::match_answer(&caps);
    if model.starts_with("SKIP") {
        ctx.case(ffam, "", "skip", json!({"why": kwgen::skip_why(&model)}));
    } else if model == got && is_m == caps.is_some() {
        ps.pass(ctx, ffam, &key, || kw_info(kind, text, line));
    } else {
        let mut i = kw_info(kind, text, line);
        i["what"] = json!(if is_m != caps.is_some() { "is_match and captures disagree" } else { "match / captures differ" });
        i["request"] = json!(req);
        i["impl"] = json!(got);
        i["impl_is_match"] = json!(is_m);
        i["model"] = json!(model);
        i["regex"] = json!(re.as_str());
        ctx.case(ffam, &key, "fdis", i);
    }
    // P-level
    if kwgen::has_nonascii_cased(text) || kwgen::has_nonascii_cased(line) {
        ctx.case(pfam, "", "skip", json!({"why": "cased non-ASCII letter (the oracle is ASCII-case only)"}));
        return;
    }
    let spec = kwgen::kw_spec(kind, text, line);
    if spec == is_m {
        ps.pass(ctx, pfam, &key, || kw_info(kind, text, line));
    } else {
        let mut i = kw_info(kind, text, line);
        i["class"] = json!("C02/keyword-match-differs-from-spec");
        i["what"] = json!(format!("the implementation says {}, the property's reading says {}", is_m, spec));
        i["regex"] = json!(re.as_str());
        ctx.case(pfam, &key, "viol", i);
    }
}

fn kw_stream(ctx: &mut Ctx, ps: &mut Passes) {
    // 700 texts x 2 kinds x 3 lines = 4200 pairs (quick)
    let n = ctx.budget(700, 35000);
    for _ in 0..n {
        let mut r = ctx.rng.fork();
        let text = kwgen::gen_keyword(&mut r);
        for kind in [Kind::Exact, Kind::Wild] {
            keyword_case(ctx, ps, &mut r, kind, &text, 3);
        }
    }
}

fn words(alpha: &[char], min: usize, max: usize) -> Vec<String> {
    let mut out = vec![];
    let mut cur: Vec<String> = vec![String::new()];
    for len in 0..=max {
        if len >= min {
            out.extend(cur.iter().cloned());
        }
        if len < max {
            let mut next = vec![];
            for w in &cur {
                for c in alpha {
                    let mut x = w.clone();
                    x.push(*c);
                    next.push(x);
                }
            }
            cur = next;
        }
    }
    out
}

fn exhaustive(ctx: &mut Ctx, ps: &mut Passes) {
    let alpha = ['a', 'A', '*', '.', ' ', '\t', '"'];
    let kws = words(&alpha, 1, 4);
    let lines = words(&alpha, 0, 4);
    for (i, text) in kws.iter().enumerate() {
        if i % ctx.nshards != ctx.shard {
            continue;
        }
        for kind in [Kind::Exact, Kind::Wild] {
            let key = format!("{}:{}", kind.name(), enc::hex(text));
            let re = match kwgen::impl_regex(kind, text) {
                Ok(re) => re,
                Err(p) => {
                    ctx.case("kw-exhaustive", &key, "viol", json!({"class": "C02/crash", "what": "Keyword::to_regex panicked", "panic": p, "keyword": text}));
                    continue;
                }
            };
            let want = ctx.drv.ask(&format!("KW\t{}\t{}", kind.name(), enc::hex(text)));
            let mut bad: Option<serde_json::Value> = None;
            let mut bad_spec: Option<serde_json::Value> = None;
            if want != format!("RE {}", enc::hex(re.as_str())) {
                bad = Some(json!({"what": "regex text differs", "impl": re.as_str(), "model_raw": want}));
            }
            let mut skipped = 0usize;
            for line in &lines {
                let (is_m, caps) = match kwgen::impl_match(&re, line) {
                    Ok(x) => x,
                    Err(p) => {
                        bad_spec = Some(json!({"class": "C02/crash", "what": "regex matching panicked", "panic": p, "line": line}));
                        break;
                    }
                };
                if bad.is_none() {
                    let req = format!("MATCH\t{}\t{}\t{}", kind.name(), enc::hex(text), enc::hex(line));
                    let model = ctx.drv.ask(&req);
                    let got = kwgen::match_answer(&caps);
                    if model.starts_with("SKIP") {
                        skipped += 1;
                    } else if model != got {
                        bad = Some(json!({"what": "match / captures differ", "request": req, "line": line, "line_hex": enc::hex(line), "impl": got, "model": model}));
                    }
                }
                if bad_spec.is_none() {
                    let spec = kwgen::kw_spec(kind, text, line);
                    if spec != is_m {
                        bad_spec = Some(json!({"class": "C02/keyword-match-differs-from-spec", "line": line, "line_hex": enc::hex(line),
                            "what": format!("the implementation says {}, the property's reading says {}", is_m, spec)}));
                    }
                }
            }
            let base = json!({"kind": kind.name(), "keyword": text, "keyword_hex": enc::hex(text), "lines": lines.len(), "skipped_by_model": skipped});
            match bad {
                None => ps.pass(ctx, "kw-exhaustive", &key, || base.clone()),
                Some(mut b) => {
                    b["case"] = base.clone();
                    ctx.case("kw-exhaustive", &key, "fdis", b)
                }
            }
            match bad_spec {
                None => ps.pass(ctx, "kw-exhaustive-spec", &key, || base.clone()),
                Some(mut b) => {
                    b["case"] = base.clone();
                    ctx.case("kw-exhaustive-spec", &key, "viol", b)
                }
            }
        }
    }
}

/* ------------------------------------------------------------------------------------------ */
/* filter trees                                                                                */
/* ------------------------------------------------------------------------------------------ */

/// the generator's tree; `src` is the spelling of a keyword in the query
#[derive(Clone, Debug)]
enum T {
    Kw { kind: Kind, text: String, src: String },
    And(Vec<T>),
    Or(Vec<T>),
    Not(Box<T>),
}

/// canonical tree: what both the intended tree and the parsed AST are reduced to before they are
/// compared (bare keyword `*`-trimmed, empty keyword = True = And([]), And flattened)
#[derive(Clone, Debug, PartialEq)]
enum C {
    True,
    Kw(Kind, String),
    And(Vec<C>),
    Or(Vec<C>),
    Not(Box<C>),
}

fn c_and(items: Vec<C>) -> C {
    let mut flat = vec![];
    for i in items {
        match i {
            C::True => {}
            C::And(v) => flat.extend(v),
            o => flat.push(o),
        }
    }
    match flat.len() {
        0 => C::True,
        1 => flat.pop().unwrap(),
        _ => C::And(flat),
    }
}

fn c_or(mut items: Vec<C>) -> C {
    if items.iter().any(|i| *i == C::True) {
        // `x OR <every line>` is every line
        return C::True;
    }
    let mut flat = vec![];
    for i in items.drain(..) {
        match i {
            C::Or(v) => flat.extend(v),
            o => flat.push(o),
        }
    }
    if flat.len() == 1 {
        flat.pop().unwrap()
    } else {
        C::Or(flat)
    }
}

fn canon_t(t: &T) -> C {
    match t {
        T::Kw { kind: Kind::Wild, text, .. } => {
            let tr = text.trim_matches('*');
            if tr.is_empty() {
                C::True
            } else {
                C::Kw(Kind::Wild, tr.to_string())
            }
        }
        T::Kw { kind: Kind::Exact, text, .. } => {
            if text.is_empty() {
                C::True
            } else {
                C::Kw(Kind::Exact, text.clone())
            }
        }
        T::And(v) => c_and(v.iter().map(canon_t).collect()),
        T::Or(v) => c_or(v.iter().map(canon_t).collect()),
        T::Not(x) => C::Not(Box::new(canon_t(x))),
    }
}

fn canon_search(s: &ag::lang::Search) -> C {
    match s {
        ag::lang::Search::And(v) => c_and(v.iter().map(canon_search).collect()),
        ag::lang::Search::Or(v) => c_or(v.iter().map(canon_search).collect()),
        ag::lang::Search::Not(x) => C::Not(Box::new(canon_search(x))),
        ag::lang::Search::Keyword(k) => {
            let (text, kind) = k.verif_parts();
            C::Kw(if kind == 0 { Kind::Exact } else { Kind::Wild }, text.to_string())
        }
    }
}

fn show(c: &C) -> String {
    match c {
        C::True => "TRUE".into(),
        C::Kw(k, t) => format!("{}{:?}", if *k == Kind::Exact { "exact" } else { "wild" }, t),
        C::And(v) => format!("AND({})", v.iter().map(show).collect::<Vec<_>>().join(", ")),
        C::Or(v) => format!("OR({})", v.iter().map(show).collect::<Vec<_>>().join(", ")),
        C::Not(x) => format!("NOT({})", show(x)),
    }
}

fn sem(c: &C, line: &str) -> bool {
    match c {
        C::True => true,
        C::Kw(k, t) => kwgen::kw_spec(*k, t, line),
        C::And(v) => v.iter().all(|x| sem(x, line)),
        C::Or(v) => v.iter().any(|x| sem(x, line)),
        C::Not(x) => !sem(x, line),
    }
}

fn c_keywords(c: &C, out: &mut Vec<(Kind, String)>) {
    match c {
        C::True => {}
        C::Kw(k, t) => out.push((*k, t.clone())),
        C::And(v) | C::Or(v) => v.iter().for_each(|x| c_keywords(x, out)),
        C::Not(x) => c_keywords(x, out),
    }
}

const BARE: &[char] = &['-', '_', ':', '/', '.', '+', '@', '#', '$', '%', '^'];

/// bare keywords that merely START with a reserved filter word: they are ordinary keywords
const RESERVED_PREFIXED: &[&str] = &[
    "NOT_FOUND", "NOTICE", "NOTHING", "NOT-NULL", "NOTa", "NOT1", "ANDROID", "AND_x", "ANDa", "ORDER", "ORacle", "OR1", "OR_b", "CANNOT", "XOR", "BAND",
];

fn bare_keyword(r: &mut Rng) -> String {
    if r.chance(10) {
        return (*r.pick(RESERVED_PREFIXED)).to_string();
    }
    let mut s = String::new();
    if r.chance(10) {
        s.push('*');
    }
    let n = 1 + r.below(4);
    for i in 0..n {
        if i > 0 && r.chance(22) {
            s.push('*');
            if r.chance(10) {
                s.push('*');
            }
        }
        if r.chance(72) {
            s.push(*r.pick(kwgen::ALNUM));
        } else {
            s.push(*r.pick(BARE));
        }
    }
    if r.chance(12) {
        s.push('*');
    }
    s
}

fn quoted_text(r: &mut Rng) -> String {
    // shorter than the keyword-level stream: a line has to contain several of them
    let mut t = kwgen::gen_keyword(r);
    if r.chance(70) {
        t = t.chars().filter(|c| !kwgen::nonascii_cased(*c)).collect();
    }
    let n = 1 + r.below(5);
    let t = kwgen::truncate_chars(&t, n);
    if t.is_empty() {
        "b".to_string()
    } else {
        t
    }
}

fn gen_kw(r: &mut Rng, star_ok: bool) -> T {
    match r.below(100) {
        0..=1 if star_ok => T::Kw { kind: Kind::Wild, text: "*".into(), src: (if r.chance(70) { "*" } else { "**" }).into() },
        0..=54 => {
            let s = bare_keyword(r);
            T::Kw { kind: Kind::Wild, text: s.clone(), src: s }
        }
        _ => {
            let t = quoted_text(r);
            let src = kwgen::quote_any(r, &t);
            T::Kw { kind: Kind::Exact, text: t, src }
        }
    }
}

/// the same text once bare (a wildcard pattern) and once quoted (literal), possibly in another
/// letter case: two different keywords that anything keyed by the text alone would confuse
fn twin_keywords(r: &mut Rng) -> Vec<T> {
    let mut s = String::new();
    for i in 0..(2 + r.below(2)) {
        if i > 0 {
            s.push('*');
        }
        for _ in 0..(1 + r.below(2)) {
            s.push(*r.pick(kwgen::ALNUM));
        }
    }
    let other: String = if r.chance(40) { s.chars().map(|c| if c.is_ascii_lowercase() { c.to_ascii_uppercase() } else { c.to_ascii_lowercase() }).collect() } else { s.clone() };
    let bare = T::Kw { kind: Kind::Wild, text: s.clone(), src: s };
    let src = kwgen::quote_any(r, &other);
    let quoted = T::Kw { kind: Kind::Exact, text: other, src };
    let neg = |r: &mut Rng, t: T| if r.chance(35) { T::Not(Box::new(t)) } else { t };
    if r.chance(50) {
        vec![neg(r, bare), neg(r, quoted)]
    } else {
        vec![neg(r, quoted), neg(r, bare)]
    }
}

fn gen_tree(r: &mut Rng, depth: usize, star_ok: bool) -> T {
    if depth == 0 || r.chance(30) {
        return gen_kw(r, star_ok);
    }
    if r.chance(8) {
        let mut kids = twin_keywords(r);
        if r.chance(30) {
            kids.push(gen_tree(r, depth - 1, star_ok));
        }
        return if r.chance(50) { T::And(kids) } else { T::Or(kids) };
    }
    match r.below(10) {
        0..=3 => {
            let n = if r.chance(20) { 3 } else { 2 };
            T::And((0..n).map(|_| gen_tree(r, depth - 1, star_ok)).collect())
        }
        4..=6 => {
            let n = if r.chance(20) { 3 } else { 2 };
            T::Or((0..n).map(|_| gen_tree(r, depth - 1, star_ok)).collect())
        }
        _ => T::Not(Box::new(gen_tree(r, depth - 1, star_ok))),
    }
}

/// is there a bare keyword made of `*` only among the query's operands (outside quotes)?
fn has_star_operand(query: &str) -> bool {
    let mut in_q: Option<char> = None;
    let mut esc = false;
    let mut word = String::new();
    let mut words = vec![];
    for c in query.chars() {
        if let Some(q) = in_q {
            if esc {
                esc = false;
            } else if c == '\\' {
                esc = true;
            } else if c == q {
                in_q = None;
            }
            continue;
        }
        if c == '"' || c == '\'' {
            in_q = Some(c);
            word.push('q');
        } else if c.is_whitespace() || c == '(' || c == ')' {
            if !word.is_empty() {
                words.push(std::mem::take(&mut word));
            }
        } else {
            word.push(c);
        }
    }
    if !word.is_empty() {
        words.push(word);
    }
    words.len() > 1 && words.iter().any(|w| w.chars().all(|c| c == '*'))
}

fn sp(r: &mut Rng) -> &'static str {
    match r.below(12) {
        0 => "  ",
        1 => "\t",
        2 => " \n ",
        _ => " ",
    }
}

fn paren(r: &mut Rng, body: String) -> String {
    // blanks are allowed inside the parentheses
    match r.below(8) {
        0 => format!("( {} )", body),
        1 => format!("({} )", body),
        2 => format!("(\t{})", body),
        _ => format!("({})", body),
    }
}

/// Render `t` where the grammar expects level `need`: 0 = an OR chain may stand bare, 1 = an AND
/// chain may stand bare, 2 = only a keyword, `NOT x` or a parenthesised expression.
/// `loose`: leave out every pair of parentheses the precedence NOT > AND > OR makes redundant;
/// otherwise every AND / OR node below the top is parenthesised.
fn render(r: &mut Rng, t: &T, need: usize, loose: bool) -> String {
    match t {
        T::Kw { src, .. } => {
            if r.chance(8) {
                paren(r, src.clone())
            } else {
                src.clone()
            }
        }
        T::Not(x) => {
            let inner = format!("NOT{}{}", sp(r), render(r, x, 2, loose));
            if r.chance(if loose { 15 } else { 50 }) {
                paren(r, inner)
            } else {
                inner
            }
        }
        T::And(v) => {
            let child = if loose { 1 } else { 2 };
            let mut body = String::new();
            for (i, x) in v.iter().enumerate() {
                if i > 0 {
                    body.push_str(sp(r));
                    body.push_str("AND");
                    body.push_str(sp(r));
                }
                body.push_str(&render(r, x, child, loose));
            }
            if need <= 1 {
                body
            } else {
                paren(r, body)
            }
        }
        T::Or(v) => {
            let child = if loose { 0 } else { 2 };
            let mut body = String::new();
            for (i, x) in v.iter().enumerate() {
                if i > 0 {
                    body.push_str(sp(r));
                    body.push_str("OR");
                    body.push_str(sp(r));
                }
                body.push_str(&render(r, x, child, loose));
            }
            if need == 0 {
                body
            } else {
                paren(r, body)
            }
        }
    }
}

/// filter in documented form: (intended tree, query text, loose?)
fn gen_filter(r: &mut Rng) -> (T, String, bool) {
    if r.chance(4) {
        return (T::Kw { kind: Kind::Wild, text: "*".into(), src: "*".into() }, "*".to_string(), false);
    }
    let star_ok = r.chance(12);
    let loose = r.chance(35);
    let depth = r.below(5);
    if r.chance(30) {
        // juxtaposition of 2..3 terms at the top level
        let n = 2 + r.below(2);
        let terms: Vec<T> = (0..n).map(|_| gen_tree(r, depth.min(2), star_ok)).collect();
        let q = terms.iter().map(|t| render(r, t, 2, loose)).collect::<Vec<_>>().join(sp(r));
        (T::And(terms), q, loose)
    } else {
        let t = gen_tree(r, depth, star_ok);
        // the top-level node may go without its parentheses
        let need = if loose || r.chance(50) { 0 } else { 2 };
        let q = render(r, &t, need, loose);
        (t, q, loose)
    }
}

/// unparenthesised chains, NOT in odd places, stray juxtaposition: whatever the parser makes of it
fn gen_chain(r: &mut Rng, depth: usize) -> String {
    let n = 2 + r.below(3);
    let mut parts: Vec<String> = vec![];
    for i in 0..n {
        if i > 0 {
            match r.below(10) {
                0..=3 => parts.push("AND".into()),
                4..=6 => parts.push("OR".into()),
                7 => parts.push("NOT".into()),
                _ => {}
            }
        }
        let term = match r.below(10) {
            0 if depth > 0 => format!("({})", gen_chain(r, depth - 1)),
            1 => format!("NOT {}", bare_keyword(r)),
            2 => (*r.pick(&["AND", "OR", "NOT", "and", "or", "not", "*", "\"AND\"", "NOT NOT a"])).to_string(),
            3 | 4 => {
                let t = quoted_text(r);
                kwgen::quote_any(r, &t)
            }
            _ => bare_keyword(r),
        };
        parts.push(term);
    }
    parts.join(" ")
}

/* ------------------------------------------------------------------------------------------ */
/* input lines                                                                                 */
/* ------------------------------------------------------------------------------------------ */

struct Input {
    bytes: Vec<u8>,
    /// each line with its terminator as the filter has to judge it: the bytes decoded lossily (every
    /// invalid UTF-8 sequence stands for one U+FFFD, `String::from_utf8_lossy`)
    lines: Vec<String>,
}

/// byte sequences that are not valid UTF-8: stray bytes, a lone lead byte, truncated 3- and 4-byte
/// sequences, overlong forms, a surrogate, a value above U+10FFFF, latin-1 letters
const BAD_SEQS: &[&[u8]] = &[
    &[0xff],
    &[0xff, 0xfe],
    &[0x80],
    &[0xc3],
    &[0xe2, 0x82],
    &[0xf0, 0x9f, 0x98],
    &[0xf0, 0x9f],
    &[0xc0, 0xaf],
    &[0xe0, 0x80, 0xaf],
    &[0xf0, 0x80, 0x80, 0xaf],
    &[0xed, 0xa0, 0x80],
    &[0xf4, 0x90, 0x80, 0x80],
    &[0xe9],
    &[0xc3, 0xff],
    &[0xbf, 0xbf, 0xbf],
];

/// stand-in of `BAD_SEQS[i]` while a line is still built as text (private-use characters: no
/// generator produces them)
fn bad_char(i: usize) -> char {
    char::from_u32(0xE000 + i as u32).unwrap()
}

fn some_bad(r: &mut Rng) -> char {
    bad_char(r.below(BAD_SEQS.len()))
}

/// the bytes of a line built with `bad_char` stand-ins
fn real_bytes(l: &str) -> Vec<u8> {
    let mut out = vec![];
    for c in l.chars() {
        let i = (c as u32).wrapping_sub(0xE000) as usize;
        if i < BAD_SEQS.len() {
            out.extend_from_slice(BAD_SEQS[i]);
        } else {
            let mut b = [0u8; 4];
            out.extend_from_slice(c.encode_utf8(&mut b).as_bytes());
        }
    }
    out
}

fn gen_input(r: &mut Rng, kws: &[(Kind, String)]) -> Input {
    let n = 5 + r.below(16);
    let bad_utf8 = r.chance(20);
    let cased = r.chance(6);
    let mut bytes = vec![];
    let mut lines = vec![];
    for i in 0..n {
        let mut l = String::new();
        // invalid bytes at chosen places of this line: inside the gaps a wildcard has to span, next to
        // the literal pieces, inside a piece (which then is no occurrence), at line start / end
        let bad_here = bad_utf8 && r.chance(60);
        if r.chance(6) {
            // empty or blank line
            if r.chance(50) {
                l.push_str("  ");
            }
        } else {
            if bad_here && r.chance(15) {
                l.push(some_bad(r));
            }
            if r.chance(50) {
                l.push_str(&kwgen::junk(r, 4));
            }
            for (kind, text) in kws {
                if r.chance(55) {
                    let ps = kwgen::pieces(*kind, text);
                    let dmg = r.chance(18);
                    if bad_here && r.chance(20) {
                        l.push(some_bad(r));
                    }
                    for (j, p) in ps.iter().enumerate() {
                        if j > 0 && bad_here && r.chance(60) {
                            // the gap: invalid bytes alone, or among other text
                            if r.chance(40) {
                                l.push_str(&kwgen::junk(r, 2));
                            }
                            l.push(some_bad(r));
                            if r.chance(25) {
                                l.push(some_bad(r));
                            }
                            if r.chance(40) {
                                l.push_str(&kwgen::junk(r, 2));
                            }
                        } else if j > 0 && r.chance(50) {
                            l.push_str(&kwgen::junk(r, 3));
                        }
                        if dmg && j == 0 {
                            l.push_str(&kwgen::damaged(r, p));
                        } else if bad_here && r.chance(6) && p.chars().count() > 1 {
                            // invalid bytes inside the piece: not an occurrence of it
                            let v: Vec<char> = kwgen::variant(r, p, false).chars().collect();
                            let at = 1 + r.below(v.len() - 1);
                            l.extend(v[..at].iter());
                            l.push(some_bad(r));
                            l.extend(v[at..].iter());
                        } else {
                            l.push_str(&kwgen::variant(r, p, false));
                        }
                    }
                    if bad_here && r.chance(20) {
                        l.push(some_bad(r));
                    }
                    if r.chance(60) {
                        l.push_str(&kwgen::junk(r, 3));
                    }
                }
            }
            if cased && r.chance(30) {
                l.push(*r.pick(kwgen::CASED));
            }
            if bad_here && r.chance(15) {
                l.push(some_bad(r));
            }
        }
        let l: String = kwgen::truncate_chars(&l.replace('\n', " "), 80);
        let mut lb = real_bytes(&l);
        if bad_utf8 && r.chance(20) {
            // anywhere, also in the middle of a multi-byte character
            let at = r.below(lb.len() + 1);
            let junk: &[u8] = *r.pick(BAD_SEQS);
            for (k, b) in junk.iter().enumerate() {
                lb.insert(at + k, *b);
            }
        }
        let term: &str = if i + 1 == n && r.chance(15) {
            ""
        } else if r.chance(8) {
            "\r\n"
        } else {
            "\n"
        };
        if lb.is_empty() && term.is_empty() {
            // no bytes at all: not a line
            continue;
        }
        lb.extend(term.as_bytes());
        lines.push(String::from_utf8_lossy(&lb).into_owned());
        bytes.extend(lb);
    }
    Input { bytes, lines }
}

/// an input of the given lines (each without its terminator)
fn input_of(raw: &[Vec<u8>], last_terminated: bool) -> Input {
    let mut bytes = vec![];
    let mut lines = vec![];
    for (i, l) in raw.iter().enumerate() {
        let mut lb = l.clone();
        if i + 1 < raw.len() || last_terminated {
            lb.extend(if i % 5 == 3 { &b"\r\n"[..] } else { &b"\n"[..] });
        }
        lines.push(String::from_utf8_lossy(&lb).into_owned());
        bytes.extend(lb);
    }
    Input { bytes, lines }
}

fn strip_terminator(l: &str) -> &str {
    let l = l.strip_suffix('\n').unwrap_or(l);
    l.strip_suffix('\r').unwrap_or(l)
}

/* ------------------------------------------------------------------------------------------ */
/* (d): end to end                                                                             */
/* ------------------------------------------------------------------------------------------ */

fn crash_of(run: &imp::ImplRun) -> Option<String> {
    if run.hung {
        Some("hung (no result within the time limit)".into())
    } else {
        run.panicked.clone()
    }
}

fn f_level(ctx: &mut Ctx, ps: &mut Passes, family: &str, query: &str, input: &[u8]) -> RunCmp {
    let c = run_both(ctx, query, input);
    let key = ckey(query, input);
    match compare(&c, true) {
        F::Agree => ps.pass(ctx, family, &key, || case_info(query, input)),
        F::Skip(w) => ctx.case(family, "", "skip", json!({"why": kwgen::skip_why(&w)})),
        F::Disagree(d) => ctx.case(family, &key, "fdis", json!({"what": d, "case": case_info(query, input)})),
    }
    c
}

/// `_count` of an `-o json` `… | count` run (`[]` = 0)
fn count_of(stdout: &[u8]) -> Option<i64> {
    let text = String::from_utf8_lossy(stdout);
    match crate::canon::parse(text.trim()).ok()? {
        crate::canon::J::Arr(rows) => {
            if rows.is_empty() {
                return Some(0);
            }
            if rows.len() != 1 {
                return None;
            }
            match &rows[0] {
                crate::canon::J::Obj(kvs) => kvs.iter().find(|kv| kv.0 == "_count").and_then(|kv| match kv.1 {
                    crate::canon::J::Int(i) => Some(i),
                    _ => None,
                }),
                _ => None,
            }
        }
        _ => None,
    }
}

/// how the printed lines fail to be the selected input lines
enum Mis {
    /// input line `line` is selected under either reading of its terminator, so it has to be printed
    /// at output position `pos` (the furthest position any reading of the terminator-dependent lines
    /// before it allows), and what is printed there is something else
    Missing { line: usize, pos: usize },
    /// the output line at `pos` is explained by no input line
    Extra { pos: usize },
}

struct Aligned {
    mismatch: Option<Mis>,
    /// indices of the input lines selected whichever way the terminator is read
    strict: Vec<usize>,
    /// number of selected lines if every terminator-dependent line is left out / counted
    lo: i64,
    hi: i64,
    ambiguous: usize,
}

/// The reference selection (`sem` on each decoded line) against the printed lines `got`, byte for
/// byte and in input order.
/// A trailing blank of a quoted keyword can be satisfied by the line terminator itself; the
/// property does not say whether the terminator belongs to the line: accept either reading
/// for such a line (counted), demand the common answer everywhere else.
/// The output must be explained by SOME reading of the terminator-dependent lines: the set of
/// output positions reachable after each input line (a greedy match is wrong when such a line
/// shows the same text as a later line that must be printed).
fn align_selection(tree: &C, lines: &[String], got: &[&[u8]]) -> Aligned {
    let mut out = Aligned { mismatch: None, strict: vec![], lo: 0, hi: 0, ambiguous: 0 };
    let mut reach: std::collections::BTreeSet<usize> = std::collections::BTreeSet::new();
    reach.insert(0);
    for (li, l) in lines.iter().enumerate() {
        let with = sem(tree, l);
        let without = sem(tree, strip_terminator(l));
        let shown = l.trim_end().as_bytes();
        let step = |set: &std::collections::BTreeSet<usize>| -> std::collections::BTreeSet<usize> { set.iter().filter(|g| got.get(**g) == Some(&shown)).map(|g| g + 1).collect() };
        if with == without {
            if with {
                out.strict.push(li);
                out.lo += 1;
                out.hi += 1;
                if out.mismatch.is_none() {
                    let next = step(&reach);
                    if next.is_empty() {
                        out.mismatch = Some(Mis::Missing { line: li, pos: *reach.iter().next_back().unwrap_or(&0) });
                    } else {
                        reach = next;
                    }
                }
            }
        } else {
            out.ambiguous += 1;
            out.hi += 1;
            if out.mismatch.is_none() {
                let next = step(&reach);
                reach.extend(next);
            }
        }
    }
    if out.mismatch.is_none() && !reach.contains(&got.len()) {
        out.mismatch = Some(Mis::Extra { pos: *reach.iter().next_back().unwrap_or(&0) });
    }
    out
}

/// the P-level part shared by filter-e2e and filter-chain: `tree` is the tree the expectation is
/// computed from
fn selection_checks(ctx: &mut Ctx, ps: &mut Passes, fam_prefix: &str, query: &str, inp: &Input, tree: &C, legacy: &imp::ImplRun, count_stdout: Option<&[u8]>) {
    let key = ckey(query, &inp.bytes);
    let sel_fam = format!("{}-sel", fam_prefix);
    let cnt_fam = format!("{}-count", fam_prefix);
    let mut kws = vec![];
    c_keywords(tree, &mut kws);
    if std::str::from_utf8(&inp.bytes).is_err() {
        ctx.count(&format!("{}:input-with-invalid-utf8-judged", fam_prefix));
        // coverage: does the verdict of some line hinge on a wildcard gap spanning the invalid bytes
        // (it would change if a gap could not cross them, as it cannot cross a newline)?
        if inp.lines.iter().any(|l| l.contains('\u{FFFD}') && sem(tree, strip_terminator(l)) != sem(tree, &strip_terminator(l).replace('\u{FFFD}', "\n"))) {
            ctx.count(&format!("{}:verdict-hinges-on-invalid-bytes-inside-a-wildcard-gap", fam_prefix));
        }
    }
    if kws.iter().any(|k| kwgen::has_nonascii_cased(&k.1)) || inp.lines.iter().any(|l| kwgen::has_nonascii_cased(l)) {
        ctx.case(&sel_fam, "", "skip", json!({"why": "cased non-ASCII letter (the oracle is ASCII-case only)"}));
        return;
    }
    let got_text = String::from_utf8_lossy(&legacy.stdout).into_owned();
    let got: Vec<&str> = if got_text.is_empty() {
        vec![]
    } else {
        match got_text.strip_suffix('\n') {
            Some(body) => body.split('\n').collect(),
            None => {
                ctx.case(&sel_fam, &key, "viol", json!({"class": "C02/selected-lines-differ", "what": "output does not end with a newline", "got": got_text, "case": case_info(query, &inp.bytes)}));
                return;
            }
        }
    };
    let gotb: Vec<&[u8]> = got.iter().map(|g| g.as_bytes()).collect();
    let al = align_selection(tree, &inp.lines, &gotb);
    let (ambiguous, sel_lo, sel_hi) = (al.ambiguous, al.lo, al.hi);
    let expected_strict: Vec<String> = al.strict.iter().map(|i| inp.lines[*i].trim_end().to_string()).collect();
    let mismatch: Option<String> = match al.mismatch {
        None => None,
        Some(Mis::Missing { line, pos }) => Some(format!("line {:?} should have been printed (output position {} under every reading of the terminator-dependent lines before it), got {:?}", inp.lines[line].trim_end(), pos, got.get(pos))),
        Some(Mis::Extra { pos }) => Some(format!("unexpected extra output line {:?} at position {}", got.get(pos), pos)),
    };
    let selected = got.len() as i64;
    if ambiguous > 0 {
        ctx.count("filter:line-terminator-dependent-case");
    }
    match mismatch {
        Some(w) => {
            ctx.case(&sel_fam, &key, "viol", json!({"class": "C02/selected-lines-differ", "what": w, "tree": show(tree),
                "expected": expected_strict, "got": got, "case": case_info(query, &inp.bytes)}));
        }
        None => ps.pass(ctx, &sel_fam, &key, || json!({"tree": show(tree), "selected": selected, "case": case_info(query, &inp.bytes)})),
    }
    if let Some(cs) = count_stdout {
        match count_of(cs) {
            Some(n) if sel_lo <= n && n <= sel_hi => ps.pass(ctx, &cnt_fam, &key, || json!({"count": n})),
            other => ctx.case(&cnt_fam, &key, "viol", json!({"class": "C02/count-differs", "what": format!("`{} | count` gives {:?}, the filter selects {} line(s){}", query, other, sel_lo,
                    if sel_hi != sel_lo { format!(" (up to {} counting terminator-dependent lines)", sel_hi) } else { String::new() }),
                "tree": show(tree), "got": String::from_utf8_lossy(cs), "case": case_info(query, &inp.bytes)})),
        }
    }
}

fn e2e_case(ctx: &mut Ctx, ps: &mut Passes, chain: bool) {
    let mut r = ctx.rng.fork();
    let fam = if chain { "filter-chain" } else { "filter-e2e" };
    let (intended, query, loose) = if chain {
        (None, gen_chain(&mut r, 2), false)
    } else {
        let (t, q, loose) = gen_filter(&mut r);
        (Some(canon_t(&t)), q, loose)
    };
    // the implementation's own reading of the query
    let parsed = match imp::parse(&query) {
        Ok((p, _)) => p.map(|q| canon_search(&q.search)),
        Err(p) => {
            ctx.case(fam, &ckey(&query, b""), "viol", json!({"class": "C02/crash", "what": "the query parser panicked", "panic": p, "query": query}));
            return;
        }
    };
    let mut kws = vec![];
    if let Some(t) = &intended {
        c_keywords(t, &mut kws);
    }
    if let Some(t) = &parsed {
        let mut more = vec![];
        c_keywords(t, &mut more);
        for k in more {
            if !kws.contains(&k) {
                kws.push(k);
            }
        }
    }
    let inp = gen_input(&mut r, &kws);
    let key = ckey(&query, &inp.bytes);

    // crash stream + the run the selected lines are read from
    let legacy = imp::run(&query, &inp.bytes, "legacy", 10);
    if let Some(p) = crash_of(&legacy) {
        ctx.case(fam, &key, "viol", json!({"class": "C02/crash", "what": "the implementation panicked or hung", "panic": p, "case": case_info(&query, &inp.bytes)}));
        return;
    }

    // F-level
    let c1 = f_level(ctx, ps, fam, &query, &inp.bytes);
    let qc = format!("{} | count", query);
    let c2 = f_level(ctx, ps, fam, &qc, &inp.bytes);
    for c in [&c1, &c2] {
        if let Some(p) = crash_of(&c.imp) {
            ctx.case(fam, &key, "viol", json!({"class": "C02/crash", "what": "the implementation panicked or hung (json mode)", "panic": p, "case": case_info(&query, &inp.bytes)}));
            return;
        }
    }

    // grammar: parsed AST against the intended tree
    let ast_fam = if chain { "filter-chain-ast" } else { "filter-ast" };
    let tree: C = match (&intended, &parsed) {
        (Some(want), Some(got)) => {
            if want == got {
                ps.pass(ctx, ast_fam, &key, || json!({"query": query, "tree": show(want)}));
            } else {
                // does the different reading change the selection on this input?
                let differs = inp.lines.iter().any(|l| sem(want, l) != sem(got, l));
                // `*` as an operand of OR / NOT stands for every line (dropped before repo commit 0ef6700:
                // `a OR *` = `a`, `NOT *` = every line; the finding is fixed, a recurrence is an ordinary violation)
                let star = has_star_operand(&query);
                ctx.case(ast_fam, &key, "viol", json!({"class": if star { "C02/star-operand-dropped" } else if loose { "C02/filter-precedence-differs" } else { "C02/filter-grammar-differs-from-documented" }, "parentheses": if loose { "only where the precedence needs them" } else { "around every AND / OR" },
                    "what": if star { "a `*` operand inside OR / NOT is dropped instead of standing for every line (`a OR *` selects only lines with a, `NOT *` selects every line)" }
                        else { "the parser reads the filter differently from the documented grammar (NOT > AND > OR, juxtaposition = AND, `*` = every line)" },
                    "query": query, "intended": show(want), "parsed": show(got), "selection_differs_on_this_input": differs, "input": String::from_utf8_lossy(&inp.bytes)}));
            }
            if want != got {
                // one report per cause: the selection would only repeat it
                return;
            }
            want.clone()
        }
        (Some(want), None) => {
            ctx.case(ast_fam, &key, "viol", json!({"class": "C02/filter-grammar-differs-from-documented", "what": "a filter in documented form is rejected",
                "query": query, "intended": show(want), "compile_err": legacy.compile_err, "diags": legacy.diags.iter().map(|d| d.0.clone()).collect::<Vec<_>>()}));
            return;
        }
        (None, Some(got)) => got.clone(),
        (None, None) => {
            ctx.case(ast_fam, "", "skip", json!({"why": "chain rejected by the parser"}));
            if legacy.compiled {
                ctx.case(fam, &key, "viol", json!({"class": "C02/filter-grammar-differs-from-documented", "what": "query() rejects the text but Pipeline::new compiled it", "query": query}));
            }
            return;
        }
    };
    if !legacy.compiled {
        ctx.case(ast_fam, &key, "viol", json!({"class": "C02/filter-grammar-differs-from-documented", "what": "the query parses but is rejected at compile time",
            "query": query, "compile_err": legacy.compile_err}));
        return;
    }
    let pfx = if chain { "filter-chain" } else { "filter" };
    let cs = if c2.imp.compiled { Some(c2.imp.stdout.as_slice()) } else { None };
    selection_checks(ctx, ps, pfx, &query, &inp, &tree, &legacy, cs);
}

/// regression witnesses of the fixed finding C02/star-operand-dropped (a `*`-only operand of OR / NOT
/// stands for every line; repo commit 0ef6700): replayed on every run, they must pass
fn star_witnesses(ctx: &mut Ctx) {
    let input = b"a\nb\n";
    let cases: [(&str, &[&str]); 6] =
        [("a OR *", &["a", "b"]), ("NOT *", &[]), ("NOT (a OR **)", &[]), ("a AND *", &["a"]), ("\"\" OR a", &["a", "b"]), ("(NOT *) OR a", &["a"])];
    for (q, want) in cases {
        let run = imp::run(q, input, "legacy", 10);
        let text = String::from_utf8_lossy(&run.stdout).into_owned();
        let got: Vec<&str> = text.lines().collect();
        let info = json!({"class": "C02/star-operand-dropped", "query": q, "input": "a\nb\n", "expected": want, "printed": got,
            "what": "a `*` operand inside OR / NOT is dropped instead of standing for every line"});
        if !run.compiled || run.panicked.is_some() || run.hung {
            ctx.case("filter-star-witness", q, "viol", json!({"class": "C02/crash", "query": q, "what": "witness query rejected, panicked or hung"}));
        } else if got != want.to_vec() {
            ctx.case("filter-star-witness", q, "viol", info);
        } else {
            ctx.case("filter-star-witness", q, "pass", info);
        }
    }
}

/// "for all input lines (any bytes)": fixed filters on lines that carry each kind of invalid byte
/// sequence inside the gap a wildcard spans, next to / inside the literal pieces, at line start and
/// end. The line the filter judges is the lossily decoded text.
fn badutf8_cases(ctx: &mut Ctx, ps: &mut Passes) {
    let w = |t: &str| C::Kw(Kind::Wild, t.to_string());
    let x = |t: &str| C::Kw(Kind::Exact, t.to_string());
    let filters: Vec<(&str, C)> = vec![
        ("start*end", w("start*end")),
        ("NOT start*end", C::Not(Box::new(w("start*end")))),
        ("(start*end OR nothing)", C::Or(vec![w("start*end"), w("nothing")])),
        ("start*end AND NOT ok", C::And(vec![w("start*end"), C::Not(Box::new(w("ok")))])),
        ("NOT (start*end OR only)", C::Not(Box::new(C::Or(vec![w("start*end"), w("only")])))),
        ("s*t*e*d", w("s*t*e*d")),
        ("st*rt*nd", w("st*rt*nd")),
        ("start*ok*end", w("start*ok*end")),
        ("caf*end", w("caf*end")),
        ("start", w("start")),
        ("\"start\"", x("start")),
        ("\"start*end\"", x("start*end")),
        ("\"t e\"", x("t e")),
        ("\"\u{FFFD}\"", x("\u{FFFD}")),
        ("\"t\u{FFFD}e\"", x("t\u{FFFD}e")),
        ("NOT \"\u{FFFD}\"", C::Not(Box::new(x("\u{FFFD}")))),
        ("*", C::True),
    ];
    let cat = |parts: &[&[u8]]| -> Vec<u8> { parts.concat() };
    for (si, seq) in BAD_SEQS.iter().enumerate() {
        if si % ctx.nshards != ctx.shard {
            continue;
        }
        let q: &[u8] = seq;
        let raw: Vec<Vec<u8>> = vec![
            cat(&[b"start", q, b"end"]),
            cat(&[b"start-ok-end"]),
            cat(&[b"nothing here"]),
            cat(&[b"START caf", q, b" END"]),
            cat(&[q, b" start only"]),
            cat(&[b"start ", q, b" end"]),
            cat(&[b"start", q, q, b"end"]),
            cat(&[b"start", q, b"x", q, b"end"]),
            cat(&[q, b"start-end"]),
            cat(&[b"start-end", q]),
            cat(&[q, b"start", q, b"end", q]),
            cat(&[b"start", q]),
            cat(&[q, b"end"]),
            cat(&[b"sta", q, b"rt end"]),
            cat(&[b"start en", q, b"d"]),
            cat(&[q]),
            cat(&[b"end", q, b"start"]),
            cat(&[b"start\xef\xbf\xbdend"]),
            cat(&[b"start", q, b"ok", q, b"end"]),
            cat(&[b"start\xe2\x86\x92", q, b"\xe2\x82\xacend"]),
            cat(&[b"start", q, b"\t", q, b"end ok"]),
        ];
        for last_terminated in [true, false] {
            let inp = input_of(&raw, last_terminated);
            for (query, tree) in &filters {
                if !last_terminated && !query.contains('*') {
                    continue;
                }
                let key = ckey(query, &inp.bytes);
                match imp::parse(query) {
                    Ok((Some(p), _)) if canon_search(&p.search) == *tree => {}
                    other => {
                        ctx.case("filter-badutf8-ast", &key, "viol", json!({"class": "C02/filter-grammar-differs-from-documented", "what": "a filter in documented form is rejected or read differently",
                            "query": query, "intended": show(tree), "parsed": other.ok().and_then(|p| p.0).map(|p| show(&canon_search(&p.search)))}));
                        continue;
                    }
                }
                let legacy = imp::run(query, &inp.bytes, "legacy", 10);
                let qc = format!("{} | count", query);
                let counted = imp::run(&qc, &inp.bytes, "json", 10);
                if let Some(p) = crash_of(&legacy).or(crash_of(&counted)) {
                    ctx.case("filter-badutf8", &key, "viol", json!({"class": "C02/crash", "what": "the implementation panicked or hung", "panic": p, "case": case_info(query, &inp.bytes)}));
                    continue;
                }
                if !legacy.compiled || !counted.compiled {
                    ctx.case("filter-badutf8-ast", &key, "viol", json!({"class": "C02/filter-grammar-differs-from-documented", "what": "the query parses but is rejected at compile time", "query": query}));
                    continue;
                }
                selection_checks(ctx, ps, "filter-badutf8", query, &inp, tree, &legacy, Some(counted.stdout.as_slice()));
            }
        }
    }
}

/* ------------------------------------------------------------------------------------------ */
/* (e): the real binary on inputs larger than its read buffer                                  */
/* ------------------------------------------------------------------------------------------ */
//
// filter-big-input-sel    `agrind --file P -- '<filter>'` prints exactly the selected lines of P, byte for
//                         byte and in input order                      C02/selected-lines-differ
// filter-big-input-stdin  `agrind -- '<filter>' < P` prints the same bytes as `--file P`
//                                                                       C02/file-differs-from-stdin
// filter-big-input-count  `<filter> | count` = number of selected lines C02/count-differs
//
// "Which lines are selected" must not depend on where a line sits in the input stream.  The binary
// reads through an 8 KiB buffer, so the inputs here are 9 KB .. 200 KB (thorough: up to 2 MB) regular
// files whose lines are built from the keyword material of the other families plus 2-, 3- and
// 4-byte characters, with lines longer than the buffer (and longer than 64 KiB), and with chosen
// things padded onto a multiple of 8192: a multi-byte character cut after each of its bytes, a
// keyword occurrence, the gap a wildcard spans, an invalid byte sequence, the line terminator, a
// CR LF pair, the first byte of a line, the end of the file.  The oracle never looks at buffers: the
// lines are the `\n`-terminated pieces of the file, each decoded lossily as a whole, judged by `sem`.

const READ_BUF: usize = 8192;
/// 2-, 3- and 4-byte characters; the last two are white space (a blank of a keyword matches them,
/// and they are trimmed from the end of a printed line)
const MB: &[char] = &['é', 'ß', 'λ', '→', '€', '語', '😀', '→', '語', '\u{00A0}', '\u{2003}'];
const MB_KW: &[char] = &['é', 'ß', 'λ', '→', '€', '語', '😀'];
/// Cased letters outside ASCII that `sem` does judge here: their other-case forms (É, ẞ, Λ) occur
/// neither in the keywords nor in the lines of this family, so "case-insensitively" asks nothing of
/// them beyond matching themselves.  Any other cased non-ASCII letter is kept out by the generator.
const CASED_OK: &[char] = &['é', 'ß', 'λ'];
/// filler no generated keyword starts a piece with (keeps the reference matcher linear on long lines)
const FILL_ASCII: &[char] = &['z', 'q', 'j', 'w', 'm', '7', '5', ',', ';', '=', '!'];

fn outside_oracle(s: &str) -> bool {
    s.chars().any(|c| kwgen::nonascii_cased(c) && !CASED_OK.contains(&c))
}

/// a quoted keyword with at least one multi-byte character
fn mb_keyword(r: &mut Rng) -> T {
    let text = if r.chance(25) {
        (*r.pick(&["café", "straße", "λx", "→", "€ 5", "語", "😀", "é", "a→b", "ß*", "x 😀", "語€"])).to_string()
    } else {
        let n = 1 + r.below(4);
        let at = r.below(n);
        let mut s = String::new();
        for i in 0..n {
            if i == at || r.chance(35) {
                s.push(*r.pick(MB_KW));
            } else if r.chance(12) {
                s.push(' ');
            } else if r.chance(8) {
                s.push('*'); // literal inside quotes
            } else {
                s.push(*r.pick(kwgen::ALNUM));
            }
        }
        s
    };
    let src = kwgen::quote_any(r, &text);
    T::Kw { kind: Kind::Exact, text, src }
}

fn plant_mb(r: &mut Rng, t: &mut T, pct: usize) {
    match t {
        T::Kw { .. } => {
            if r.chance(pct) {
                *t = mb_keyword(r);
            }
        }
        T::And(v) | T::Or(v) => v.iter_mut().for_each(|x| plant_mb(r, x, pct)),
        T::Not(x) => plant_mb(r, x, pct),
    }
}

/// a filter in documented form from the tree generator of filter-e2e, some of its keywords replaced
/// by quoted non-ASCII ones, restricted to what `sem` judges
fn gen_big_filter(r: &mut Rng) -> (T, String) {
    for _ in 0..200 {
        if r.chance(4) {
            return (T::Kw { kind: Kind::Wild, text: "*".into(), src: "*".into() }, "*".to_string());
        }
        let star_ok = r.chance(10);
        let loose = r.chance(35);
        let depth = r.below(4);
        let mut base = gen_tree(r, depth, star_ok);
        plant_mb(r, &mut base, 25);
        let t = match r.below(12) {
            0 => mb_keyword(r),
            1 => T::Not(Box::new(mb_keyword(r))),
            2 => T::And(vec![mb_keyword(r), base]),
            3 => T::Or(vec![T::Not(Box::new(mb_keyword(r))), base]),
            4 => T::And(vec![base, T::Not(Box::new(mb_keyword(r)))]),
            5 => T::Or(vec![base, mb_keyword(r)]),
            _ => base,
        };
        let mut kws = vec![];
        c_keywords(&canon_t(&t), &mut kws);
        if kws.iter().any(|k| outside_oracle(&k.1)) {
            continue;
        }
        let q = match &t {
            // juxtaposition at the top level
            T::And(v) if r.chance(40) => v.iter().map(|x| render(r, x, 2, loose)).collect::<Vec<_>>().join(sp(r)),
            _ => {
                let need = if loose || r.chance(50) { 0 } else { 2 };
                render(r, &t, need, loose)
            }
        };
        return (t, q);
    }
    (T::Kw { kind: Kind::Wild, text: "*".into(), src: "*".into() }, "*".to_string())
}

/// exactly `n` bytes of filler: ASCII that starts no keyword piece, mixed with multi-byte characters
fn fill(r: &mut Rng, n: usize, out: &mut Vec<u8>) {
    let dens = *r.pick(&[0usize, 5, 25, 60, 100]);
    let mut left = n;
    let mut b = [0u8; 4];
    while left > 0 {
        if left >= 2 && r.chance(dens) {
            let c = *r.pick(MB);
            if c.len_utf8() <= left {
                out.extend_from_slice(c.encode_utf8(&mut b).as_bytes());
                left -= c.len_utf8();
                continue;
            }
        }
        out.push(*r.pick(FILL_ASCII) as u8);
        left -= 1;
    }
}

fn junk_mb(r: &mut Rng, max: usize) -> String {
    let n = r.below(max + 1);
    let mut s = String::new();
    for _ in 0..n {
        if r.chance(30) {
            s.push(*r.pick(MB));
        } else {
            s.push_str(&kwgen::junk(r, 1));
        }
    }
    s
}

#[derive(Clone, Copy, PartialEq, Debug)]
enum Mk {
    /// a multi-byte character
    Mb,
    /// an occurrence of a keyword piece
    Piece,
    /// the start of the gap between two pieces of a wildcard keyword
    Gap,
    /// an invalid byte sequence
    Bad,
}

/// a line under construction (no terminator): its bytes and where the interesting things are
struct Lb {
    b: Vec<u8>,
    /// (what, byte position, byte length)
    marks: Vec<(Mk, usize, usize)>,
}

impl Lb {
    fn new() -> Lb {
        Lb { b: vec![], marks: vec![] }
    }
    /// append text; `bad_char` stand-ins become their byte sequences
    fn txt(&mut self, s: &str) {
        for c in s.chars() {
            let at = self.b.len();
            let i = (c as u32).wrapping_sub(0xE000) as usize;
            if i < BAD_SEQS.len() {
                self.b.extend_from_slice(BAD_SEQS[i]);
                self.marks.push((Mk::Bad, at, BAD_SEQS[i].len()));
            } else if c == '\n' {
                self.b.push(b' ');
            } else {
                let mut buf = [0u8; 4];
                let e = c.encode_utf8(&mut buf);
                self.b.extend_from_slice(e.as_bytes());
                if e.len() > 1 {
                    self.marks.push((Mk::Mb, at, e.len()));
                }
            }
        }
    }
    fn piece(&mut self, s: &str) {
        let at = self.b.len();
        self.txt(s);
        if self.b.len() > at {
            self.marks.push((Mk::Piece, at, self.b.len() - at));
        }
    }
    fn gap(&mut self) {
        self.marks.push((Mk::Gap, self.b.len(), 0));
    }
    /// insert bytes at `at` (one of `points()`, so never inside a character or a piece)
    fn insert(&mut self, at: usize, bytes: &[u8]) {
        let tail = self.b.split_off(at);
        self.b.extend_from_slice(bytes);
        self.b.extend(tail);
        for m in self.marks.iter_mut() {
            if m.1 > at || (m.1 == at && m.0 != Mk::Gap) {
                m.1 += bytes.len();
            }
        }
    }
    /// where filler may go: the start, the gaps of wildcard keywords, the end
    fn points(&self) -> Vec<usize> {
        let mut v = vec![0];
        v.extend(self.marks.iter().filter(|m| m.0 == Mk::Gap).map(|m| m.1));
        v.push(self.b.len());
        v
    }
    fn of(&self, k: Mk) -> Vec<(usize, usize)> {
        self.marks.iter().filter(|m| m.0 == k).map(|m| (m.1, m.2)).collect()
    }
    /// `total` more bytes of filler in one to three places
    fn inflate(&mut self, r: &mut Rng, total: usize) {
        let parts = 1 + r.below(3);
        let mut left = total;
        for i in 0..parts {
            let n = if i + 1 == parts { left } else { r.below(left + 1) };
            left -= n;
            let at = *r.pick(&self.points());
            let mut f = vec![];
            fill(r, n, &mut f);
            self.insert(at, &f);
        }
    }
}

/// the body of one line: the line material of filter-e2e (keyword pieces in order, damaged, with
/// junk and invalid bytes around and inside them) plus multi-byte characters
fn material_line(r: &mut Rng, kws: &[(Kind, String)], bad_utf8: bool) -> Lb {
    loop {
        let l = material_line_once(r, kws, bad_utf8);
        // (two invalid sequences side by side may spell a cased letter, `C3` + `80` = `À`, which the
        // oracle does not judge)
        if !outside_oracle(&String::from_utf8_lossy(&l.b)) {
            return l;
        }
    }
}

fn material_line_once(r: &mut Rng, kws: &[(Kind, String)], bad_utf8: bool) -> Lb {
    let mut l = Lb::new();
    let bad_here = bad_utf8 && r.chance(50);
    if r.chance(5) {
        if r.chance(50) {
            l.txt("  ");
        }
        return l;
    }
    if bad_here && r.chance(15) {
        l.txt(&some_bad(r).to_string());
    }
    if r.chance(50) {
        let j = junk_mb(r, 4);
        l.txt(&j);
    }
    for (kind, text) in kws {
        if l.b.len() > 160 {
            break;
        }
        if !r.chance(55) {
            continue;
        }
        let ps = kwgen::pieces(*kind, text);
        let dmg = r.chance(18);
        if bad_here && r.chance(20) {
            l.txt(&some_bad(r).to_string());
        }
        for (j, p) in ps.iter().enumerate() {
            if j > 0 {
                l.gap();
                if bad_here && r.chance(50) {
                    if r.chance(40) {
                        let j = junk_mb(r, 2);
                        l.txt(&j);
                    }
                    l.txt(&some_bad(r).to_string());
                    if r.chance(25) {
                        l.txt(&some_bad(r).to_string());
                    }
                    if r.chance(40) {
                        let j = junk_mb(r, 2);
                        l.txt(&j);
                    }
                } else if r.chance(50) {
                    let j = junk_mb(r, 3);
                    l.txt(&j);
                }
            }
            if dmg && j == 0 {
                l.txt(&kwgen::damaged(r, p));
            } else if bad_here && r.chance(6) && p.chars().count() > 1 {
                // invalid bytes inside the piece: not an occurrence of it
                let v: Vec<char> = kwgen::variant(r, p, false).chars().collect();
                let at = 1 + r.below(v.len() - 1);
                l.txt(&v[..at].iter().collect::<String>());
                l.txt(&some_bad(r).to_string());
                l.txt(&v[at..].iter().collect::<String>());
            } else {
                l.piece(&kwgen::variant(r, p, false));
            }
        }
        if bad_here && r.chance(20) {
            l.txt(&some_bad(r).to_string());
        }
        if r.chance(60) {
            let j = junk_mb(r, 3);
            l.txt(&j);
        }
    }
    if bad_here && r.chance(15) {
        l.txt(&some_bad(r).to_string());
    }
    l
}

/// a line one of whose bytes has to land on a multiple of the read buffer size
struct Forced {
    lb: Lb,
    term: &'static str,
    /// byte index (from the start of the line, terminator included) that is to be the first byte of a buffer
    anchor: usize,
    /// where the padding goes: into the line at this position (at or before `anchor`), or (None) into a
    /// filler line of its own before this one
    slot: Option<usize>,
    what: &'static str,
}

fn forced_line(r: &mut Rng, kws: &[(Kind, String)], bad_utf8: bool, term: &'static str, last: bool) -> Forced {
    loop {
        let f = forced_line_once(r, kws, bad_utf8, term, last);
        if !outside_oracle(&String::from_utf8_lossy(&f.lb.b)) {
            return f;
        }
    }
}

fn forced_line_once(r: &mut Rng, kws: &[(Kind, String)], bad_utf8: bool, term: &'static str, last: bool) -> Forced {
    let mut lb = material_line(r, kws, bad_utf8);
    if r.chance(20) {
        let n = match r.below(10) {
            0..=5 => 100 + r.below(2900),
            6..=8 => READ_BUF + 1 + r.below(12000),
            _ => 30000 + r.below(20000),
        };
        lb.inflate(r, n);
    }
    let mut term = term;
    let mut slot_none = false;
    // a multi-byte character of the line (by preference inside a keyword occurrence), cut after its
    // first, second or third byte
    fn mb_feature(r: &mut Rng, lb: &mut Lb) -> (usize, &'static str) {
        let mbs = lb.of(Mk::Mb);
        let pieces = lb.of(Mk::Piece);
        let inside: Vec<(usize, usize)> = mbs.iter().filter(|m| pieces.iter().any(|p| p.0 <= m.0 && m.0 < p.0 + p.1)).cloned().collect();
        let (pos, len) = if !inside.is_empty() && r.chance(70) {
            *r.pick(&inside)
        } else if !mbs.is_empty() {
            *r.pick(&mbs)
        } else {
            let at = *r.pick(&lb.points());
            let c = *r.pick(MB_KW);
            let mut b = [0u8; 4];
            lb.insert(at, c.encode_utf8(&mut b).as_bytes());
            lb.marks.push((Mk::Mb, at, c.len_utf8()));
            (at, c.len_utf8())
        };
        (pos + 1 + r.below(len - 1), "multi-byte character cut by the boundary")
    }
    let has_gap = !lb.of(Mk::Gap).is_empty();
    let (anchor, what): (usize, &'static str) = match if last {
        8
    } else if has_gap && r.chance(35) {
        4
    } else {
        r.below(8)
    } {
        0 | 1 => mb_feature(r, &mut lb),
        2 => {
            let ps: Vec<(usize, usize)> = lb.of(Mk::Piece).into_iter().filter(|p| p.1 >= 2).collect();
            if ps.is_empty() {
                mb_feature(r, &mut lb)
            } else {
                let (pos, len) = *r.pick(&ps);
                (pos + 1 + r.below(len - 1), "keyword occurrence across the boundary")
            }
        }
        3 => {
            let mut bads = lb.of(Mk::Bad);
            if bads.is_empty() {
                let at = *r.pick(&lb.points());
                let seq: &[u8] = *r.pick(BAD_SEQS);
                lb.insert(at, seq);
                lb.marks.push((Mk::Bad, at, seq.len()));
                bads.push((at, seq.len()));
            }
            let (pos, len) = *r.pick(&bads);
            (pos + r.below(len + 1), "invalid byte sequence at / across the boundary")
        }
        4 => {
            let gaps = lb.of(Mk::Gap);
            if gaps.is_empty() {
                mb_feature(r, &mut lb)
            } else {
                let (g, _) = *r.pick(&gaps);
                let n = if r.chance(10) { READ_BUF + 1 + r.below(4000) } else { 2 + r.below(3000) };
                let mut f = vec![];
                fill(r, n, &mut f);
                lb.insert(g, &f);
                (g + r.below(n), "wildcard gap across the boundary")
            }
        }
        5 => {
            term = "\n";
            // the newline is the first byte of a buffer / the last byte of one
            if r.chance(50) {
                (lb.b.len(), "newline first in a buffer")
            } else {
                (lb.b.len() + 1, "first byte of a line first in a buffer")
            }
        }
        6 => {
            term = "\r\n";
            (lb.b.len() + r.below(3), "CR LF at / across the boundary")
        }
        7 => {
            // the line starts with a multi-byte character or an invalid sequence that is cut (or that
            // starts the buffer); the padding has to be a line of its own
            slot_none = true;
            let mut b = [0u8; 4];
            let seq: Vec<u8> = if bad_utf8 && r.chance(40) { r.pick(BAD_SEQS).to_vec() } else { r.pick(MB).encode_utf8(&mut b).as_bytes().to_vec() };
            lb.insert(0, &seq);
            (r.below(seq.len()), "line starts with a multi-byte character / invalid sequence at the boundary")
        }
        _ => {
            // the last line, without a terminator: the file ends on the boundary, one byte before or after it
            term = "";
            if lb.b.is_empty() {
                lb.txt("end");
            }
            (lb.b.len() + r.below(2) - if lb.b.len() > 1 && r.chance(30) { 1 } else { 0 }, "end of file at the boundary")
        }
    };
    let slot = if slot_none || r.chance(15) {
        None
    } else {
        let c: Vec<usize> = lb.points().into_iter().filter(|p| *p <= anchor && *p <= lb.b.len()).collect();
        Some(*r.pick(&c))
    };
    Forced { lb, term, anchor, slot, what }
}

struct BigInput {
    bytes: Vec<u8>,
    /// (what, file offset of the boundary it was put on)
    forced: Vec<(&'static str, usize)>,
}

fn gen_big_input(r: &mut Rng, kws: &[(Kind, String)], target: usize, huge_max: usize) -> BigInput {
    let bad_utf8 = r.chance(35);
    let crlf_pct = *r.pick(&[0usize, 0, 8, 8, 50, 100]);
    let mut out: Vec<u8> = Vec::with_capacity(target + 2 * READ_BUF);
    let mut forced = vec![];
    let mut want_huge = huge_max > 65537 && target >= 90_000 && r.chance(60);
    fn pick_term(r: &mut Rng, crlf_pct: usize) -> &'static str {
        if r.chance(crlf_pct) {
            "\r\n"
        } else {
            "\n"
        }
    }
    let push_forced = |r: &mut Rng, out: &mut Vec<u8>, forced: &mut Vec<(&'static str, usize)>, last: bool| {
        let t = pick_term(r, crlf_pct);
        let mut f = forced_line(r, kws, bad_utf8, t, last);
        let anchor = f.anchor;
        let need = |off: usize| (READ_BUF - (off + anchor) % READ_BUF) % READ_BUF;
        // most of the way there with ordinary lines
        if r.chance(70) {
            loop {
                let n = need(out.len());
                if n < 40 {
                    break;
                }
                let l = material_line(r, kws, bad_utf8);
                let t = pick_term(r, crlf_pct);
                if l.b.len() + t.len() > n {
                    break;
                }
                out.extend_from_slice(&l.b);
                out.extend_from_slice(t.as_bytes());
            }
        }
        let n = need(out.len());
        let mut pad = vec![];
        match f.slot {
            Some(at) => {
                fill(r, n, &mut pad);
                f.lb.insert(at, &pad);
                forced.push((f.what, out.len() + f.anchor + n));
            }
            None => {
                if n > 0 {
                    fill(r, n - 1, &mut pad);
                    out.extend_from_slice(&pad);
                    out.push(b'\n');
                }
                forced.push((f.what, out.len() + f.anchor));
            }
        }
        out.extend_from_slice(&f.lb.b);
        out.extend_from_slice(f.term.as_bytes());
    };
    while out.len() < target {
        if r.chance(55) {
            push_forced(r, &mut out, &mut forced, false);
        } else {
            for _ in 0..(1 + r.below(30)) {
                let mut l = material_line(r, kws, bad_utf8);
                match r.below(100) {
                    0..=7 => {
                        let n = 50 + r.below(1950);
                        l.inflate(r, n)
                    }
                    8..=10 => {
                        let n = READ_BUF + 1 + r.below(12000);
                        l.inflate(r, n)
                    }
                    11..=13 if want_huge => {
                        want_huge = false;
                        let n = 65537 + r.below(huge_max - 65537);
                        l.inflate(r, n)
                    }
                    _ => {}
                }
                if bad_utf8 && r.chance(12) {
                    // anywhere, also in the middle of a multi-byte character
                    let at = r.below(l.b.len() + 1);
                    let junk: &[u8] = *r.pick(BAD_SEQS);
                    let mut damaged = l.b[..at].to_vec();
                    damaged.extend_from_slice(junk);
                    damaged.extend_from_slice(&l.b[at..]);
                    // (a lead byte put in front of a continuation byte may spell a cased letter such as `Â`,
                    // which the oracle does not judge: leave such a line as it was)
                    if !outside_oracle(&String::from_utf8_lossy(&damaged)) {
                        l.b = damaged;
                    }
                }
                out.extend_from_slice(&l.b);
                out.extend_from_slice(pick_term(r, crlf_pct).as_bytes());
            }
        }
    }
    if want_huge {
        let mut l = material_line(r, kws, bad_utf8);
        let n = 65537 + r.below(huge_max - 65537);
        l.inflate(r, n);
        out.extend_from_slice(&l.b);
        out.extend_from_slice(pick_term(r, crlf_pct).as_bytes());
    }
    // the end of the input: a final newline, none, or the end of the file put on a boundary
    match r.below(10) {
        0..=2 => push_forced(r, &mut out, &mut forced, true),
        3..=5 => {
            if out.last() == Some(&b'\n') {
                out.pop();
                if out.last() == Some(&b'\r') && r.chance(50) {
                    out.pop();
                }
            }
        }
        _ => {}
    }
    BigInput { bytes: out, forced }
}

struct BinRun {
    code: Option<i32>,
    stdout: Vec<u8>,
    stderr: Vec<u8>,
    timed_out: bool,
}

/// run the binary with `args`, stdin from `stdin_path` (default /dev/null), killed by the watchdog
/// when it has not finished after `secs`
fn run_agrind_once(bin: &str, args: &[&str], stdin_path: Option<&str>, secs: u64) -> Option<BinRun> {
    use std::io::Read;
    use std::sync::atomic::Ordering;
    let stdin = std::fs::File::open(stdin_path.unwrap_or("/dev/null")).ok()?;
    let mut child = std::process::Command::new(bin)
        .args(args)
        .env("NO_COLOR", "1")
        .env("RUST_BACKTRACE", "0")
        .stdin(stdin)
        .stdout(std::process::Stdio::piped())
        .stderr(std::process::Stdio::piped())
        .spawn()
        .ok()?;
    let (done, fired) = kill_after(child.id(), secs);
    let so = child.stdout.take();
    let se = child.stderr.take();
    let rd = |p: Option<Box<dyn Read + Send>>| {
        std::thread::spawn(move || {
            let mut b = vec![];
            if let Some(mut p) = p {
                let _ = p.read_to_end(&mut b);
            }
            b
        })
    };
    let h1 = rd(so.map(|x| Box::new(x) as Box<dyn Read + Send>));
    let h2 = rd(se.map(|x| Box::new(x) as Box<dyn Read + Send>));
    let code = child.wait().ok().and_then(|s| s.code());
    done.store(true, Ordering::SeqCst);
    let stdout = h1.join().unwrap_or_default();
    let stderr = h2.join().unwrap_or_default();
    Some(BinRun { code, stdout, stderr, timed_out: fired.load(Ordering::SeqCst) })
}

/// A run that normally takes well under a second gets 60 s, and another 180 s when that was not
/// enough (a busy machine is not a finding; a run that does not end twice is).
fn run_agrind(bin: &str, args: &[&str], stdin_path: Option<&str>) -> Option<BinRun> {
    let r = run_agrind_once(bin, args, stdin_path, 60)?;
    if r.timed_out {
        return run_agrind_once(bin, args, stdin_path, 180);
    }
    Some(r)
}

fn lossy_clip(b: &[u8], around: usize) -> String {
    let lo = around.saturating_sub(40);
    let hi = (around + 40).min(b.len());
    format!("{}{}{}", if lo > 0 { "…" } else { "" }, String::from_utf8_lossy(&b[lo..hi]), if hi < b.len() { "…" } else { "" })
}

/// where an input line lies in the file and what is wrong with the output line that stands for it
fn line_report(bytes: &[u8], line: usize, got: Option<&&[u8]>) -> serde_json::Value {
    let mut start = 0usize;
    let mut cur: &[u8] = &[];
    for (i, l) in bytes.split_inclusive(|b| *b == b'\n').enumerate() {
        if i == line {
            cur = l;
            break;
        }
        start += l.len();
    }
    let end = start + cur.len();
    let first_b = (start + READ_BUF - 1) / READ_BUF * READ_BUF;
    let bounds: Vec<usize> = (0..4).map(|i| first_b + i * READ_BUF).filter(|b| *b < end).collect();
    let decoded = String::from_utf8_lossy(cur).into_owned();
    let shown = decoded.trim_end().as_bytes();
    let mut o = json!({"input_line": line, "line_file_offset": start, "line_bytes": cur.len(), "multiples_of_8192_inside_the_line": bounds,
        "bytes_around_them": bounds.iter().map(|b| enc::hexb(&bytes[b.saturating_sub(8)..(*b + 8).min(bytes.len())])).collect::<Vec<_>>()});
    match got {
        Some(g) => {
            let d = shown.iter().zip(g.iter()).position(|(a, b)| a != b).unwrap_or(shown.len().min(g.len()));
            o["first_difference_at_byte_of_the_line"] = json!(d);
            o["file_offset_there"] = json!(start + d);
            o["expected_there"] = json!(lossy_clip(shown, d));
            o["printed_there"] = json!(lossy_clip(g, d));
            o["printed_line_bytes"] = json!(g.len());
            o["expected_line_bytes"] = json!(shown.len());
        }
        None => {
            o["expected_start"] = json!(lossy_clip(shown, 0));
            o["printed_there"] = json!("(nothing: the output ends before)");
        }
    }
    o
}

fn big_input_case(ctx: &mut Ctx, ps: &mut Passes, bin: &str, dir: &str) {
    let mut r = ctx.rng.fork();
    let state = r.0;
    let fam_sel = "filter-big-input-sel";
    let fam_eq = "filter-big-input-stdin";
    let fam_cnt = "filter-big-input-count";
    let (t, query) = gen_big_filter(&mut r);
    let tree = canon_t(&t);
    // the filter has to mean what the generator intended (filter-ast judges that; not repeated here)
    match imp::parse(&query) {
        Ok((Some(p), _)) if canon_search(&p.search) == tree => {}
        _ => {
            ctx.case(fam_sel, "", "skip", json!({"why": "big-input: filter rejected or read differently (judged by filter-ast)"}));
            return;
        }
    }
    let mut kws = vec![];
    c_keywords(&tree, &mut kws);
    let (target, huge_max) = if ctx.thorough() {
        match r.below(100) {
            0..=24 => (9_000 + r.below(11_000), 0),
            25..=59 => (20_000 + r.below(60_000), 0),
            60..=86 => (80_000 + r.below(120_000), 120_000),
            _ => (200_000 + r.below(1_800_000), 400_000),
        }
    } else {
        match r.below(100) {
            0..=29 => (9_000 + r.below(11_000), 0),
            30..=69 => (20_000 + r.below(60_000), 0),
            _ => (80_000 + r.below(120_000), 100_000),
        }
    };
    let inp = gen_big_input(&mut r, &kws, target, huge_max);
    let lines: Vec<String> = inp.bytes.split_inclusive(|b| *b == b'\n').map(|l| String::from_utf8_lossy(l).into_owned()).collect();
    if lines.iter().any(|l| outside_oracle(l)) {
        ctx.case(fam_sel, "", "skip", json!({"why": "big-input: cased non-ASCII letter in a line (the oracle is ASCII-case only)"}));
        return;
    }
    let key = ckey(&query, &inp.bytes);
    let path = format!("{}/input.log", dir);
    if std::fs::write(&path, &inp.bytes).is_err() {
        ctx.case(fam_sel, "", "skip", json!({"why": "cannot write the scratch file"}));
        return;
    }
    let longest = lines.iter().map(|l| l.len()).max().unwrap_or(0);
    let thorough = ctx.thorough();
    let info = |extra: serde_json::Value| -> serde_json::Value {
        json!({"query": query, "tree": show(&tree), "input_bytes": inp.bytes.len(), "input_lines": lines.len(), "longest_line_bytes": longest,
            "valid_utf8": std::str::from_utf8(&inp.bytes).is_ok(), "final_newline": inp.bytes.last() == Some(&b'\n'),
            "put_on_a_multiple_of_8192": inp.forced.iter().take(12).map(|f| format!("{} @ {}", f.0, f.1)).collect::<Vec<_>>(),
            "regenerate": format!("gen_big_filter + gen_big_input from Rng({}), tier {}", state, if thorough { "thorough" } else { "quick" }),
            "detail": extra})
    };
    let qc = format!("{} | count", query);
    let count_by_file = r.chance(50);
    let by_file = run_agrind(bin, &["--file", &path, "--", &query], None);
    let by_stdin = run_agrind(bin, &["--", &query], Some(&path));
    let counted = if count_by_file { run_agrind(bin, &["-o", "json", "--file", &path, "--", &qc], None) } else { run_agrind(bin, &["-o", "json", "--", &qc], Some(&path)) };
    let _ = std::fs::remove_file(&path);
    let (by_file, by_stdin, counted) = match (by_file, by_stdin, counted) {
        (Some(a), Some(b), Some(c)) => (a, b, c),
        _ => {
            ctx.case(fam_sel, "", "skip", json!({"why": "cannot start the agrind binary"}));
            return;
        }
    };
    for (run, how) in [(&by_file, "--file P"), (&by_stdin, "< P"), (&counted, "| count")] {
        if run.timed_out || run.code != Some(0) {
            ctx.case(fam_sel, &key, "viol", json!({"class": "C02/crash", "what": format!("the binary {} ({})", if run.timed_out { "did not finish within 60 s and again within 180 s".to_string() } else { format!("exited with {:?}", run.code) }, how),
                "stderr": clip(&String::from_utf8_lossy(&run.stderr)), "case": info(json!({}))}));
            return;
        }
    }
    for f in &inp.forced {
        ctx.count(&format!("filter-big-input:on-a-boundary:{}", f.0));
    }
    if longest > READ_BUF {
        ctx.count("filter-big-input:line-longer-than-8192");
    }
    if longest > 65536 {
        ctx.count("filter-big-input:line-longer-than-65536");
    }
    // (1) the selected lines, byte for byte and in input order
    let parse_out = |out: &[u8]| -> Option<Vec<Vec<u8>>> {
        if out.is_empty() {
            return Some(vec![]);
        }
        let body = out.strip_suffix(b"\n")?;
        Some(body.split(|b| *b == b'\n').map(|l| l.to_vec()).collect())
    };
    let got_owned = match parse_out(&by_file.stdout) {
        Some(g) => g,
        None => {
            ctx.case(fam_sel, &key, "viol", json!({"class": "C02/selected-lines-differ", "what": "output does not end with a newline", "case": info(json!({"output_end": lossy_clip(&by_file.stdout, by_file.stdout.len())}))}));
            return;
        }
    };
    let got: Vec<&[u8]> = got_owned.iter().map(|g| g.as_slice()).collect();
    let al = align_selection(&tree, &lines, &got);
    if al.ambiguous > 0 {
        ctx.count("filter:line-terminator-dependent-case");
    }
    match &al.mismatch {
        None => ps.pass(ctx, fam_sel, &key, || info(json!({"selected": got.len()}))),
        Some(Mis::Missing { line, pos }) => {
            let rep = line_report(&inp.bytes, *line, got.get(*pos));
            ctx.case(fam_sel, &key, "viol", json!({"class": "C02/selected-lines-differ",
                "what": format!("input line {} satisfies the filter and has to be printed as output line {} (under every reading of the terminator-dependent lines before it); what is printed there differs", line, pos),
                "case": info(rep)}));
        }
        Some(Mis::Extra { pos }) => {
            ctx.case(fam_sel, &key, "viol", json!({"class": "C02/selected-lines-differ",
                "what": format!("output line {} (of {}) is no selected input line in input order", pos, got.len()),
                "case": info(json!({"printed_there": got.get(*pos).map(|g| lossy_clip(g, 0)), "lines_selected": al.lo, "lines_selected_counting_terminator_dependent_ones": al.hi}))}));
        }
    }
    // (2) `--file P` = `< P`
    if by_file.stdout == by_stdin.stdout {
        ps.pass(ctx, fam_eq, &key, || json!({"output_bytes": by_file.stdout.len()}));
    } else {
        let d = by_file.stdout.iter().zip(by_stdin.stdout.iter()).position(|(a, b)| a != b).unwrap_or(by_file.stdout.len().min(by_stdin.stdout.len()));
        ctx.case(fam_eq, &key, "viol", json!({"class": "C02/file-differs-from-stdin", "what": "`--file P` and `< P` print different selections of the same bytes",
            "case": info(json!({"first_difference_at_output_byte": d, "by_file": lossy_clip(&by_file.stdout, d), "by_stdin": lossy_clip(&by_stdin.stdout, d), "output_bytes": [by_file.stdout.len(), by_stdin.stdout.len()]}))}));
    }
    // (3) `| count`
    match count_of(&counted.stdout) {
        Some(n) if al.lo <= n && n <= al.hi => ps.pass(ctx, fam_cnt, &key, || json!({"count": n})),
        other => ctx.case(fam_cnt, &key, "viol", json!({"class": "C02/count-differs", "what": format!("`<filter> | count` ({}) gives {:?}, the filter selects {} line(s){}", if count_by_file { "--file P" } else { "< P" }, other, al.lo,
                if al.hi != al.lo { format!(" (up to {} counting terminator-dependent lines)", al.hi) } else { String::new() }),
            "got": clip(&String::from_utf8_lossy(&counted.stdout)), "case": info(json!({}))})),
    }
}

fn big_input_cases(ctx: &mut Ctx, ps: &mut Passes) {
    let n = ctx.budget(32, 640);
    let bin = match super::c15::ensure_binary() {
        Ok(b) => b,
        Err(e) => {
            ctx.case("filter-big-input-sel", "", "skip", json!({"why": format!("agrind binary not available: {}", head(&e))}));
            return;
        }
    };
    let dir = format!("/verif/harness/target/scratch/c02-{}", std::process::id());
    if std::fs::create_dir_all(&dir).is_err() {
        ctx.case("filter-big-input-sel", "", "skip", json!({"why": "cannot create a scratch directory"}));
        return;
    }
    for _ in 0..n {
        big_input_case(ctx, ps, &bin, &dir);
    }
    let _ = std::fs::remove_dir_all(&dir);
}

pub fn check(ctx: &mut Ctx) {
    let mut ps = Passes::new();
    if ctx.shard == 0 {
        star_witnesses(ctx);
    }
    badutf8_cases(ctx, &mut ps);
    kw_stream(ctx, &mut ps);
    let n = ctx.budget(1200, 60000);
    for _ in 0..n {
        e2e_case(ctx, &mut ps, false);
    }
    let n = ctx.budget(400, 20000);
    for _ in 0..n {
        e2e_case(ctx, &mut ps, true);
    }
    // last: the families before it keep the cases they had before this one existed
    big_input_cases(ctx, &mut ps);
    if ctx.thorough() {
        exhaustive(ctx, &mut ps);
    }
}

#[cfg(test)]
mod big_tests {
    use super::*;
    /// the generator of filter-big-input puts what it says on multiples of 8192
    #[test]
    fn big_generator() {
        let mut top = Rng::new(12345);
        let mut feats = std::collections::BTreeMap::new();
        for case in 0..300 {
            let mut r = top.fork();
            let (t, q) = gen_big_filter(&mut r);
            let tree = canon_t(&t);
            let mut kws = vec![];
            c_keywords(&tree, &mut kws);
            let target = 9000 + r.below(100_000);
            let inp = gen_big_input(&mut r, &kws, target, 100_000);
            for f in &inp.forced {
                assert!(f.1 % READ_BUF == 0, "case {} {:?}", case, f);
                let b = &inp.bytes;
                match f.0 {
                    "newline first in a buffer" => assert!(b.get(f.1) == Some(&b'\n') || f.1 >= b.len(), "case {} {:?}", case, f),
                    "first byte of a line first in a buffer" => assert!(b.get(f.1 - 1) == Some(&b'\n') || f.1 > b.len(), "case {} {:?}", case, f),
                    "CR LF at / across the boundary" => assert!(b.get(f.1 - 1) == Some(&b'\n') || b.get(f.1) == Some(&b'\n') || b.get(f.1 + 1) == Some(&b'\n') || f.1 + 1 >= b.len(), "case {} {:?}", case, f),
                    "end of file at the boundary" => assert!(f.1 + 1 >= b.len() && f.1 <= b.len() + 1, "case {} {:?} len {}", case, f, b.len()),
                    _ => {}
                }
                if f.0 == "multi-byte character cut by the boundary" {
                    assert!(b[f.1] & 0xC0 == 0x80, "case {} {:?}", case, f);
                }
                *feats.entry(f.0).or_insert(0usize) += 1;
            }
            // every line is one the oracle judges
            for l in inp.bytes.split_inclusive(|b| *b == b'\n') {
                assert!(!outside_oracle(&String::from_utf8_lossy(l)), "case {} query {:?}", case, q);
            }
        }
        println!("{:?}", feats);
    }
}
