//! C12: row operators are local.  P-level on the real code: run(A++B) = run(A)++run(B), a line's
//! output does not depend on its position, frame (untouched fields stay identical, `fields` only
//! removes).  F-level: the same runs against the model.
use super::common::*;
use crate::canon::J;
use crate::gen;
use crate::imp;
use crate::rng::Rng;
use crate::Ctx;

/// every top-level key the generated documents can carry
const DOC_KEYS: &[&str] = &["id", "ts", "k", "n", "x", "s", "b", "o", "arr", "msg", "m"];

/// (stage text, fields it may add or overwrite; None = "only removes")
fn stateless_stage(r: &mut Rng) -> (String, Option<Vec<String>>) {
    match r.below(13) {
        // a second `json` (no `from`: re-reads the line) after other stages: overwrites the
        // document's own keys only, the fields made by earlier stages stay
        10 => ("json".to_string(), Some(DOC_KEYS.iter().map(|s| s.to_string()).collect())),
        11 => {
            if r.chance(50) {
                ("json from s".to_string(), Some(vec![]))
            } else {
                ("json from msg nodrop".replace(" nodrop", ""), Some(vec![]))
            }
        }
        // logfmt on the message text: adds its pairs (names not known in advance: "*")
        12 => ("logfmt from msg".to_string(), Some(vec!["*".into(), "GET".into(), "POST".into(), "put".into(), "user".into(), "took".into(), "status".into()])),
        0 | 1 => (format!("where {}", gen::bool_expr(r, 2)), Some(vec![])),
        2 | 3 => {
            let name = r.pick(&["r", "v", "y", "n"]).to_string();
            (format!("{} as {}", gen::any_expr(r, 2), name), Some(vec![name]))
        }
        4 => {
            let mode = *r.pick(&["", "+", "-", "only", "except", "drop", "include"]);
            let names = *r.pick(&["k", "n,x", "k, n, s", "o", "id, k", "id,n,x,s"]);
            (format!("fields {} {}", mode, names), None)
        }
        5 => (
            "parse \"* user=* took *ms status=*\" from msg as verb, user, ms, status".to_string(),
            Some(vec!["verb".into(), "user".into(), "ms".into(), "status".into()]),
        ),
        6 => (
            "parse \"took *ms\" from msg as took nodrop".to_string(),
            Some(vec!["took".into()]),
        ),
        7 => ("split(msg) on \" \" as parts".to_string(), Some(vec!["parts".into()])),
        8 => {
            // timeslice on a parsed date: documents carry out-of-order timestamps in `ts`
            let (dur, name) = (*r.pick(&["5m", "1h", "1d", "30s", "1m30s"]), *r.pick(&["", " as slot"]));
            let col = if name.is_empty() { "_timeslice" } else { "slot" };
            (format!("timeslice(parseDate(ts)) {}{}", dur, name), Some(vec![col.into()]))
        }
        _ => ("split(s) on \",\"".to_string(), Some(vec!["s".into()])),
    }
}

pub fn check(ctx: &mut Ctx) {
    check_long_prefix(ctx);
    check_mixed_types(ctx);
    check_indexed_write(ctx);
    let n = ctx.budget(1600, 60000);
    for _ in 0..n {
        let mut r = ctx.rng.fork();
        let nst = 1 + r.below(4);
        let mut stages = vec!["json".to_string()];
        let mut last: Option<(String, Option<Vec<String>>)> = None;
        for i in 0..nst {
            let s = stateless_stage(&mut r);
            stages.push(s.0.clone());
            if i + 1 == nst {
                last = Some(s);
            }
        }
        // a running total somewhere BEFORE the last stage: it is not row-local itself (so the
        // concatenation and per-line oracles do not apply), but the row-local stage after it must
        // still see exactly the rows — and the totals — the stages before it produced
        let stateful = nst >= 1 && r.chance(15);
        if stateful {
            let at = 1 + r.below(stages.len() - 1);
            let t = r.pick(&["total(n) as t", "total(n)", "total(x) as t", "total(n + 1) as t"]).to_string();
            stages.insert(at, t);
        }
        let filter = *r.pick(&["*", "*", "*", "a", "NOT err"]);
        let q = format!("{} | {}", filter, stages.join(" | "));
        let q_prefix = format!("{} | {}", filter, stages[..stages.len() - 1].join(" | "));
        let cfg = gen::DocCfg { key_domain: 3, numeric_only: false };
        let (na, nb) = (r.below(10), r.below(10));
        let a0 = with_ids(&ensure_nl(gen::json_input(&mut r, na, &cfg, 8)), 0);
        let b0 = with_ids(&gen::json_input(&mut r, nb, &cfg, 8), 1000);
        let a = with_ts(&mut r, &a0);
        let b = with_ts(&mut r, &b0);
        let mut ab = a.clone();
        ab.extend(&b);
        let key = ckey(&q, &ab);
        let mode = if r.chance(25) { "logfmt" } else { "json" };
        let ra = imp::run(&q, &a, mode, 10);
        let rb = imp::run(&q, &b, mode, 10);
        let rab = imp::run(&q, &ab, mode, 10);
        let info = serde_json::json!({"query": q, "mode": mode, "A": String::from_utf8_lossy(&a), "B": String::from_utf8_lossy(&b)});
        if !rab.compiled {
            ctx.case("concat", "", "skip", serde_json::json!({"why": "query rejected", "case": info}));
            continue;
        }
        if ra.panicked.is_some() || rb.panicked.is_some() || rab.panicked.is_some() || rab.hung {
            // crash-freedom is C11's; here the comparison is simply impossible
            ctx.case("concat", "", "skip", serde_json::json!({"why": "implementation panicked (judged by C11)", "case": info}));
            continue;
        }
        if !stateful {
        let mut cat = ra.stdout.clone();
        cat.extend(&rb.stdout);
        let same = if mode == "json" {
            // compare as JSON values: the byte order of nested object keys is C13's concern
            let x = crate::canon::normalized_lines(&cat);
            x.is_some() && x == crate::canon::normalized_lines(&rab.stdout)
        } else {
            cat == rab.stdout
        };
        if !same || ra.error_lines + rb.error_lines != rab.error_lines {
            ctx.case("concat", &key, "viol", serde_json::json!({"class": "", "what": "run(A++B) differs from run(A)++run(B)",
                "got_AB": String::from_utf8_lossy(&rab.stdout), "got_A_then_B": String::from_utf8_lossy(&cat), "case": info}));
            continue;
        }
        ctx.case("concat", &key, "pass", info.clone());

        // position independence: each line of A alone gives the same output as inside A
        if mode == "json" && r.chance(30) {
            let mut solo = vec![];
            let mut errs = 0;
            for line in a.split_inclusive(|b| *b == b'\n') {
                let rr = imp::run(&q, line, mode, 10);
                solo.extend(rr.stdout);
                errs += rr.error_lines;
            }
            let x = crate::canon::normalized_lines(&solo);
            if x.is_none() || x != crate::canon::normalized_lines(&ra.stdout) || errs != ra.error_lines {
                ctx.case("per-line", &key, "viol", serde_json::json!({"class": "", "what": "a line's output depends on the lines before it", "case": info}));
            } else {
                ctx.case("per-line", &key, "pass", info.clone());
            }
        }

        } else {
            ctx.count("family:frame-after-total");
        }

        // F-level
        let c = run_both(ctx, &q, &ab);
        match compare(&c, true) {
            F::Agree => ctx.case("model", &key, "pass", info.clone()),
            F::Skip(w) => ctx.case("model", "", "skip", serde_json::json!({"why": w.split(':').next().unwrap_or("").to_string()})),
            F::Disagree(d) => ctx.case("model", &key, "fdis", serde_json::json!({"what": d, "case": info})),
        }

        // frame: compare the last stage's input rows (prefix pipeline) with its output rows, by id
        if mode == "json" {
            if let Some((stage, touched)) = &last {
                let rp = imp::run(&q_prefix, &ab, "json", 10);
                if let (Some(before), Some(after)) = (record_lines(&rp.stdout), record_lines(&rab.stdout)) {
                    let mut bad: Option<String> = None;
                    let id_of = |row: &Vec<(String, J)>| row.iter().find(|kv| kv.0 == "id").map(|kv| kv.1.clone());
                    if before.iter().any(|b| id_of(b).is_none()) {
                        // an earlier `fields` removed the id (a later `json` brings it back): rows cannot be matched
                        ctx.case("frame", "", "skip", serde_json::json!({"why": "input rows of the last stage carry no id"}));
                        continue;
                    }
                    for row in &after {
                        let id = match id_of(row) {
                            Some(i) => i,
                            None => continue, // id removed by an earlier `fields`
                        };
                        let src = before.iter().find(|b| id_of(b) == Some(id.clone()));
                        let src = match src {
                            Some(s) => s,
                            None => {
                                bad = Some(format!("output row id={:?} has no input row", id));
                                break;
                            }
                        };
                        match touched {
                            None => {
                                for (k, v) in row {
                                    if src.iter().find(|kv| &kv.0 == k).map(|kv| &kv.1) != Some(v) {
                                        bad = Some(format!("`fields` changed or invented field {}", k));
                                    }
                                }
                            }
                            Some(t) => {
                                for (k, v) in src {
                                    if !t.contains(k) && row.iter().find(|kv| &kv.0 == k).map(|kv| &kv.1) != Some(v) {
                                        bad = Some(format!("stage `{}` changed untouched field {}", stage, k));
                                    }
                                }
                                for (k, _) in row {
                                    if !t.contains(k) && !t.iter().any(|x| x == "*") && !src.iter().any(|kv| &kv.0 == k) {
                                        bad = Some(format!("stage `{}` added unnamed field {}", stage, k));
                                    }
                                }
                            }
                        }
                    }
                    match bad {
                        Some(w) => ctx.case("frame", &key, "viol", serde_json::json!({"class": "", "what": w, "case": info})),
                        None => ctx.case("frame", &key, "pass", info.clone()),
                    }
                }
            }
        }

    }
}

/// concatenation with a long first part: the second part then starts at an arbitrary offset of
/// the byte stream (near the reader's 8 KiB block boundaries in particular), inside or between
/// multi-byte characters — a line's output must not depend on where in the stream it sits
fn check_long_prefix(ctx: &mut Ctx) {
    let n = ctx.budget(160, 4000);
    for _ in 0..n {
        let mut r = ctx.rng.fork();
        let block = *r.pick(&[4096usize, 8192, 8192, 8192, 16384, 65536]);
        let m = 1 + r.below(3);
        let off = r.below(200);
        let target = block * m - off.min(block * m - 64);
        // A: ASCII JSON lines, the last one padded so that A is exactly `target` bytes long
        let mut a: Vec<u8> = vec![];
        let mut id = 0;
        loop {
            let line = format!("{{\"id\":{},\"k\":\"{}\"}}\n", id, r.pick(&["a", "b", "c"]));
            if a.len() + line.len() + 40 > target {
                break;
            }
            a.extend(line.into_bytes());
            id += 1;
        }
        let head = format!("{{\"id\":{},\"pad\":\"", id);
        let padlen = target - a.len() - head.len() - 3;
        a.extend(format!("{}{}\"}}\n", head, "x".repeat(padlen)).into_bytes());
        debug_assert_eq!(a.len(), target);
        // B: lines made of multi-byte characters
        let word: String = (0..(20 + r.below(60))).map(|_| *r.pick(&['日', '本', 'é', 'ü', '😀', 'ж', 'x'])).collect();
        let nb = 1 + r.below(3);
        let mut b: Vec<u8> = vec![];
        for i in 0..nb {
            b.extend(format!("{{\"id\":{},\"s\":\"{}\",\"k\":\"{}\"}}\n", 100000 + i, word, word.chars().rev().collect::<String>()).into_bytes());
        }
        let q = *r.pick(&["* | json", "* | json | length(s) as len", "* | json | fields only id, s", "* | json | where isNull(pad) | concat(s, k) as sk", "* | parse \"\\\"s\\\":\\\"*\\\"\" as sv"]);
        let mode = if r.chance(30) { "logfmt" } else { "json" };
        let mut ab = a.clone();
        ab.extend(&b);
        let key = format!("long-prefix:{}:{}:{}:{}", q, mode, target, word);
        let info = serde_json::json!({"query": q, "mode": mode, "A_bytes": a.len(), "B": String::from_utf8_lossy(&b), "note": "A = ASCII JSON lines, last one padded to the stated length (regenerate from the seed)"});
        let (ra, rb, rab) = (imp::run(q, &a, mode, 20), imp::run(q, &b, mode, 20), imp::run(q, &ab, mode, 20));
        if !rab.compiled || rab.panicked.is_some() || ra.panicked.is_some() || rb.panicked.is_some() || rab.hung {
            ctx.case("long-prefix", "", "skip", serde_json::json!({"why": "did not run (judged by C11)", "case": info}));
            continue;
        }
        let mut cat = ra.stdout.clone();
        cat.extend(&rb.stdout);
        if cat != rab.stdout || ra.error_lines + rb.error_lines != rab.error_lines {
            let tail = |v: &[u8]| String::from_utf8_lossy(&v[v.len().saturating_sub(600)..]).to_string();
            ctx.case("long-prefix", &key, "viol", serde_json::json!({"class": "", "what": "run(A++B) differs from run(A)++run(B): a line's output depends on its offset in the byte stream",
                "got_AB_tail": tail(&rab.stdout), "got_A_then_B_tail": tail(&cat), "case": info}));
            continue;
        }
        ctx.case("long-prefix", &key, "pass", info.clone());
        let c = run_both(ctx, q, &ab);
        match compare(&c, true) {
            F::Agree => ctx.case("model", &key, "pass", info),
            F::Skip(w) => ctx.case("model", "", "skip", serde_json::json!({"why": w.split(':').next().unwrap_or("").to_string()})),
            F::Disagree(d) => ctx.case("model", &key, "fdis", serde_json::json!({"what": d.chars().take(800).collect::<String>(), "case": info})),
        }
    }
}

/// raw-text extractors (parse, split, logfmt) over a column whose values change TYPE from line to
/// line — fractions, integers beyond 2^53, small integers, booleans, words: what a line yields must
/// not depend on what the line before it held
fn check_mixed_types(ctx: &mut Ctx) {
    let n = ctx.budget(200, 6000);
    const VALS: &[&str] = &["1.5", "0.25", "-3.75", "9007199254740993", "1700000000123456789", "-9223372036854775807", "9223372036854775807", "18014398509481985", "7", "-7", "0", "true", "false", "word", "1e3", "1e-3", "007", "+5", "", "NaN", "inf", "12345678901234567890"];
    for _ in 0..n {
        let mut r = ctx.rng.fork();
        let (q, mk): (&str, fn(&str, usize) -> String) = *r.pick(&[
            ("* | parse \"value=* \" as v", (|v, i| format!("id={} value={} end\n", i, v)) as fn(&str, usize) -> String),
            ("* | parse \"value=* \" as v | parse \"id=* \" as id", |v, i| format!("id={} value={} end\n", i, v)),
            ("* | parse regex \"value=(?P<v>\\S*)\"", |v, i| format!("id={} value={} end\n", i, v)),
            ("* | logfmt", |v, i| format!("id={} value={} end=1\n", i, v)),
            ("* | split on \",\" as parts", |v, i| format!("{},{},x\n", i, v)),
            ("* | json | parse \"v=*;\" from msg as v", |v, i| format!("{{\"id\":{},\"msg\":\"v={};\"}}\n", i, v)),
        ]);
        let (na, nb) = (1 + r.below(5), 1 + r.below(5));
        let a: Vec<u8> = (0..na).map(|i| mk(*r.pick(VALS), i)).collect::<String>().into_bytes();
        let b: Vec<u8> = (0..nb).map(|i| mk(*r.pick(VALS), 100 + i)).collect::<String>().into_bytes();
        let mut ab = a.clone();
        ab.extend(&b);
        let key = ckey(q, &ab);
        let info = serde_json::json!({"query": q, "A": String::from_utf8_lossy(&a), "B": String::from_utf8_lossy(&b)});
        let (ra, rb, rab) = (imp::run(q, &a, "json", 10), imp::run(q, &b, "json", 10), imp::run(q, &ab, "json", 10));
        if !rab.compiled || rab.panicked.is_some() || ra.panicked.is_some() || rb.panicked.is_some() {
            ctx.case("mixed-types", "", "skip", serde_json::json!({"why": "did not run (judged by C04/C11)", "case": info}));
            continue;
        }
        let mut cat = ra.stdout.clone();
        cat.extend(&rb.stdout);
        // per line on its own
        let mut solo = vec![];
        for line in ab.split_inclusive(|c| *c == b'\n') {
            solo.extend(imp::run(q, line, "json", 10).stdout);
        }
        if cat != rab.stdout || solo != rab.stdout {
            ctx.case("mixed-types", &key, "viol", serde_json::json!({"class": "", "what": "a line's output depends on the lines before it (run(A++B) differs from run(A)++run(B) or from the lines run one at a time)",
                "got_AB": String::from_utf8_lossy(&rab.stdout), "got_A_then_B": String::from_utf8_lossy(&cat), "line_by_line": String::from_utf8_lossy(&solo), "case": info}));
            continue;
        }
        ctx.case("mixed-types", &key, "pass", info.clone());
        let c = run_both(ctx, q, &ab);
        match compare(&c, true) {
            F::Agree => ctx.case("model", &key, "pass", info),
            F::Skip(w) => ctx.case("model", "", "skip", serde_json::json!({"why": w.split(':').next().unwrap_or("").to_string()})),
            F::Disagree(d) => ctx.case("model", &key, "fdis", serde_json::json!({"what": d.chars().take(800).collect::<String>(), "case": info})),
        }
    }
}

/// `split … as <path>` with an indexed or nested target: the write succeeds exactly when the same
/// path can be READ afterwards (an index outside the row's array is an error: no row), it changes
/// nothing but the addressed element, and the result does not depend on the neighbouring lines
fn check_indexed_write(ctx: &mut Ctx) {
    let n = ctx.budget(200, 6000);
    for _ in 0..n {
        let mut r = ctx.rng.fork();
        let idx = *r.pick(&[0i64, 1, 2, 3, 4, -1, -2, -3, -4, -5, 7]);
        let target = match r.below(3) {
            0 => format!("arr[{}]", idx),
            1 => format!("arr[{}].tag", idx),
            _ => format!("o.list[{}]", idx),
        };
        let nrows = 1 + r.below(6);
        let mut lines: Vec<String> = vec![];
        for i in 0..nrows {
            let len = r.below(5);
            let elems: Vec<String> = (0..len).map(|j| if target.ends_with(".tag") { format!("{{\"v\":{}}}", j) } else { format!("{}", j * 10) }).collect();
            lines.push(format!("{{\"id\":{},\"x\":\"a-b\",\"arr\":[{}],\"o\":{{\"list\":[{}],\"keep\":true}}}}\n", i, elems.join(","), elems.join(",")));
        }
        let input: Vec<u8> = lines.concat().into_bytes();
        let q1 = format!("* | json | split(x) on \"-\" as {}", target);
        let q2 = format!("{} | {} as chk", q1, target);
        let key = ckey(&q1, &input);
        let info = serde_json::json!({"query": q1, "input": String::from_utf8_lossy(&input)});
        let (r1, r2) = (imp::run(&q1, &input, "json", 10), imp::run(&q2, &input, "json", 10));
        if !r1.compiled || !r2.compiled || r1.panicked.is_some() || r2.panicked.is_some() {
            ctx.case("indexed-write", "", "skip", serde_json::json!({"why": "query rejected or panicked (judged elsewhere)", "case": info}));
            continue;
        }
        let ids = |b: &[u8]| -> Vec<String> { String::from_utf8_lossy(b).lines().filter_map(|l| l.split("\"id\":").nth(1).map(|x| x.chars().take_while(|c| c.is_ascii_digit()).collect())).collect() };
        let mut problem: Option<String> = None;
        if ids(&r1.stdout) != ids(&r2.stdout) {
            problem = Some(format!("rows written: ids {:?}; rows on which the same path can be read back: ids {:?}", ids(&r1.stdout), ids(&r2.stdout)));
        }
        // per line = whole stream
        let mut solo = vec![];
        for l in &lines {
            solo.extend(imp::run(&q1, l.as_bytes(), "json", 10).stdout);
        }
        if problem.is_none() && crate::canon::normalized_lines(&solo) != crate::canon::normalized_lines(&r1.stdout) {
            problem = Some("a line's output depends on the other lines".into());
        }
        // nothing but the addressed element changes: `keep`, `x`, `id` and the lengths of both arrays
        if problem.is_none() {
            for row in crate::canon::normalized_lines(&r1.stdout).unwrap_or_default() {
                let t = super::c03::to_json(&row);
                if !t.contains("\"keep\":true") || !t.contains("\"x\":\"a-b\"") {
                    problem = Some(format!("an unnamed field changed: {}", t));
                }
            }
        }
        match problem {
            Some(w) => ctx.case("indexed-write", &key, "viol", serde_json::json!({"class": "", "what": w, "got": String::from_utf8_lossy(&r1.stdout), "case": info})),
            None => {
                ctx.case("indexed-write", &key, "pass", info.clone());
                let c = run_both(ctx, &q1, &input);
                match compare(&c, true) {
                    F::Agree => ctx.case("model", &key, "pass", info),
                    F::Skip(w) => ctx.case("model", "", "skip", serde_json::json!({"why": w.split(':').next().unwrap_or("").to_string()})),
                    F::Disagree(d) => ctx.case("model", &key, "fdis", serde_json::json!({"what": d.chars().take(800).collect::<String>(), "case": info})),
                }
            }
        }
    }
}

fn ensure_nl(mut v: Vec<u8>) -> Vec<u8> {
    if !v.is_empty() && v.last() != Some(&b'\n') {
        v.push(b'\n');
    }
    v
}


/// add a `ts` member with a timestamp that is NOT monotonic across lines (minutes and days jump
/// back and forth) to every JSON object line
fn with_ts(r: &mut Rng, input: &[u8]) -> Vec<u8> {
    let mut out = vec![];
    for line in input.split_inclusive(|b| *b == b'\n') {
        if line.starts_with(b"{\"id\":") {
            let ts = format!("2021-0{}-{:02}T{:02}:{:02}:{:02}Z", 1 + r.below(2), 1 + r.below(3), 10 + r.below(4), r.below(60), r.below(60));
            out.extend(format!("{{\"ts\":\"{}\",", ts).into_bytes());
            out.extend(&line[1..]);
        } else {
            out.extend(line);
        }
    }
    out
}
