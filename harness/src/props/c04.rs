//! C04: every query is either fully honoured or rejected with a diagnostic.
//!
//! F-level: the shared PARSE comparison (props/parse.rs) of the Lean parser model against
//! `ag::lang::query` on every generated string.
//! P-level oracles on the REAL code only:
//!  (a) compilation (`Pipeline::new`) terminates, does not panic, does not hang;
//!  (b) rejected ⇒ `Pipeline::new` returned Err, every reported range [a,b) satisfies
//!      a ≤ b ≤ number of characters of the query (the unit annotate-snippets uses), nothing on stdout;
//!  (c) accepted ⇒ nothing ignored: no Error node in the AST; the AST rendered back to a canonical
//!      text re-parses to the same AST; original and canonical text have the same multiset of
//!      identifier/number/string tokens (modulo the documented synonyms) and the same number of
//!      stages; both texts give the same output on a probe input;
//!  (d) the documented static errors are always rejected (witness table + generated variants);
//!  (e) subprocess sample on the binary: rejected ⇒ non-zero exit, empty stdout, non-empty stderr.
use super::parse;
use crate::canon::{self, J};
use crate::enc;
use crate::imp;
use crate::rng::Rng;
use crate::Ctx;
use ag::data::Value;
use ag::lang::*;
use std::collections::BTreeMap;

/* ---------- known findings ---------- */

pub fn open_classes(prop: &str) -> Vec<String> {
    let mut v = vec![];
    if let Ok(t) = std::fs::read_to_string("/verif/known_findings.json") {
        if let Ok(j) = serde_json::from_str::<serde_json::Value>(&t) {
            if let Some(fs) = j["findings"].as_array() {
                for f in fs {
                    if f["property"] == prop && f["status"] == "open" {
                        if let Some(c) = f["class"].as_str() {
                            v.push(c.to_string());
                        }
                    }
                }
            }
        }
    }
    v
}

pub struct Rep {
    open: Vec<String>,
    /// at most this many full reports per class (the rest are counted)
    seen: BTreeMap<String, usize>,
}

impl Rep {
    pub fn new(prop: &str) -> Rep {
        Rep { open: open_classes(prop), seen: BTreeMap::new() }
    }
    /// report an oracle failure: `known` when the class is a listed open finding, else `viol`
    pub fn fail(&mut self, ctx: &mut Ctx, family: &str, key: &str, class: &str, what: &str, mut info: serde_json::Value) {
        let n = self.seen.entry(class.to_string()).or_insert(0);
        *n += 1;
        ctx.count(&format!("oracle-failure:{}", class));
        if *n > 12 {
            return;
        }
        info["class"] = serde_json::json!(class);
        info["what"] = serde_json::json!(what);
        let verdict = if self.open.iter().any(|c| c == class) { "known" } else { "viol" };
        ctx.case(family, key, verdict, info);
    }
}

/* ---------- AST -> canonical text ---------- */

pub fn quote(s: &str) -> String {
    let mut o = String::from("\"");
    for c in s.chars() {
        match c {
            '\\' => o.push_str("\\\\"),
            '"' => o.push_str("\\\""),
            '\t' => o.push_str("\\t"),
            '\n' => o.push_str("\\n"),
            '\r' => o.push_str("\\r"),
            '\0' => o.push_str("\\0"),
            c => o.push(c),
        }
    }
    o.push('"');
    o
}

fn ascii_ident(s: &str) -> bool {
    let mut cs = s.chars();
    match cs.next() {
        Some(c) if c.is_ascii_alphabetic() || c == '_' => cs.all(|c| c.is_ascii_alphanumeric() || c == '_'),
        _ => false,
    }
}

const TAG_PREFIXES: &[&str] = &[
    "parse", "json", "logfmt", "fields", "limit", "split", "timeslice", "total", "where", "count", "min", "max", "p", "sum", "avg", "sort", "if", "true",
    "false", "null",
];

/// an identifier position: bare only when that cannot collide with a prefix tag
pub fn ident(s: &str) -> String {
    if ascii_ident(s) && !TAG_PREFIXES.iter().any(|p| s.starts_with(p)) {
        s.to_string()
    } else {
        format!("[{}]", quote(s))
    }
}

pub fn dur_text(ns: i128) -> String {
    let ms = ns / 1_000_000;
    let rem = ns % 1_000_000;
    if rem == 0 {
        format!("{}ms", ms)
    } else if ms == 0 {
        format!("{}ns", rem)
    } else {
        format!("{}ms{}ns", ms, rem)
    }
}

fn value_text(v: &Value) -> Option<String> {
    Some(match v {
        Value::None => "null".into(),
        Value::Bool(b) => format!("{}", b),
        Value::Int(i) if *i >= 0 => format!("{}", i),
        // a digit string beyond i64 becomes a float: written back as its (integral) digits
        Value::Float(f) if f.0.is_finite() && f.0 >= 0.0 && f.0.fract() == 0.0 => format!("{:.0}", f.0),
        Value::Str(s) => quote(s),
        Value::Duration(d) => dur_text(enc::dur_ns(d)),
        _ => return None,
    })
}

fn atom_text(a: &DataAccessAtom) -> String {
    match a {
        DataAccessAtom::Key(k) => format!(".{}", ident(k)),
        DataAccessAtom::Index(i) => format!("[{}]", i),
    }
}

/// precedence levels: 0 or, 1 and, 2 comparison, 3 +/-, 4 * /, 5 unary, 6 atomic
fn rx(e: &Expr, min: u8) -> Option<String> {
    let (lvl, s): (u8, String) = match e {
        Expr::Column { head, rest } => {
            let h = match head {
                DataAccessAtom::Key(k) => ident(k),
                DataAccessAtom::Index(_) => return None,
            };
            (6, format!("{}{}", h, rest.iter().map(atom_text).collect::<String>()))
        }
        Expr::Unary { op: UnaryOp::Not, operand } => (5, format!("!{}", rx(operand, 6)?)),
        Expr::Binary { op, left, right } => match op {
            BinaryOp::Logical(LogicalOp::Or) => (0, format!("{} or {}", rx(left, 0)?, rx(right, 1)?)),
            BinaryOp::Logical(LogicalOp::And) => (1, format!("{} and {}", rx(left, 1)?, rx(right, 2)?)),
            BinaryOp::Comparison(c) => {
                let o = match c {
                    ComparisonOp::Eq => "==",
                    ComparisonOp::Neq => "!=",
                    ComparisonOp::Gt => ">",
                    ComparisonOp::Lt => "<",
                    ComparisonOp::Gte => ">=",
                    ComparisonOp::Lte => "<=",
                };
                (2, format!("{} {} {}", rx(left, 3)?, o, rx(right, 3)?))
            }
            BinaryOp::Arithmetic(a) => match a {
                ArithmeticOp::Add => (3, format!("{} + {}", rx(left, 3)?, rx(right, 4)?)),
                ArithmeticOp::Subtract => (3, format!("{} - {}", rx(left, 3)?, rx(right, 4)?)),
                ArithmeticOp::Multiply => (4, format!("{} * {}", rx(left, 4)?, rx(right, 5)?)),
                ArithmeticOp::Divide => (4, format!("{} / {}", rx(left, 4)?, rx(right, 5)?)),
            },
        },
        Expr::FunctionCall { name, args } => {
            let mut a = vec![];
            for x in args {
                a.push(rx(x, 0)?);
            }
            (6, format!("{}({})", ident(name), a.join(", ")))
        }
        Expr::IfOp { cond, value_if_true, value_if_false } => {
            (6, format!("if({}, {}, {})", rx(cond, 0)?, rx(value_if_true, 0)?, rx(value_if_false, 0)?))
        }
        Expr::Value(v) => (6, value_text(v)?),
        Expr::Error => return None,
    };
    Some(if lvl < min { format!("({})", s) } else { s })
}

pub fn expr_text(e: &Expr) -> Option<String> {
    rx(e, 0)
}

fn kw_char(c: char) -> bool {
    matches!(c, '-' | '_' | ':' | '/' | '.' | '+' | '@' | '#' | '$' | '%' | '^' | '*') || (c as u8).is_ascii_alphanumeric()
}

fn search_low(s: &Search) -> Option<String> {
    Some(match s {
        Search::Keyword(k) => {
            let (text, kind) = k.verif_parts();
            match kind {
                0 => quote(text),
                1 => {
                    if text.is_empty() || !text.chars().all(kw_char) || text.starts_with('*') || text.ends_with('*') {
                        return None;
                    }
                    if text == "AND" || text == "OR" || text == "NOT" {
                        format!("({})", text)
                    } else {
                        text.to_string()
                    }
                }
                _ => return None,
            }
        }
        Search::Not(x) => format!("NOT {}", search_low(x)?),
        // `NOT *`: the negation of "every line" (repo commit 0ef6700)
        Search::And(v) if v.is_empty() => "*".to_string(),
        Search::And(v) | Search::Or(v) if v.len() >= 2 => {
            let mut parts = vec![];
            for x in v {
                parts.push(search_low(x)?);
            }
            format!("({})", parts.join(if matches!(s, Search::And(_)) { " AND " } else { " OR " }))
        }
        _ => return None,
    })
}

fn search_text(s: &Search) -> Option<String> {
    match s {
        Search::And(v) if v.is_empty() => Some("*".into()),
        Search::And(v) => {
            let mut parts = vec![];
            for x in v {
                parts.push(search_low(x)?);
            }
            Some(parts.join(" "))
        }
        _ => None,
    }
}

fn names_text(v: &[String]) -> String {
    v.iter().map(|n| ident(n)).collect::<Vec<_>>().join(", ")
}

fn limit_text(f: f64) -> String {
    if f.is_finite() && f.fract() == 0.0 && f.abs() < 1e15 {
        format!("{}", f as i64)
    } else {
        format!("{:?}", f)
    }
}

fn aggfn_text(f: &AggregateFunction) -> Option<String> {
    Some(match f {
        AggregateFunction::Count { condition: None } => "count".into(),
        AggregateFunction::Count { condition: Some(e) } => format!("count({})", rx(e, 0)?),
        AggregateFunction::Sum { column } => format!("sum({})", rx(column, 0)?),
        AggregateFunction::Min { column } => format!("min({})", rx(column, 0)?),
        AggregateFunction::Max { column } => format!("max({})", rx(column, 0)?),
        AggregateFunction::Average { column } => format!("avg({})", rx(column, 0)?),
        AggregateFunction::Percentile { percentile_str, column, .. } => format!("p{}({})", percentile_str, rx(column, 0)?),
        AggregateFunction::CountDistinct { column: None } => "count_distinct".into(),
        AggregateFunction::CountDistinct { column: Some(p) } => {
            let mut a = vec![];
            for x in &p.value {
                a.push(rx(x, 0)?);
            }
            format!("count_distinct({})", a.join(", "))
        }
        AggregateFunction::Error => return None,
    })
}

fn inline_text(i: &InlineOperator, split_as: bool) -> Option<String> {
    Some(match i {
        InlineOperator::Json { input_column: None } => "json".into(),
        InlineOperator::Json { input_column: Some(e) } => format!("json from {}", rx(e, 0)?),
        InlineOperator::Logfmt { input_column: None } => "logfmt".into(),
        InlineOperator::Logfmt { input_column: Some(e) } => format!("logfmt from {}", rx(e, 0)?),
        InlineOperator::Parse { pattern, fields, input_column, no_drop, no_convert } => {
            let (text, kind) = pattern.verif_parts();
            let mut s = String::from("parse ");
            if kind == 2 {
                s.push_str("regex ");
            }
            s.push_str(&quote(text));
            if let Some(p) = &input_column.0 {
                s.push_str(&format!(" from {}", rx(&p.value, 0)?));
            }
            if kind != 2 && !fields.is_empty() {
                s.push_str(&format!(" as {}", names_text(fields)));
            }
            if let Some(p) = &input_column.1 {
                s.push_str(&format!(" from {}", rx(&p.value, 0)?));
            }
            if *no_drop {
                s.push_str(" nodrop");
            }
            if *no_convert {
                s.push_str(" noconvert");
            }
            s
        }
        InlineOperator::Fields { mode, fields } => {
            format!("fields {} {}", if *mode == FieldMode::Only { "only" } else { "except" }, names_text(fields))
        }
        InlineOperator::Where { expr: None } => "where".into(),
        InlineOperator::Where { expr: Some(p) } => format!("where {}", rx(&p.value, 0)?),
        InlineOperator::Limit { count: None } => "limit".into(),
        InlineOperator::Limit { count: Some(p) } => format!("limit {}", limit_text(p.value)),
        InlineOperator::Split { separator, input_column, output_column } => {
            let mut s = String::from("split");
            if let Some(e) = input_column {
                s.push_str(&format!("({})", rx(e, 0)?));
            }
            s.push_str(&format!(" on {}", quote(separator)));
            match (input_column, output_column) {
                (Some(a), Some(b)) if a == b && !split_as => {}
                (_, Some(b)) => s.push_str(&format!(" as {}", rx(b, 0)?)),
                (None, None) => {}
                (Some(_), None) => return None,
            }
            s
        }
        InlineOperator::Timeslice { input_column, duration, output_column } => {
            let mut s = format!("timeslice({})", rx(input_column, 0)?);
            if let Some(d) = duration {
                s.push_str(&format!(" {}", dur_text(enc::dur_ns(d))));
            }
            if let Some(o) = output_column {
                s.push_str(&format!(" as {}", ident(o)));
            }
            s
        }
        InlineOperator::Total { input_column, output_column } => format!("total({}) as {}", rx(input_column, 0)?, ident(output_column)),
        InlineOperator::FieldExpression { value, name } => format!("{} as {}", rx(value, 0)?, ident(name)),
    })
}

fn alias_table() -> Vec<(String, String)> {
    let mut v = vec![];
    for kw in ["apache", "nginx", "k8singressnginx", "testmultioperator"] {
        if let Ok((Some(q), _)) = imp::parse(&format!("* | {}", kw)) {
            if let Some(Operator::RenderedAlias(ops)) = q.operators.first() {
                let mut out = vec![];
                for o in ops {
                    enc::operator(o, &mut out);
                }
                v.push((out.join(" "), kw.to_string()));
            }
        }
    }
    v
}

fn operator_text(o: &Operator, aliases: &[(String, String)], split_as: bool) -> Option<String> {
    Some(match o {
        Operator::RenderedAlias(ops) => {
            let mut out = vec![];
            for x in ops {
                enc::operator(x, &mut out);
            }
            let key = out.join(" ");
            aliases.iter().find(|a| a.0 == key)?.1.clone()
        }
        Operator::Inline(p) => inline_text(&p.value, split_as)?,
        Operator::MultiAggregate(m) => {
            let mut fns = vec![];
            for (n, f) in &m.aggregate_functions {
                fns.push(format!("{} as {}", aggfn_text(&f.value)?, ident(n)));
            }
            let mut s = fns.join(", ");
            if !m.key_col_headers.is_empty() {
                // the header IS the (trimmed) source text of the key expression
                s.push_str(&format!(" by {}", m.key_col_headers.join(", ")));
            }
            s
        }
        Operator::Sort(so) => {
            let mut s = String::from("sort");
            if !so.sort_cols.is_empty() {
                let mut cols = vec![];
                for c in &so.sort_cols {
                    cols.push(rx(c, 0)?);
                }
                s.push_str(&format!(" by {}", cols.join(", ")));
            }
            if so.direction == SortMode::Descending {
                s.push_str(" desc");
            }
            s
        }
        Operator::Error => return None,
    })
}

pub struct Renderer {
    aliases: Vec<(String, String)>,
}

impl Renderer {
    pub fn new() -> Renderer {
        Renderer { aliases: alias_table() }
    }
    /// canonical query text of an AST (None: contains an Error node or something no text produces)
    pub fn query(&self, q: &Query) -> Option<String> {
        self.query_with(q, false)
    }
    /// `split_as`: write `split(x) … as x` even when the output column equals the input column
    pub fn query_with(&self, q: &Query, split_as: bool) -> Option<String> {
        let mut s = search_text(&q.search)?;
        for o in &q.operators {
            s.push_str(" | ");
            s.push_str(&operator_text(o, &self.aliases, split_as)?);
        }
        Some(s)
    }
}

/* ---------- Error nodes ---------- */

fn expr_has_error(e: &Expr) -> bool {
    match e {
        Expr::Error => true,
        Expr::Column { .. } | Expr::Value(_) => false,
        Expr::Unary { operand, .. } => expr_has_error(operand),
        Expr::Binary { left, right, .. } => expr_has_error(left) || expr_has_error(right),
        Expr::FunctionCall { args, .. } => args.iter().any(expr_has_error),
        Expr::IfOp { cond, value_if_true, value_if_false } => expr_has_error(cond) || expr_has_error(value_if_true) || expr_has_error(value_if_false),
    }
}

fn oe(e: &Option<Expr>) -> bool {
    e.as_ref().map(expr_has_error).unwrap_or(false)
}

fn op_has_error(o: &Operator) -> bool {
    match o {
        Operator::Error => true,
        Operator::RenderedAlias(ops) => ops.iter().any(op_has_error),
        Operator::Sort(s) => s.sort_cols.iter().any(expr_has_error),
        Operator::MultiAggregate(m) => {
            m.key_cols.iter().any(expr_has_error)
                || m.aggregate_functions.iter().any(|(_, f)| match &f.value {
                    AggregateFunction::Error => true,
                    AggregateFunction::Count { condition } => oe(condition),
                    AggregateFunction::Sum { column }
                    | AggregateFunction::Min { column }
                    | AggregateFunction::Max { column }
                    | AggregateFunction::Average { column }
                    | AggregateFunction::Percentile { column, .. } => expr_has_error(column),
                    AggregateFunction::CountDistinct { column } => column.as_ref().map(|p| p.value.iter().any(expr_has_error)).unwrap_or(false),
                })
        }
        Operator::Inline(p) => match &p.value {
            InlineOperator::Json { input_column } | InlineOperator::Logfmt { input_column } => oe(input_column),
            InlineOperator::Parse { input_column, .. } => {
                input_column.0.as_ref().map(|p| expr_has_error(&p.value)).unwrap_or(false)
                    || input_column.1.as_ref().map(|p| expr_has_error(&p.value)).unwrap_or(false)
            }
            InlineOperator::Fields { .. } | InlineOperator::Limit { .. } => false,
            InlineOperator::Where { expr } => expr.as_ref().map(|p| expr_has_error(&p.value)).unwrap_or(false),
            InlineOperator::Split { input_column, output_column, .. } => oe(input_column) || oe(output_column),
            InlineOperator::Timeslice { input_column, .. } | InlineOperator::Total { input_column, .. } => expr_has_error(input_column),
            InlineOperator::FieldExpression { value, .. } => expr_has_error(value),
        },
    }
}

pub fn has_error_node(q: &Query) -> bool {
    q.operators.iter().any(op_has_error)
}

/* ---------- token multiset ---------- */

fn unescape(body: &str) -> String {
    let mut out = String::new();
    let mut esc = false;
    for c in body.chars() {
        if esc {
            match c {
                '\\' => out.push('\\'),
                't' => out.push('\t'),
                'r' => out.push('\r'),
                'n' => out.push('\n'),
                '0' => out.push('\0'),
                '\'' => out.push('\''),
                '"' => out.push('"'),
                o => {
                    out.push('\\');
                    out.push(o)
                }
            }
            esc = false;
        } else if c == '\\' {
            esc = true;
        } else {
            out.push(c);
        }
    }
    out
}

const DROPPED_WORDS: &[&str] = &[
    "as", "by", "from", "on", "and", "or", "asc", "ascending", "only", "include", "except", "drop", "AND", "OR", "NOT",
];
const UNITS: &[&str] = &["ns", "us", "ms", "s", "m", "h", "d", "w"];

fn norm_word(w: &str) -> Option<String> {
    if DROPPED_WORDS.contains(&w) {
        return None;
    }
    for p in ["percentile", "pct", "p"] {
        if let Some(d) = w.strip_prefix(p) {
            if !d.is_empty() && d.chars().all(|c| c.is_ascii_digit()) {
                return Some(format!("T:p{}", d.trim_start_matches('0')));
            }
        }
    }
    Some(format!(
        "T:{}",
        match w {
            "average" => "avg",
            "descending" | "dsc" => "desc",
            o => o,
        }
    ))
}

/// match `(-?digits unit)+` at position i; returns the end
fn match_duration(cs: &[char], i: usize) -> Option<usize> {
    let mut j = i;
    let mut any = false;
    loop {
        let mut k = j;
        if k < cs.len() && cs[k] == '-' {
            k += 1;
        }
        let d0 = k;
        while k < cs.len() && cs[k].is_ascii_digit() {
            k += 1;
        }
        if k == d0 {
            break;
        }
        let mut unit = None;
        for u in UNITS {
            let uc: Vec<char> = u.chars().collect();
            if k + uc.len() <= cs.len() && cs[k..k + uc.len()] == uc[..] {
                unit = Some(uc.len());
                break;
            }
        }
        match unit {
            Some(n) => {
                j = k + n;
                any = true;
            }
            None => break,
        }
    }
    if any {
        Some(j)
    } else {
        None
    }
}

/// (sorted token multiset, number of `|` stage separators)
pub fn lex(text: &str) -> (Vec<String>, usize) {
    let cs: Vec<char> = text.chars().collect();
    let mut toks = vec![];
    let mut pipes = 0;
    let mut i = 0;
    while i < cs.len() {
        let c = cs[i];
        if c == '"' || c == '\'' {
            let mut j = i + 1;
            let mut body = String::new();
            while j < cs.len() && cs[j] != c {
                if cs[j] == '\\' && j + 1 < cs.len() {
                    body.push(cs[j]);
                    body.push(cs[j + 1]);
                    j += 2;
                } else {
                    body.push(cs[j]);
                    j += 1;
                }
            }
            // an empty string literal is an empty keyword: dropped by design (documented)
            if !body.is_empty() {
                // a quoted identifier (`["p50"]`) is the same token as the bare word
                if body.chars().all(|c| c.is_alphanumeric() || c == '_') {
                    if let Some(t) = norm_word(&body) {
                        toks.push(t);
                    }
                } else {
                    toks.push(format!("T:{}", unescape(&body)));
                }
            }
            i = j + 1;
        } else if c == '|' {
            if i + 1 < cs.len() && cs[i + 1] == '|' {
                i += 2;
            } else {
                pipes += 1;
                i += 1;
            }
        } else if (c.is_ascii_digit() || (c == '-' && i + 1 < cs.len() && cs[i + 1].is_ascii_digit())) && match_duration(&cs, i).is_some() {
            toks.push("DUR".to_string());
            i = match_duration(&cs, i).unwrap();
        } else if c.is_ascii_digit() {
            let mut j = i;
            while j < cs.len() && cs[j].is_ascii_digit() {
                j += 1;
            }
            let mut is_float = false;
            if j + 1 < cs.len() && cs[j] == '.' && cs[j + 1].is_ascii_digit() {
                is_float = true;
                j += 1;
                while j < cs.len() && cs[j].is_ascii_digit() {
                    j += 1;
                }
            }
            if j < cs.len() && (cs[j] == 'e' || cs[j] == 'E') {
                let mut k = j + 1;
                if k < cs.len() && (cs[k] == '+' || cs[k] == '-') {
                    k += 1;
                }
                if k < cs.len() && cs[k].is_ascii_digit() {
                    while k < cs.len() && cs[k].is_ascii_digit() {
                        k += 1;
                    }
                    is_float = true;
                    j = k;
                }
            }
            let t: String = cs[i..j].iter().collect();
            let f: f64 = t.parse().unwrap_or(f64::NAN);
            if !is_float || (f.fract() == 0.0 && f.is_finite()) {
                // integers saturate at i64::MAX exactly as Value::from_string does
                let v = if f >= 9.2233720368547758e18 { i64::MAX } else { f as i64 };
                let exact: Option<i64> = t.parse().ok();
                toks.push(format!("N:{}", exact.unwrap_or(v)));
            } else {
                toks.push(format!("F:{:016x}", f.to_bits()));
            }
            i = j;
        } else if c.is_alphanumeric() || c == '_' {
            let mut j = i;
            while j < cs.len() && (cs[j].is_alphanumeric() || cs[j] == '_') {
                j += 1;
            }
            let w: String = cs[i..j].iter().collect();
            if let Some(t) = norm_word(&w) {
                toks.push(t);
            }
            i = j;
        } else {
            i += 1;
        }
    }
    toks.sort();
    (toks, pipes)
}

const DEFAULT_NAMES: &[&str] = &["T:_count", "T:_sum", "T:_min", "T:_max", "T:_average", "T:_countDistinct", "T:_total", "T:,"];

/// tokens of `a` not matched in `b` (multiset difference of two sorted lists)
fn minus(a: &[String], b: &[String]) -> Vec<String> {
    let mut out = vec![];
    let mut j = 0;
    for x in a {
        while j < b.len() && &b[j] < x {
            j += 1;
        }
        if j < b.len() && &b[j] == x {
            j += 1;
        } else {
            out.push(x.clone());
        }
    }
    out
}

const GLUE_KEYWORDS: &[&str] = &[
    "count_distinct", "count", "as", "by", "only", "include", "except", "drop", "from", "on", "nodrop", "noconvert", "regex", "asc", "desc", "dsc", "sort",
    "fields", "not", "and", "or",
];

fn is_default_name(t: &str) -> bool {
    DEFAULT_NAMES.contains(&t) || (t.starts_with("T:p") && t.len() > 3 && t[3..].chars().all(|c| c.is_ascii_digit()))
}

/// can `word` be read as one or more keywords directly followed by a token of `avail` (or by
/// nothing)?  On success the used tokens are removed from `avail`.
fn unglue(word: &str, avail: &mut Vec<String>) -> bool {
    fn go(w: &str, avail: &mut Vec<String>, depth: usize) -> bool {
        for k in GLUE_KEYWORDS {
            if let Some(rest) = w.strip_prefix(k) {
                let mut trial = avail.clone();
                if let Some(n) = norm_word(k) {
                    if let Some(i) = trial.iter().position(|x| *x == n) {
                        trial.remove(i);
                    }
                }
                let ok = if rest.is_empty() {
                    true
                } else if let Some(i) = norm_word(rest).and_then(|n| trial.iter().position(|x| *x == n)) {
                    trial.remove(i);
                    true
                } else {
                    depth < 3 && go(rest, &mut trial, depth + 1)
                };
                if ok {
                    *avail = trial;
                    return true;
                }
            }
        }
        false
    }
    go(word, avail, 0)
}

/// the gap is only a keyword written without a blank before the next token (`countby x`, `asx`)
pub fn gap_is_glued_keyword(orig: &str, canon: &str) -> bool {
    let (to, po) = lex(orig);
    let (tc, pc) = lex(canon);
    if po != pc {
        return false;
    }
    let extra_o = minus(&to, &tc);
    let mut extra_c = minus(&tc, &to);
    if extra_o.is_empty() {
        return false;
    }
    for t in &extra_o {
        match t.strip_prefix("T:") {
            Some(w) => {
                if !unglue(w, &mut extra_c) {
                    return false;
                }
            }
            None => return false,
        }
    }
    extra_c.iter().all(|t| is_default_name(t))
}

/// None = covered; Some(explanation) = text of the original that the AST does not account for
pub fn coverage_gap(orig: &str, canon: &str) -> Option<String> {
    coverage_gap_with(orig, canon, &[])
}

/// `optional`: tokens the original may contain in addition (once each): the explicit output column
/// of `split(x) … as x`, which equals the default
pub fn coverage_gap_with(orig: &str, canon: &str, optional: &[String]) -> Option<String> {
    let (mut to, po) = lex(orig);
    let (mut tc, pc) = lex(canon);
    if po != pc {
        return Some(format!("the text has {} stage separators, the accepted query has {}", po, pc));
    }
    // `x OR *` IS `*` (every line): an OR chain with a `*`-only / empty operand absorbs its other
    // operands by meaning, not by oversight (repo commit 0ef6700; the filter semantics is C02's
    // business).  For such a filter only the operator part of the text is compared.
    let (fo, ro) = split_filter(orig);
    if or_absorbs(fo) {
        to = lex(ro).0;
        tc = lex(split_filter(canon).1).0;
    }
    let mut opt: Vec<String> = optional.to_vec();
    opt.sort();
    let extra_o = minus(&minus(&to, &tc), &opt);
    let extra_c: Vec<String> = minus(&tc, &to)
        .into_iter()
        .filter(|t| !DEFAULT_NAMES.contains(&t.as_str()) && !(t.starts_with("T:p") && t[3..].chars().all(|c| c.is_ascii_digit())))
        .collect();
    if !extra_o.is_empty() {
        return Some(format!("tokens of the text that the accepted query does not contain: {:?}", extra_o));
    }
    if !extra_c.is_empty() {
        return Some(format!("tokens of the accepted query that the text does not contain: {:?}", extra_c));
    }
    None
}

/// (filter text, rest from the first `|` outside a quoted string)
pub fn split_filter(text: &str) -> (&str, &str) {
    let mut quote: Option<char> = None;
    let mut esc = false;
    for (i, c) in text.char_indices() {
        match quote {
            Some(q) => {
                if esc {
                    esc = false;
                } else if c == '\\' {
                    esc = true;
                } else if c == q {
                    quote = None;
                }
            }
            None => {
                if c == '"' || c == '\'' {
                    quote = Some(c);
                } else if c == '|' {
                    return (&text[..i], &text[i..]);
                }
            }
        }
    }
    (text, "")
}

/// does the filter contain an `OR` and an operand that stands for every line (`*`, `**`, `""`, `''`)?
fn or_absorbs(filter: &str) -> bool {
    let mut words: Vec<String> = vec![];
    let mut cur = String::new();
    let mut quote: Option<char> = None;
    let mut esc = false;
    for c in filter.chars() {
        match quote {
            Some(q) => {
                cur.push(c);
                if esc {
                    esc = false;
                } else if c == '\\' {
                    esc = true;
                } else if c == q {
                    quote = None;
                    // a quoted keyword ends with its closing quote
                    words.push(std::mem::take(&mut cur));
                }
            }
            None => {
                if c.is_whitespace() || c == '(' || c == ')' {
                    if !cur.is_empty() {
                        words.push(std::mem::take(&mut cur));
                    }
                } else {
                    if c == '"' || c == '\'' {
                        // … and starts a new operand even when glued to a bare keyword (`*"a"`)
                        if !cur.is_empty() {
                            words.push(std::mem::take(&mut cur));
                        }
                        quote = Some(c);
                    }
                    cur.push(c);
                }
            }
        }
    }
    if !cur.is_empty() {
        words.push(cur);
    }
    words.iter().any(|w| w == "OR") && words.iter().any(|w| w.chars().all(|c| c == '*') || w == "\"\"" || w == "''")
}

/* ---------- probe ---------- */

pub const PROBE: &str = "{\"k\":\"a\",\"n\":3,\"x\":1.5,\"s\":\"alpha GET\",\"b\":true,\"o\":{\"p\":7,\"q\":[1,2]},\"arr\":[4,5],\"msg\":\"GET user=al took 30ms status=200\",\"status\":200,\"url\":\"/x\",\"t\":\"2023-01-02T03:04:05Z\",\"v\":2,\"host\":\"h1\"}\n\
{\"k\":\"b\",\"n\":-1,\"x\":\"7\",\"s\":\"err\",\"b\":false,\"o\":{\"p\":1},\"arr\":[],\"msg\":\"POST user=bo took 5ms status=500\",\"status\":500,\"url\":\"/y\",\"t\":\"2023-01-02T04:04:05Z\",\"v\":9,\"host\":\"h2\"}\n\
{\"k\":\"a\",\"n\":12,\"x\":2,\"s\":\"error GET alpha\",\"status\":404,\"url\":\"/x\",\"t\":\"2023-01-03T03:04:05Z\",\"host\":\"h1\"}\n\
127.0.0.1 - frank [10/Oct/2000:13:55:36 -0700] \"GET /apache_pb.gif HTTP/1.0\" 200 2326\n\
k=a n=4 status=200 msg=\"hello error\"\n\
plain text line with error and GET\n";

/// output rows of a run as a sorted multiset of key-sorted objects (row order and nested key order
/// are C13's business); None = not comparable (panic / hang / bad JSON)
pub fn probe_rows(q: &str, input: &[u8]) -> Option<(bool, Vec<String>, usize)> {
    let r = imp::run(q, input, "json", 10);
    if r.panicked.is_some() || r.hung {
        return None;
    }
    if !r.compiled {
        return Some((false, vec![], 0));
    }
    let text = String::from_utf8_lossy(&r.stdout).into_owned();
    let mut rows: Vec<String> = vec![];
    let push = |j: &J, rows: &mut Vec<String>| {
        let mut t = vec![];
        canon::tokens(&canon::normalize(j), true, &mut t);
        rows.push(t.join(" "));
    };
    let trimmed = text.trim_end();
    if trimmed.starts_with('[') {
        match canon::parse(trimmed) {
            Ok(J::Arr(v)) => {
                for x in &v {
                    push(x, &mut rows)
                }
            }
            _ => return None,
        }
    } else {
        for l in text.lines().filter(|l| !l.is_empty()) {
            match canon::parse(l) {
                Ok(j) => push(&j, &mut rows),
                Err(_) => return None,
            }
        }
    }
    rows.sort();
    Some((true, rows, r.error_lines))
}

/* ---------- (d) static errors ---------- */

pub const STATIC_ERRORS: &[(&str, &str)] = &[
    ("zero limit", "* | limit 0"),
    ("zero limit", "* | json | limit 0.0"),
    ("zero limit", "* | limit -0"),
    ("zero limit after aggregate", "* | count | limit 0"),
    ("fractional limit", "* | limit 1.5"),
    ("fractional limit", "* | limit -2.25"),
    ("fractional limit", "* | limit 1e-2"),
    ("fractional limit", "* | limit 0.5"),
    ("non-finite limit", "* | limit inf"),
    ("non-finite limit", "* | limit nan"),
    ("capture/field count mismatch", "* | parse \"* *\" as a"),
    ("capture/field count mismatch", "* | parse \"*\" as a, b"),
    ("capture/field count mismatch", "* | parse \"no wildcards\" as a"),
    ("capture/field count mismatch", "* | parse \"* - *\""),
    ("two from clauses", "* | parse \"*\" from a as x from b"),
    ("two from clauses", "* | json | parse \"[*]\" from msg as lvl from msg"),
    ("constant non-boolean where", "* | where 5"),
    ("constant non-boolean where", "* | where \"abc\""),
    ("constant non-boolean where", "* | where null"),
    ("constant non-boolean where", "* | where 5s"),
    ("where without condition", "* | where"),
    ("unknown function", "* | json | nosuchfn(x) as y"),
    ("unknown function", "* | json | where nosuchfn(x) > 1"),
    ("unknown function", "* | json | count by lenght(x)"),
    ("unknown function", "* | json | sum(foo(x))"),
    ("unknown function", "* | json | sort by foo(x)"),
    ("unknown function", "* | json | length(bar(x)) as y"),
    ("unknown operator", "* | nosuchop"),
    ("unknown operator", "* | json | cuont"),
    ("unknown operator", "* | json | jsn"),
    ("unknown operator", "* | json | count, nosuch"),
    ("unknown operator", "* | json | foo bar"),
    ("unnamed regex captures", "* | parse regex \"(\\d+)\""),
    ("unnamed regex captures", "* | parse regex \"(?P<a>x)(y)\""),
    ("as on parse regex", "* | parse regex \"(?P<a>\\d+)\" as a"),
    ("invalid regex", "* | parse regex \"(\""),
    ("percentile outside (0,100)", "* | json | p0(x)"),
    ("percentile outside (0,100)", "* | json | p100(x)"),
    ("percentile outside (0,100)", "* | json | pct100(x)"),
    ("percentile outside (0,100)", "* | json | percentile000(x)"),
    ("percentile outside (0,100)", "* | json | p101(x) by k"),
    ("missing arguments", "* | json | sum"),
    ("missing arguments", "* | json | sum()"),
    ("missing arguments", "* | json | min() by k"),
    ("missing arguments", "* | json | avg"),
    ("missing arguments", "* | json | p50"),
    ("missing arguments", "* | json | total"),
    ("missing arguments", "* | json | total()"),
    ("missing arguments", "* | json | timeslice"),
    ("missing arguments", "* | json | timeslice(t)"),
    ("missing arguments", "* | json | count_distinct"),
    ("missing arguments", "* | json | count_distinct()"),
    ("missing arguments", "* | json | count_distinct(a, b)"),
    ("missing arguments", "* | json | if(a, b) as c"),
    ("missing arguments", "* | json | x + as y"),
    ("missing arguments", "* | json | where x >"),
    ("missing arguments", "* | json from"),
    ("missing arguments", "* | parse"),
    ("missing arguments", "* | parse as x"),
    ("missing arguments", "* | json | fields"),
    ("missing arguments", "* | json | fields except"),
    ("missing arguments", "* | json | split on"),
    ("missing arguments", "* | json | sort by"),
    ("missing arguments", "* | json | count by"),
    // duration literals: every fragment in range, the sum out of chrono's range — "not a duration", never a crash
    ("duration out of range", "* | json | timeslice(parseDate(t)) 9999999999w9999999999w"),
    ("duration out of range", "* | json | timeslice(parseDate(t)) 9223372036854775807ms1ms"),
    ("duration out of range", "* | json | where d < 106751991167d7h12m55s808ms"),
    ("duration out of range", "* | json | now() - 9999999999w9999999999w9999999999w as x"),
    ("duration out of range", "* | json | sort by 9223372036854775807ms9223372036854775807ms"),
    ("duration out of range", "* | json | timeslice(parseDate(t)) 99999999999999999999w"),
];

fn static_variants(r: &mut Rng) -> (&'static str, String) {
    let col = parse::column(r);
    match r.below(16) {
        14 | 15 => {
            // two columns of one aggregation with one name (rejected since /repo 7200e5c): two
            // aggregates, or an aggregate and one of the stage's own `by` keys — by `as` or by default name
            let f = *r.pick(&["count", "sum(n)", "max(n)", "min(x)", "avg(n)", "count_distinct(s)", "p50(n)"]);
            let dflt = |f: &str| match f { "count" => "_count", "sum(n)" => "_sum", "max(n)" => "_max", "min(x)" => "_min", "avg(n)" => "_average", "count_distinct(s)" => "_countDistinct", _ => "p50" }.to_string();
            // plain identifiers only: the header of a `by` key is its source text, so `["a b"]` as a key
            // and `as ["a b"]` name different columns (the known C20 finding), which is no clash
            let col = r.pick(&["k", "n", "x", "s", "status", "_count"]).to_string();
            let q = match r.below(6) {
                0 => format!("* | json | {} as {} by {}", f, col, col),
                1 => format!("* | json | {} as {}, count by {}, k", f, col, col),
                2 => format!("* | json | count by k | {} by {}", f, dflt(f)),
                3 => format!("* | json | {}, count by k | {} by {}, k", f, f, dflt(f)),
                4 => format!("* | json | {} as a, count as a by k", f),
                _ => format!("* | json | {}, {} by k", f, f),
            };
            ("duplicate column", q)
        }
        0 => ("zero limit", format!("* | json | limit {}", r.pick(&["0", "0.0", "-0", "00", "0e5", "+0"]))),
        1 => ("fractional limit", format!("* | json | limit {}{}.{}", r.pick(&["", "-"]), r.range(0, 99), r.range(1, 9))),
        2 => {
            let stars = r.below(4);
            let mut fields = r.below(4);
            if fields == stars {
                fields += 1;
            }
            let pat: Vec<&str> = (0..stars).map(|_| "*").collect();
            let names: Vec<String> = (0..fields).map(|i| format!("f{}", i)).collect();
            ("capture/field count mismatch", format!("* | parse \"a {} b\" as {}", pat.join(" - "), names.join(", ")))
        }
        3 => ("two from clauses", format!("* | json | parse \"*\" from {} as v from {}", col, parse::column(r))),
        4 => ("constant non-boolean where", format!("* | json | where {}", r.pick(&["1", "\"x\"", "null", "2h", "007", "'s'"]))),
        5 => {
            let f = *r.pick(&["nosuch", "lenght", "Length", "concatt", "is_null", "toupper", "parsedate"]);
            // the call sits anywhere inside a larger expression — also where evaluation would never
            // reach it (the untaken branch of a constant `if`, behind a constant `and`/`or`): a query
            // is checked as written, not as it would run
            let mut bad = format!("{}({})", f, col);
            for _ in 0..r.below(3) {
                bad = match r.below(12) {
                    0 => format!("if(true, {}, {})", col, bad),
                    1 => format!("if(false, {}, {})", bad, col),
                    2 => format!("if({} > 1, {}, {})", col, bad, col),
                    3 => format!("if(1 == 1, 0, {})", bad),
                    4 => format!("(false and {})", bad),
                    5 => format!("(true or {})", bad),
                    6 => format!("(0 * {})", bad),
                    7 => format!("concat(\"a\", {})", bad),
                    8 => format!("!{}", bad),
                    9 => format!("if(isNull({}), 1, {})", col, bad),
                    10 => format!("length(if(true, \"s\", {}))", bad),
                    _ => format!("({} + 1)", bad),
                };
            }
            let q = match r.below(7) {
                0 => format!("* | json | {} as y", bad),
                1 => format!("* | json | where {} == 1", bad),
                2 => format!("* | json | count by {}", bad),
                3 => format!("* | json | sum({})", bad),
                4 => format!("* | json | count({} == 1)", bad),
                5 => format!("* | json | count by k | where {} == 1", bad),
                _ => format!("* | json | sort by abs({})", bad),
            };
            ("unknown function", q)
        }
        6 => ("unknown operator", format!("* | json | {}", r.pick(&["cnt", "summ", "wher x", "sorted2", "group by x", "select x", "head 5", "uniq"]))),
        7 => ("unnamed regex captures", format!("* | parse regex \"{}\"", r.pick(&["(a)", "(?P<x>a)(b)", "x(\\\\d+)y", "(a|b)"]))),
        8 => ("as on parse regex", format!("* | parse regex \"(?P<x>\\\\w+)\" as {}", parse::name(r))),
        9 => ("percentile outside (0,100)", format!("* | json | {}{}({})", r.pick(&["p", "pct", "percentile"]), r.pick(&["0", "00", "100", "101", "1000", "999"]), col)),
        10 => ("missing arguments", format!("* | json | {}", r.pick(&["sum", "min()", "max", "avg()", "average", "p90", "pct50()", "total", "timeslice()", "count_distinct"]))),
        11 => ("missing arguments", format!("* | json | {} {}", col, r.pick(&["+ as y", "* as y", "== as y", "and as y"]))),
        12 => ("missing timeslice duration", format!("* | json | timeslice({}) as ts", col)),
        _ => ("missing arguments", format!("* | json | count by {},", col)),
    }
}

const ROW_STAGES: &[&str] = &["where n > 1", "fields k, n", "n + 1 as m", "limit 3", "parse \"*\" from k as kk", "split(k) on \",\" as parts", "where isNull(k) or n < 5"];
const AGG_STAGES: &[&str] = &["count", "count by k", "sum(n) as s", "count, avg(n) by k", "count_distinct(k)", "p50(n) by k", "min(n), max(n)", "count as c by k, n"];
const POST_STAGES: &[&str] = &["sort by k", "limit 2", "sort by k desc | limit 1", "where 1 == 1", "fields except k"];

/// a rule-breaking stage from the table or the generator, surrounded by valid stages
fn embedded_static(r: &mut Rng) -> (&'static str, String) {
    let (what, q) = if r.below(3) == 0 {
        let (w, q) = STATIC_ERRORS[r.below(STATIC_ERRORS.len())];
        (w, q.to_string())
    } else {
        static_variants(r)
    };
    let bad = q.strip_prefix("* | json | ").or(q.strip_prefix("* | ")).unwrap_or("limit 0").to_string();
    let mut stages: Vec<String> = vec!["json".to_string()];
    for _ in 0..r.below(3) {
        stages.push(r.pick(ROW_STAGES).to_string());
    }
    if r.below(4) == 0 {
        stages.push(r.pick(AGG_STAGES).to_string());
    }
    stages.push(bad);
    let after = 1 + r.below(3);
    for i in 0..after {
        let s = match r.below(4) {
            0 => r.pick(POST_STAGES).to_string(),
            1 if i == 0 => r.pick(ROW_STAGES).to_string(),
            _ => r.pick(AGG_STAGES).to_string(),
        };
        stages.push(s);
    }
    (what, format!("* | {}", stages.join(" | ")))
}

/* ---------- (e) subprocess ---------- */

pub const AGRIND: &str = "/verif/harness/target/agrind-bin/debug/agrind";

/// build (or refresh) /repo's binary under the shared build lock
pub fn ensure_binary() -> bool {
    let newest_src = || -> std::time::SystemTime {
        let mut t = std::time::SystemTime::UNIX_EPOCH;
        let mut stack = vec![std::path::PathBuf::from("/repo/src"), std::path::PathBuf::from("/repo/aliases")];
        while let Some(d) = stack.pop() {
            if let Ok(rd) = std::fs::read_dir(&d) {
                for e in rd.flatten() {
                    let p = e.path();
                    if p.is_dir() {
                        stack.push(p);
                    } else if let Ok(m) = e.metadata().and_then(|m| m.modified()) {
                        if m > t {
                            t = m;
                        }
                    }
                }
            }
        }
        t
    };
    let fresh = || std::fs::metadata(AGRIND).and_then(|m| m.modified()).map(|m| m >= newest_src()).unwrap_or(false);
    if fresh() {
        return true;
    }
    let _ = std::fs::create_dir_all("/verif/.locks");
    let st = std::process::Command::new("flock")
        .arg("/verif/.locks/build.lock")
        .arg("-c")
        .arg("cd /repo && CARGO_TARGET_DIR=/verif/harness/target/agrind-bin cargo build --offline --bin agrind >/dev/null 2>&1; touch -c /verif/harness/target/agrind-bin/debug/agrind")
        .stdin(std::process::Stdio::null())
        .stdout(std::process::Stdio::null())
        .stderr(std::process::Stdio::null())
        .status();
    st.map(|s| s.success()).unwrap_or(false) && std::path::Path::new(AGRIND).exists()
}

pub struct SubRun {
    pub code: Option<i32>,
    pub stdout: Vec<u8>,
    pub stderr: Vec<u8>,
    pub timed_out: bool,
}

/// run the binary with `args`, stdin from `stdin_path` (default /dev/null)
pub fn run_binary(args: &[&str], stdin_path: Option<&str>) -> Option<SubRun> {
    use std::io::Read;
    let stdin = std::fs::File::open(stdin_path.unwrap_or("/dev/null")).ok()?;
    let mut child = std::process::Command::new(AGRIND)
        .args(args)
        .env("NO_COLOR", "1")
        .env("RUST_BACKTRACE", "0")
        .stdin(stdin)
        .stdout(std::process::Stdio::piped())
        .stderr(std::process::Stdio::piped())
        .spawn()
        .ok()?;
    let mut so = child.stdout.take()?;
    let mut se = child.stderr.take()?;
    let h1 = std::thread::spawn(move || {
        let mut b = vec![];
        let _ = so.read_to_end(&mut b);
        b
    });
    let h2 = std::thread::spawn(move || {
        let mut b = vec![];
        let _ = se.read_to_end(&mut b);
        b
    });
    let t0 = std::time::Instant::now();
    let mut timed_out = false;
    let code = loop {
        match child.try_wait() {
            Ok(Some(st)) => break st.code(),
            Ok(None) => {
                if t0.elapsed().as_secs() > 10 {
                    let _ = child.kill();
                    let _ = child.wait();
                    timed_out = true;
                    break None;
                }
                std::thread::sleep(std::time::Duration::from_millis(2));
            }
            Err(_) => break None,
        }
    };
    Some(SubRun { code, stdout: h1.join().unwrap_or_default(), stderr: h2.join().unwrap_or_default(), timed_out })
}

/// witnesses of defects beyond the parser (type check / operator construction)
/// regression cases of the fixed finding C04/keyword-without-word-boundary (repo commit 0324001):
/// the glued spellings must be rejected (or keep the whole word as a field name) — a recurrence is
/// reported by the coverage oracle as an ordinary violation of that class
pub const GLUED_WITNESSES: &[(&str, bool)] = &[
    ("* | json | countby x", false),
    ("* | parse \"*\" asx", false),
    ("* | json | sort by x descx", false),
    ("* | json | where a andb", false),
    ("* | json | fields onlyx", true),
    ("* | json | fields dropx", true),
    ("* | json | fields exceptional", true),
    ("* | json | max_latency as y", true),
    ("* | json | counter as y", true),
    ("* | json | where trueish", true),
];

pub const COMPILE_WITNESSES: &[&str] = &[
    "* | limit -9223372036854775808",
    "* | limit -9223372036854775807",
    "* | limit -1e18",
    "* | limit 1e300",
    "* | limit 9223372036854775807",
    "* | json | count | limit -1e30",
    "alpha |\u{3000}\tlimit -0",
    "ıjsonıas/ |  ",
];

/* ---------- the check ---------- */


/// all P-level oracles on one string; returns (accepted by Pipeline::new, rejected cleanly)
fn oracles(ctx: &mut Ctx, rep: &mut Rep, rnd: &Renderer, family: &str, q: &str, c: &parse::Cmp) -> (bool, bool) {
    let info = serde_json::json!({"query": q, "query_hex": enc::hex(q)});
    // (a) compile terminates without panic
    let run = imp::run(q, b"", "json", 10);
    if run.hung {
        rep.fail(ctx, family, q, "C04/compile-hang", "Pipeline::new (or an empty run) did not finish within 10 s", info);
        return (false, false);
    }
    if let Some(p) = &run.panicked {
        let class = match parse::panic_kind(p) {
            "slice" => "C04/parser-panic-nonascii",
            "chrono" => "C04/duration-literal-overflow-panic",
            _ => "C04/compile-panic-other",
        };
        let mut i = info.clone();
        i["panic"] = serde_json::json!(p);
        rep.fail(ctx, family, q, class, "compiling the query panics instead of rejecting it", i);
        return (false, false);
    }
    if !run.compiled {
        // (b) rejected: a diagnostic exists (Pipeline::new returned Err → main prints it), ranges inside the query
        let mut ok = true;
        if run.compile_err.is_empty() && run.diags.is_empty() {
            ok = false;
            rep.fail(ctx, family, q, "C04/rejected-without-diagnostic", "query rejected without any diagnostic", info.clone());
        }
        // annotate-snippets (the consumer of the Snippet) indexes the source by CHARACTER and panics
        // when a range ends beyond `source.chars().count()`: "inside the query text" is in chars
        let nchars = q.chars().count();
        for (title, ranges) in &run.diags {
            for (a, b) in ranges {
                if !(a <= b && *b <= nchars) {
                    ok = false;
                    let mut i = info.clone();
                    i["diagnostic"] = serde_json::json!(title);
                    i["range"] = serde_json::json!([a, b]);
                    i["chars"] = serde_json::json!(nchars);
                    rep.fail(ctx, family, q, "C04/diagnostic-range-outside-query", "a diagnostic highlights a range that ends beyond the query text (the binary panics in annotate-snippets while printing it)", i);
                }
            }
        }
        if !run.stdout.is_empty() {
            ok = false;
            rep.fail(ctx, family, q, "C04/output-from-rejected-query", "a rejected query wrote to stdout", info.clone());
        }
        return (false, ok);
    }
    // (c) accepted: nothing ignored
    let ast = match &c.ast {
        Some(a) => a,
        None => return (true, false),
    };
    if !run.diags.is_empty() {
        let mut i = info.clone();
        i["diagnostics"] = serde_json::json!(run.diags.iter().map(|d| d.0.clone()).collect::<Vec<_>>());
        rep.fail(ctx, family, q, "C04/diagnostic-but-accepted", "a diagnostic was reported but the query was accepted", i);
    }
    if has_error_node(ast) {
        let mut i = info.clone();
        i["ast"] = serde_json::json!(enc::query(ast));
        rep.fail(ctx, family, q, "C04/error-node-in-accepted-query", "an accepted query contains an Error node: that stage/expression is silently dropped", i);
        return (true, false);
    }
    let canon = match rnd.query(ast) {
        Some(t) => t,
        None => {
            rep.fail(ctx, family, q, "C04/harness-cannot-render", "harness: accepted AST has no canonical text", info);
            return (true, false);
        }
    };
    let mut good = true;
    match imp::parse(&canon) {
        Ok((Some(a2), _)) if enc::query(&a2) == enc::query(ast) => {}
        other => {
            good = false;
            let mut i = info.clone();
            i["canonical"] = serde_json::json!(canon);
            i["ast"] = serde_json::json!(enc::query(ast));
            i["reparsed"] = serde_json::json!(match other {
                Ok((Some(a2), _)) => enc::query(&a2),
                Ok((None, _)) => "REJECT".to_string(),
                Err(p) => format!("PANIC {}", p),
            });
            rep.fail(ctx, family, q, "C04/canonical-text-reparses-differently", "the canonical rendering of the accepted AST does not parse back to that AST", i);
        }
    }
    // `split(x) as x`: the explicit output column equals the default; its tokens may appear twice
    let mut optional: Vec<String> = vec![];
    for o in &ast.operators {
        if let Operator::Inline(p) = o {
            if let InlineOperator::Split { input_column: Some(a), output_column: Some(b), .. } = &p.value {
                if a == b {
                    if let Some(t) = expr_text(a) {
                        optional.extend(lex(&t).0);
                    }
                }
            }
        }
    }
    let gap = coverage_gap_with(q, &canon, &optional);
    if let Some(gap) = gap {
        good = false;
        let mut i = info.clone();
        i["canonical"] = serde_json::json!(canon);
        i["gap"] = serde_json::json!(gap);
        if gap_is_glued_keyword(q, &canon) {
            rep.fail(ctx, family, q, "C04/keyword-without-word-boundary", "a keyword is recognised as a prefix of a longer word (no word boundary): `countby x` = `count by x`, `asx` = `as x`", i);
        } else {
            rep.fail(ctx, family, q, "C04/trailing-text-ignored", "part of the accepted query text is not reflected in what runs", i);
        }
    }
    // `now()` differs between two runs by construction
    if good && !q.contains("now") {
        let a = probe_rows(q, PROBE.as_bytes());
        let b = probe_rows(&canon, PROBE.as_bytes());
        // the ASTs are equal, so a difference can only be run-to-run nondeterminism (hash order
        // reaching the output: C13's business): a failure needs disjoint sets over repeated runs
        let differs = a.is_some() && b.is_some() && a != b && {
            let sa: Vec<_> = (0..4).filter_map(|_| probe_rows(q, PROBE.as_bytes())).collect();
            let sb: Vec<_> = (0..4).filter_map(|_| probe_rows(&canon, PROBE.as_bytes())).collect();
            !sa.iter().any(|x| sb.contains(x) || Some(x) == b.as_ref()) && !sb.iter().any(|x| Some(x) == a.as_ref())
        };
        if differs {
            let mut i = info.clone();
            i["canonical"] = serde_json::json!(canon);
            rep.fail(ctx, family, q, "C04/canonical-text-runs-differently", "original and canonical text give different output on the probe input", i);
            good = false;
        }
    }
    (true, good)
}

fn subprocess_oracle(ctx: &mut Ctx, rep: &mut Rep, q: &str) {
    let r = match run_binary(&[q], None) {
        Some(r) => r,
        None => {
            ctx.case("subprocess", "", "skip", serde_json::json!({"why": "cannot start the agrind binary"}));
            return;
        }
    };
    let err = String::from_utf8_lossy(&r.stderr).into_owned();
    let info = serde_json::json!({"query": q, "exit": r.code, "stdout_len": r.stdout.len(), "stderr": err.chars().take(400).collect::<String>()});
    if r.timed_out {
        rep.fail(ctx, "subprocess", q, "C04/compile-hang", "agrind '<rejected query>' < /dev/null did not exit", info);
    } else if err.contains("panicked") || err.contains("embarrassing") || r.code == Some(101) || r.code.is_none() {
        rep.fail(ctx, "subprocess", q, "C04/rejection-panics-in-binary", "the binary panics while reporting the rejection", info);
    } else if r.code == Some(0) || !r.stdout.is_empty() || r.stderr.is_empty() {
        rep.fail(ctx, "subprocess", q, "C04/rejection-not-reported-by-binary", "rejected query: expected non-zero exit, empty stdout, non-empty stderr", info);
    } else {
        ctx.case("subprocess", q, "pass", info);
    }
}

pub fn check(ctx: &mut Ctx) {
    let mut rep = Rep::new("C04");
    let rnd = Renderer::new();
    let mut rejected_pool: Vec<String> = vec![];
    let mut handle = |ctx: &mut Ctx, rep: &mut Rep, family: &str, q: &str, pool: &mut Vec<String>| {
        let c = parse::compare(ctx, q);
        // F-level verdict under its own family name
        if c.verdict != "pass" {
            parse::report(ctx, &format!("F:{}", family), q, &c);
        }
        let (accepted, good) = oracles(ctx, rep, &rnd, family, q, &c);
        ctx.count(if accepted { "accepted" } else { "not-accepted" });
        if good {
            ctx.case(family, q, "pass", serde_json::json!({"query": q, "accepted": accepted}));
        }
        if !accepted && good && !q.contains('\0') && pool.len() < 4000 {
            pool.push(q.to_string());
        }
    };
    if let Some(path) = ctx.replay.clone() {
        if let Ok(text) = std::fs::read_to_string(&path) {
            // either hex lines or a replay JSON written by bin/check
            if let Ok(j) = serde_json::from_str::<serde_json::Value>(&text) {
                if let Some(h) = j["case"]["info"]["query_hex"].as_str().or(j["first"]["info"]["query_hex"].as_str()) {
                    let q = String::from_utf8_lossy(&enc::unhex(h)).into_owned();
                    handle(ctx, &mut rep, "replay", &q, &mut rejected_pool);
                } else if let Some(q) = j["case"]["info"]["query"].as_str() {
                    handle(ctx, &mut rep, "replay", q, &mut rejected_pool);
                    if ensure_binary() {
                        subprocess_oracle(ctx, &mut rep, q);
                    }
                }
            } else {
                for l in text.lines() {
                    let q = String::from_utf8_lossy(&enc::unhex(l.trim())).into_owned();
                    handle(ctx, &mut rep, "replay", &q, &mut rejected_pool);
                }
            }
        }
        return;
    }
    for (i, q) in parse::WITNESSES.iter().chain(COMPILE_WITNESSES.iter()).enumerate() {
        if i % ctx.nshards == ctx.shard {
            handle(ctx, &mut rep, "witness", q, &mut rejected_pool);
        }
    }
    if ctx.shard == 0 {
        for (q, want_accept) in GLUED_WITNESSES {
            let r = imp::run(q, b"", "json", 10);
            let info = serde_json::json!({"query": q, "query_hex": enc::hex(q), "expected_accepted": want_accept, "accepted": r.compiled});
            if r.compiled != *want_accept || r.panicked.is_some() || r.hung {
                rep.fail(ctx, "glued-witness", q, "C04/keyword-without-word-boundary", "a keyword glued to the next token is accepted, or a name starting with a keyword is refused", info);
            } else {
                ctx.case("glued-witness", q, "pass", info);
            }
            handle(ctx, &mut rep, "glued-witness", q, &mut rejected_pool);
        }
    }
    // (d) static errors: table + generated variants
    for (i, (what, q)) in STATIC_ERRORS.iter().enumerate() {
        if i % ctx.nshards != ctx.shard {
            continue;
        }
        let r = imp::run(q, b"", "json", 10);
        let info = serde_json::json!({"query": q, "rule": what, "query_hex": enc::hex(q)});
        if r.compiled || r.panicked.is_some() || r.hung {
            rep.fail(ctx, "static", q, "C04/static-error-not-rejected", &format!("documented static error not rejected cleanly: {}", what), info);
        } else {
            ctx.case("static", q, "pass", info);
            rejected_pool.push(q.to_string());
        }
    }
    let nstatic = ctx.budget(800, 20000);
    for _ in 0..nstatic {
        let mut r = ctx.rng.fork();
        let (what, q) = static_variants(&mut r);
        let run = imp::run(&q, b"", "json", 10);
        let info = serde_json::json!({"query": q, "rule": what, "query_hex": enc::hex(&q)});
        if run.compiled || run.panicked.is_some() || run.hung {
            rep.fail(ctx, "static-generated", &q, "C04/static-error-not-rejected", &format!("documented static error not rejected cleanly: {}", what), info);
        } else {
            ctx.case("static-generated", &q, "pass", info);
        }
    }
    // (d') a statically invalid stage anywhere in a longer pipeline: valid stages before it and
    // after it (aggregates included) must not make the query acceptable
    let nemb = ctx.budget(900, 20000);
    for _ in 0..nemb {
        let mut r = ctx.rng.fork();
        let (what, q) = embedded_static(&mut r);
        let c = super::common::run_both(ctx, &q, b"");
        let info = serde_json::json!({"query": q, "rule": what, "query_hex": enc::hex(&q)});
        if c.imp.compiled || c.imp.panicked.is_some() || c.imp.hung {
            rep.fail(ctx, "static-embedded", &q, "C04/static-error-not-rejected", &format!("documented static error not rejected once other stages surround it: {}", what), info);
            continue;
        }
        match super::common::compare(&c, true) {
            super::common::F::Disagree(why) => {
                let mut i = info.clone();
                i["why"] = serde_json::json!(why);
                ctx.case("F:static-embedded", &q, "fdis", i);
            }
            _ => ctx.case("static-embedded", &q, "pass", info),
        }
    }
    let n = ctx.budget(6000, 400000);
    for _ in 0..n {
        let mut r = ctx.rng.fork();
        let (family, q) = parse::gen_string(&mut r);
        handle(ctx, &mut rep, family, &q, &mut rejected_pool);
    }
    // (e) subprocess sample
    let nsub = if ctx.thorough() { 60 } else { 8 };
    if !rejected_pool.is_empty() && ensure_binary() {
        let mut r = ctx.rng.fork();
        for _ in 0..nsub {
            let q = r.pick(&rejected_pool).clone();
            subprocess_oracle(ctx, &mut rep, &q);
        }
    } else if rejected_pool.is_empty() {
    } else {
        ctx.case("subprocess", "", "skip", serde_json::json!({"why": "agrind binary not available"}));
    }
}
