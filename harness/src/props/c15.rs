//! C15: rows stream through without loss, duplication, reordering or buffering delay.
//!
//! The schedule of two real threads cannot be replayed step by step, so the tie to the Lean model
//! (AgModel/Sched.lean, Props/C15.lean) is trace conformance + the property's own oracles on the
//! real code:
//!   * in-process: `Pipeline::process` is driven through a *gated* `BufRead` (the harness decides
//!     when which bytes become readable: splits inside a line, inside a UTF-8 sequence) and a
//!     recording `Write` sink.  After every chunk that completes a line the harness waits until the
//!     sink shows the rows of all complete lines *before* releasing more input (promptness, the
//!     oracle of `C15_no_delay_quiescent`); at the end the bytes must equal the unchunked run
//!     (`C15_chunking_independent`, `C15_final`) and the model's answer for the same chunking
//!     (`SCHED`, F-level).  Volume, a stalled consumer (> capacity rows queued, bound of
//!     `C15_chan_bounded`), a slow producer with gaps > the 50 ms poll, aggregates (nothing before EOF).
//!   * subprocess: the real binary on pipes (paced producer, unread stdout, 0 … 200 000 lines).
//!   * trickle (in-process and binary): complete lines arrive steadily with gaps well *under* the
//!     50 ms poll, nobody waits for output; while input is still flowing every line released ≥ 1 s
//!     earlier must already be visible to the consumer.  (The lock-step families above give the
//!     renderer an idle period after every line; a renderer that hands rows over only when its
//!     channel has been idle passes them and fails here.)
//!   * --file input (binary): the same chunked / paced / trickle feeds through `-f <fifo>`,
//!     `-f /dev/stdin` (/dev/fd/0, /proc/self/fd/0) with the write end held open by the harness
//!     (rows of complete lines must be on the stdout pipe before any EOF), and whole inputs of
//!     0 bytes … > 8 MiB as regular files / through the FIFO at full speed; reference: the same
//!     binary reading the same bytes on stdin (`agrind -f X q` = `agrind q < X`).
//! No real-time deadline tighter than 5 s is ever asserted in the lock-step families, none tighter
//! than 1 s (and then only while further input keeps arriving) in the trickle family.
//! Oracle self-tests: `AGVERIF_C15_MUTANT=bufsink agverif C15 …` puts a 64 KiB BufWriter in front of
//! the sink (the stream family must report C15/buffering-delay); `…=idleflush` a layer that passes
//! bytes on only after 50 ms without a write (only the trickle family can and must report it).
use crate::enc::hexb;
use crate::imp;
use crate::rng::Rng;
use crate::Ctx;
use serde_json::json;
use std::collections::VecDeque;
use std::io::{self, BufRead, Read, Write};
use std::process::{Command, Stdio};
use std::sync::atomic::{AtomicBool, Ordering};
use std::sync::{mpsc, Arc, Condvar, Mutex};
use std::time::{Duration, Instant};

pub const PATIENCE: Duration = Duration::from_secs(5);

// ------------------------------------------------------------------------------------------------
// gated reader
// ------------------------------------------------------------------------------------------------

#[derive(Default)]
pub struct GateState {
    pub chunks: VecDeque<Vec<u8>>,
    pub eof: bool,
    /// when the queue is empty the next read returns an io::Error
    pub fail: bool,
    /// when the queue is empty this block is handed out again and again
    pub endless: Option<Vec<u8>>,
    /// bytes taken by `consume`
    pub consumed: usize,
    /// the reader is blocked in fill_buf with nothing to read
    pub waiting: bool,
    pub errors_returned: usize,
}

#[derive(Clone, Default)]
pub struct Gate(pub Arc<(Mutex<GateState>, Condvar)>);

impl Gate {
    pub fn release(&self, chunk: &[u8]) {
        if chunk.is_empty() {
            return; // an empty fill_buf would mean EOF
        }
        let mut g = self.0 .0.lock().unwrap();
        g.chunks.push_back(chunk.to_vec());
        g.waiting = false;
        self.0 .1.notify_all();
    }
    pub fn eof(&self) {
        let mut g = self.0 .0.lock().unwrap();
        g.eof = true;
        g.endless = None;
        self.0 .1.notify_all();
    }
    pub fn fail(&self) {
        let mut g = self.0 .0.lock().unwrap();
        g.fail = true;
        self.0 .1.notify_all();
    }
    pub fn endless(&self, block: Vec<u8>) {
        let mut g = self.0 .0.lock().unwrap();
        g.endless = Some(block);
        self.0 .1.notify_all();
    }
    pub fn consumed(&self) -> usize {
        self.0 .0.lock().unwrap().consumed
    }
    /// the reader has taken everything released so far and is blocked waiting for more
    pub fn drained(&self) -> bool {
        let g = self.0 .0.lock().unwrap();
        g.chunks.is_empty() && g.waiting
    }
    pub fn reader(&self) -> GatedReader {
        GatedReader { gate: self.clone(), cur: vec![], pos: 0 }
    }
}

pub struct GatedReader {
    gate: Gate,
    cur: Vec<u8>,
    pos: usize,
}

impl Read for GatedReader {
    fn read(&mut self, buf: &mut [u8]) -> io::Result<usize> {
        let n = {
            let avail = self.fill_buf()?;
            let n = avail.len().min(buf.len());
            buf[..n].copy_from_slice(&avail[..n]);
            n
        };
        self.consume(n);
        Ok(n)
    }
}

impl BufRead for GatedReader {
    fn fill_buf(&mut self) -> io::Result<&[u8]> {
        if self.pos >= self.cur.len() {
            let (m, cv) = &*self.gate.0;
            let mut g = m.lock().unwrap();
            loop {
                if let Some(c) = g.chunks.pop_front() {
                    self.cur = c;
                    self.pos = 0;
                    g.waiting = false;
                    break;
                } else if g.fail {
                    g.errors_returned += 1;
                    return Err(io::Error::new(io::ErrorKind::Other, "injected read error"));
                } else if let Some(b) = &g.endless {
                    self.cur = b.clone();
                    self.pos = 0;
                    break;
                } else if g.eof {
                    self.cur.clear();
                    self.pos = 0;
                    return Ok(&[]);
                } else {
                    g.waiting = true;
                    g = cv.wait(g).unwrap();
                }
            }
        }
        Ok(&self.cur[self.pos..])
    }
    fn consume(&mut self, n: usize) {
        self.pos += n;
        self.gate.0 .0.lock().unwrap().consumed += n;
    }
}

// ------------------------------------------------------------------------------------------------
// recording / stalling / failing sink
// ------------------------------------------------------------------------------------------------

#[derive(Default)]
pub struct SinkState {
    pub bytes: Vec<u8>,
    /// (time, total length after the write)
    pub events: Vec<(Option<Instant>, usize)>,
    pub stall: bool,
    /// the sink accepts exactly this many bytes and fails for ever after
    pub fail_at: Option<usize>,
    pub failed_writes: usize,
    pub in_write: bool,
}

#[derive(Clone, Default)]
pub struct Sink(pub Arc<(Mutex<SinkState>, Condvar)>);

impl Sink {
    pub fn failing_at(k: usize) -> Sink {
        let s = Sink::default();
        s.0 .0.lock().unwrap().fail_at = Some(k);
        s
    }
    pub fn stalled() -> Sink {
        let s = Sink::default();
        s.0 .0.lock().unwrap().stall = true;
        s
    }
    pub fn unstall(&self) {
        let mut g = self.0 .0.lock().unwrap();
        g.stall = false;
        self.0 .1.notify_all();
    }
    pub fn bytes(&self) -> Vec<u8> {
        self.0 .0.lock().unwrap().bytes.clone()
    }
    pub fn len(&self) -> usize {
        self.0 .0.lock().unwrap().bytes.len()
    }
    pub fn newlines(&self) -> usize {
        self.0 .0.lock().unwrap().bytes.iter().filter(|b| **b == b'\n').count()
    }
    pub fn failed_writes(&self) -> usize {
        self.0 .0.lock().unwrap().failed_writes
    }
}

impl Write for Sink {
    fn write(&mut self, buf: &[u8]) -> io::Result<usize> {
        if buf.is_empty() {
            return Ok(0);
        }
        let (m, cv) = &*self.0;
        let mut g = m.lock().unwrap();
        g.in_write = true;
        while g.stall {
            g = cv.wait(g).unwrap();
        }
        g.in_write = false;
        let mut n = buf.len();
        if let Some(k) = g.fail_at {
            let room = k.saturating_sub(g.bytes.len());
            if room == 0 {
                g.failed_writes += 1;
                return Err(io::Error::new(io::ErrorKind::BrokenPipe, "injected write error"));
            }
            n = n.min(room);
        }
        g.bytes.extend_from_slice(&buf[..n]);
        let l = g.bytes.len();
        g.events.push((Some(Instant::now()), l));
        Ok(n)
    }
    fn flush(&mut self) -> io::Result<()> {
        Ok(())
    }
}

/// Oracle self-test (`AGVERIF_C15_MUTANT=idleflush`): a consumer-side layer that hands bytes on
/// only when nothing has been written for 50 ms (or 8 KiB have piled up, or at the end) — the
/// behaviour of a renderer that flushes on the idle poll.  The lock-step families cannot see it;
/// the trickle family must.
pub struct IdleFlush {
    inner: Sink,
    st: Arc<Mutex<(Vec<u8>, Instant, bool)>>,
}

impl IdleFlush {
    pub fn new(inner: Sink) -> IdleFlush {
        let st = Arc::new(Mutex::new((Vec::new(), Instant::now(), false)));
        let st2 = st.clone();
        let mut out = inner.clone();
        std::thread::spawn(move || loop {
            std::thread::sleep(Duration::from_millis(5));
            let mut g = st2.lock().unwrap();
            if !g.0.is_empty() && g.1.elapsed() >= Duration::from_millis(50) {
                let b = std::mem::take(&mut g.0);
                let _ = out.write_all(&b);
            }
            if g.2 {
                break;
            }
        });
        IdleFlush { inner, st }
    }
}

impl Write for IdleFlush {
    fn write(&mut self, buf: &[u8]) -> io::Result<usize> {
        let mut g = self.st.lock().unwrap();
        g.0.extend_from_slice(buf);
        g.1 = Instant::now();
        if g.0.len() >= 8192 {
            let b = std::mem::take(&mut g.0);
            self.inner.write_all(&b)?;
        }
        Ok(buf.len())
    }
    fn flush(&mut self) -> io::Result<()> {
        Ok(())
    }
}

impl Drop for IdleFlush {
    fn drop(&mut self) {
        let mut g = self.st.lock().unwrap();
        let b = std::mem::take(&mut g.0);
        let _ = self.inner.write_all(&b);
        g.2 = true;
    }
}

fn mutant() -> String {
    std::env::var("AGVERIF_C15_MUTANT").unwrap_or_default()
}

// ------------------------------------------------------------------------------------------------
// running the real pipeline with a custom reader and sink
// ------------------------------------------------------------------------------------------------

/// length of this worker's stderr scratch file (fd 2 is redirected there by imp::init_worker)
fn err_len() -> u64 {
    std::fs::metadata("/proc/self/fd/2").map(|m| if m.is_file() { m.len() } else { 0 }).unwrap_or(0)
}

fn err_since(pos: u64) -> String {
    use std::io::{Seek, SeekFrom};
    let mut s = Vec::new();
    if let Ok(mut f) = std::fs::File::open("/proc/self/fd/2") {
        if f.metadata().map(|m| m.is_file()).unwrap_or(false) {
            let len = f.metadata().map(|m| m.len()).unwrap_or(0);
            let p = if len < pos { 0 } else { pos };
            let _ = f.seek(SeekFrom::Start(p));
            let _ = f.read_to_end(&mut s);
        }
    }
    String::from_utf8_lossy(&s).into_owned()
}

#[derive(Debug, Clone, Default)]
pub struct Obs {
    pub compiled: bool,
    pub panicked: Option<String>,
    pub error_lines: usize,
    pub stderr: String,
    pub secs: f64,
}

pub struct Running {
    rx: mpsc::Receiver<Result<bool, ()>>,
    panics0: usize,
    err0: u64,
    t0: Instant,
}

pub fn start<R: BufRead + Send + 'static, W: Write + Send + 'static>(query: &str, mode: &str, reader: R, sink: W) -> Running {
    let q = query.to_string();
    let m = mode.to_string();
    let (tx, rx) = mpsc::channel();
    let panics0 = imp::PANICS.load(Ordering::SeqCst);
    let err0 = err_len();
    let t0 = Instant::now();
    std::thread::spawn(move || {
        let r = std::panic::catch_unwind(std::panic::AssertUnwindSafe(move || {
            let rec = imp::Recorder::default();
            let qc = ag::pipeline::QueryContainer::new(q, Box::new(rec));
            match ag::pipeline::Pipeline::new(&qc, sink, imp::mode_of(&m)) {
                Ok(p) => {
                    p.process(reader);
                    true
                }
                Err(_) => false,
            }
        }));
        let _ = tx.send(r.map_err(|_| ()));
    });
    Running { rx, panics0, err0, t0 }
}

impl Running {
    /// `None` while `process` has not returned within `timeout`
    pub fn wait(&self, timeout: Duration) -> Option<Obs> {
        let r = match self.rx.recv_timeout(timeout) {
            Ok(r) => r,
            Err(_) => return None,
        };
        let mut o = Obs { secs: self.t0.elapsed().as_secs_f64(), ..Default::default() };
        match r {
            Ok(c) => o.compiled = c,
            Err(()) => {
                o.compiled = true;
                o.panicked = Some(imp::LAST_PANIC.lock().map(|g| g.clone()).unwrap_or_default());
            }
        }
        if imp::PANICS.load(Ordering::SeqCst) != self.panics0 && o.panicked.is_none() {
            // a panic on the renderer thread, reported by join() as `Error: Any`
            o.panicked = Some(imp::LAST_PANIC.lock().map(|g| g.clone()).unwrap_or_default());
        }
        let e = err_since(self.err0);
        o.error_lines = e.lines().filter(|l| l.starts_with("error:")).count();
        o.stderr = e.chars().take(600).collect();
        Some(o)
    }
}

pub fn wait_until<F: FnMut() -> bool>(limit: Duration, mut f: F) -> bool {
    let t0 = Instant::now();
    let mut nap = 50u64; // microseconds
    loop {
        if f() {
            return true;
        }
        if t0.elapsed() > limit {
            return false;
        }
        std::thread::sleep(Duration::from_micros(nap));
        nap = (nap * 2).min(5000);
    }
}

// ------------------------------------------------------------------------------------------------
// the model's answer (SCHED)
// ------------------------------------------------------------------------------------------------

#[derive(Debug, Clone, Default)]
pub struct ModelRun {
    pub ok: bool,
    pub raw: String,
    pub reader: String,
    pub rend: String,
    pub errs: usize,
    pub rd_errs: usize,
    pub join_err: bool,
    pub written: String,
    pub consumed: usize,
    pub maxchan: usize,
    pub stuck: bool,
}

fn row_tok(r: &Option<Vec<u8>>) -> String {
    match r {
        None => "N".into(),
        Some(b) => format!("H{}", hexb(b)),
    }
}

/// ask the Lean model to run a pseudo-random schedule for this configuration
#[allow(clippy::too_many_arguments)]
pub fn model_sched(
    ctx: &mut Ctx,
    variant: &str,
    cap: usize,
    table: &[Option<Vec<u8>>],
    tail: &[Vec<u8>],
    chunks: &[Vec<u8>],
    fault_at: Option<usize>,
    read_fail_at: Option<usize>,
    seed: u64,
) -> ModelRun {
    let t: Vec<String> = table.iter().map(row_tok).collect();
    let tl: Vec<String> = tail.iter().map(|b| format!("H{}", hexb(b))).collect();
    let ch: Vec<String> = chunks.iter().filter(|c| !c.is_empty()).map(|b| format!("H{}", hexb(b))).collect();
    let opt = |o: Option<usize>| o.map(|k| k.to_string()).unwrap_or_else(|| "-".into());
    let req = format!(
        "SCHED\t{}\t{}\t{}\t{}\t{}\t{}\t{}\t{}",
        variant,
        cap,
        t.join(" "),
        tl.join(" "),
        ch.join(" "),
        opt(fault_at),
        opt(read_fail_at),
        seed % 1_000_000_007
    );
    let raw = ctx.drv.ask(&req);
    let mut m = ModelRun { raw: raw.clone(), ..Default::default() };
    if !raw.starts_with("OK ") {
        return m;
    }
    m.ok = true;
    for kv in raw[3..].split(' ') {
        if let Some((k, v)) = kv.split_once('=') {
            match k {
                "reader" => m.reader = v.into(),
                "rend" => m.rend = v.into(),
                "errs" => m.errs = v.parse().unwrap_or(99),
                "rderrs" => m.rd_errs = v.parse().unwrap_or(99),
                "joinErr" => m.join_err = v == "1",
                "written" => m.written = v.into(),
                "consumed" => m.consumed = v.parse().unwrap_or(0),
                "maxchan" => m.maxchan = v.parse().unwrap_or(0),
                "stuck" => m.stuck = v == "1",
                _ => {}
            }
        }
    }
    m
}

/// rows of a record-mode output (one per line)
pub fn split_rows(out: &[u8]) -> Vec<Vec<u8>> {
    let mut v: Vec<Vec<u8>> = out.split(|b| *b == b'\n').map(|s| s.to_vec()).collect();
    if v.last().map(|l| l.is_empty()).unwrap_or(false) {
        v.pop();
    }
    v
}

// ------------------------------------------------------------------------------------------------
// the real binary
// ------------------------------------------------------------------------------------------------

pub const BIN_DIR: &str = "/verif/harness/target/agrind-bin";

/// `cargo build --offline --bin agrind` of /repo's working tree into BIN_DIR, once per check run,
/// under the shared build lock.
pub fn ensure_binary() -> Result<String, String> {
    use std::os::unix::io::AsRawFd;
    let bin = format!("{}/debug/agrind", BIN_DIR);
    let _ = std::fs::create_dir_all(BIN_DIR);
    let _ = std::fs::create_dir_all("/verif/.locks");
    let lock = std::fs::OpenOptions::new()
        .create(true)
        .write(true)
        .open("/verif/.locks/build.lock")
        .map_err(|e| format!("cannot open the build lock: {}", e))?;
    if unsafe { libc::flock(lock.as_raw_fd(), libc::LOCK_EX) } != 0 {
        return Err("flock failed".into());
    }
    // one build per check run: the stamp names the orchestrator process (pid + start time)
    let ppid = unsafe { libc::getppid() };
    let started = std::fs::read_to_string(format!("/proc/{}/stat", ppid))
        .ok()
        .and_then(|t| t.rsplit(')').next().map(|r| r.split_whitespace().nth(19).unwrap_or("0").to_string()))
        .unwrap_or_else(|| "0".into());
    let stamp = format!("{}/.stamp-{}-{}", BIN_DIR, ppid, started);
    let res = if std::path::Path::new(&stamp).exists() && std::path::Path::new(&bin).exists() {
        Ok(bin.clone())
    } else {
        let out = Command::new("cargo")
            .args(["build", "--offline", "--bin", "agrind"])
            .current_dir("/repo")
            .env("CARGO_TARGET_DIR", BIN_DIR)
            .env("CARGO_NET_OFFLINE", "true")
            .stdin(Stdio::null())
            .output();
        match out {
            Ok(o) if o.status.success() && std::path::Path::new(&bin).exists() => {
                if let Ok(rd) = std::fs::read_dir(BIN_DIR) {
                    for e in rd.flatten() {
                        if e.file_name().to_string_lossy().starts_with(".stamp-") {
                            let _ = std::fs::remove_file(e.path());
                        }
                    }
                }
                let _ = std::fs::write(&stamp, b"");
                Ok(bin.clone())
            }
            Ok(o) => Err(format!("cargo build --bin agrind failed: {}", String::from_utf8_lossy(&o.stderr).chars().rev().take(600).collect::<String>().chars().rev().collect::<String>())),
            Err(e) => Err(format!("cannot run cargo: {}", e)),
        }
    };
    unsafe { libc::flock(lock.as_raw_fd(), libc::LOCK_UN) };
    res
}

pub enum Feed {
    /// write all, then close stdin
    Finite(Vec<u8>),
    /// write the block again and again until the child goes away
    Endless(Vec<u8>),
    /// endless and SLOW: one line of the block every `.1` milliseconds (so the renderer's 50 ms
    /// poll sees idle periods between rows)
    Paced(Vec<u8>, u64),
}

#[derive(Debug, Clone, Default)]
pub struct ProcOut {
    pub status: Option<i32>,
    pub signal: Option<i32>,
    pub timed_out: bool,
    pub secs_after_close: f64,
    pub stdout: Vec<u8>,
    pub stderr: String,
    pub fed: usize,
}

impl ProcOut {
    pub fn error_lines(&self) -> usize {
        self.stderr.lines().filter(|l| l.starts_with("error:")).count()
    }
    pub fn crashed(&self) -> bool {
        self.signal.is_some()
            || self.status == Some(101)
            || self.stderr.contains("panicked at")
            || self.stderr.contains("Well, this is embarrassing")
            || self.stderr.contains("RUST_BACKTRACE")
    }
    pub fn summary(&self) -> serde_json::Value {
        json!({"status": self.status, "signal": self.signal, "timed_out": self.timed_out, "secs_after_close": self.secs_after_close,
               "stdout_bytes": self.stdout.len(), "stderr": self.stderr.chars().take(400).collect::<String>(), "fed_bytes": self.fed})
    }
}

/// run the binary; read `close_after` bytes of its stdout (all of it if `None`) and then close the
/// read end; wait at most `ceiling` for it to exit (then kill).
pub fn run_proc(bin: &str, args: &[String], feed: Feed, close_after: Option<usize>, stall_ms: u64, ceiling: Duration) -> ProcOut {
    use std::os::unix::process::ExitStatusExt;
    let mut child = match Command::new(bin)
        .args(args)
        .env("RUST_BACKTRACE", "0")
        .env_remove("RUST_LOG")
        .stdin(Stdio::piped())
        .stdout(Stdio::piped())
        .stderr(Stdio::piped())
        .spawn()
    {
        Ok(c) => c,
        Err(e) => return ProcOut { stderr: format!("spawn failed: {}", e), ..Default::default() },
    };
    let stop = Arc::new(AtomicBool::new(false));
    let fed = Arc::new(Mutex::new(0usize));
    let mut stdin = child.stdin.take();
    let feeder = {
        let stop = stop.clone();
        let fed = fed.clone();
        let mut si = stdin.take();
        std::thread::spawn(move || match feed {
            Feed::Finite(b) => {
                if let Some(mut s) = si.take() {
                    for part in b.chunks(1 << 16) {
                        if stop.load(Ordering::SeqCst) || s.write_all(part).is_err() {
                            break;
                        }
                        *fed.lock().unwrap() += part.len();
                    }
                }
            }
            Feed::Endless(b) => {
                if let Some(mut s) = si.take() {
                    while !stop.load(Ordering::SeqCst) {
                        if s.write_all(&b).is_err() {
                            break;
                        }
                        *fed.lock().unwrap() += b.len();
                    }
                }
            }
            Feed::Paced(b, ms) => {
                if let Some(mut s) = si.take() {
                    'outer: while !stop.load(Ordering::SeqCst) {
                        for line in b.split_inclusive(|c| *c == b'\n') {
                            if stop.load(Ordering::SeqCst) || s.write_all(line).is_err() || s.flush().is_err() {
                                break 'outer;
                            }
                            *fed.lock().unwrap() += line.len();
                            std::thread::sleep(Duration::from_millis(ms));
                        }
                    }
                }
            }
        })
    };
    // hard watchdog: a child that neither exits nor closes its stdout would block the reads below
    // for ever (they come before the ceiling loop); it is killed after 3 ceilings from the start
    let pid = child.id() as i32;
    let wd_fired = Arc::new(AtomicBool::new(false));
    let wd_done = Arc::new(AtomicBool::new(false));
    {
        let (fired, done) = (wd_fired.clone(), wd_done.clone());
        let hard = ceiling * 3 + Duration::from_millis(stall_ms);
        std::thread::spawn(move || {
            let t0 = Instant::now();
            while !done.load(Ordering::SeqCst) {
                if t0.elapsed() > hard {
                    fired.store(true, Ordering::SeqCst);
                    unsafe {
                        libc::kill(pid, libc::SIGKILL);
                    }
                    break;
                }
                std::thread::sleep(Duration::from_millis(20));
            }
        });
    }
    let mut se = child.stderr.take().unwrap();
    let errt = std::thread::spawn(move || {
        let mut v = Vec::new();
        let _ = se.read_to_end(&mut v);
        String::from_utf8_lossy(&v).into_owned()
    });
    if stall_ms > 0 {
        std::thread::sleep(Duration::from_millis(stall_ms)); // the consumer does not read: pipe fills up
    }
    let mut so = child.stdout.take().unwrap();
    let mut got = Vec::new();
    match close_after {
        Some(k) => {
            let mut buf = vec![0u8; 4096];
            while got.len() < k {
                let want = (k - got.len()).min(buf.len());
                match so.read(&mut buf[..want]) {
                    Ok(0) | Err(_) => break,
                    Ok(n) => got.extend_from_slice(&buf[..n]),
                }
            }
        }
        None => {
            let _ = so.read_to_end(&mut got);
        }
    }
    drop(so); // the consumer goes away
    let t_close = Instant::now();
    let mut out = ProcOut { stdout: got, ..Default::default() };
    loop {
        match child.try_wait() {
            Ok(Some(st)) => {
                out.status = st.code();
                out.signal = st.signal();
                break;
            }
            Ok(None) => {
                if t_close.elapsed() > ceiling {
                    out.timed_out = true;
                    let _ = child.kill();
                    let _ = child.wait();
                    break;
                }
                std::thread::sleep(Duration::from_millis(5));
            }
            Err(_) => break,
        }
    }
    out.secs_after_close = t_close.elapsed().as_secs_f64();
    wd_done.store(true, Ordering::SeqCst);
    if wd_fired.load(Ordering::SeqCst) {
        out.timed_out = true;
    }
    stop.store(true, Ordering::SeqCst);
    let _ = feeder.join();
    out.stderr = errt.join().unwrap_or_default();
    out.fed = *fed.lock().unwrap();
    out
}

// ------------------------------------------------------------------------------------------------
// generators
// ------------------------------------------------------------------------------------------------

const WORDS: &[&str] = &["alpha", "héllo", "日本語", "ab", "x1", "naïve café", "😀 ok", "ERROR", "a b", "Ωmega", "ab ab", "tail"];

fn json_line(i: usize, r: &mut Rng) -> Vec<u8> {
    let w = r.pick(WORDS).to_string();
    let n = (i * 7 + 3) % 10;
    format!("{{\"id\":{},\"n\":{},\"s\":{}}}\n", i, n, serde_json::to_string(&w).unwrap()).into_bytes()
}

fn text_line(i: usize, r: &mut Rng) -> Vec<u8> {
    let mut v = format!("{} {} ", i, r.pick(WORDS)).into_bytes();
    match r.below(6) {
        0 => v.extend_from_slice(&[0xff, b'a', b'b']),             // invalid byte
        1 => v.extend_from_slice(&[0xe6, 0x97]),                   // truncated 3-byte sequence
        2 => v.extend_from_slice(&[0xf0, 0x9f, 0x98, b' ', b'z']), // truncated 4-byte sequence
        3 => v.extend_from_slice("ab 日本 ab".as_bytes()),
        _ => {}
    }
    v.push(b'\n');
    v
}

pub struct StreamCase {
    pub query: String,
    pub mode: String,
    pub lines: Vec<Vec<u8>>,
    /// rows expected after the first `i` lines are complete (before EOF)
    pub rows_after: Vec<usize>,
    pub expected: Vec<u8>,
    /// per line: the row it yields in the read loop
    pub table: Vec<Option<Vec<u8>>>,
    /// rows that come out of the drain loop
    pub tail: Vec<Vec<u8>>,
    pub kind: &'static str,
}

const REC_QUERIES: &[(&str, &str)] = &[
    ("* | json", "stateless"),
    ("* | json | where n >= 3", "stateless"),
    ("* | json | fields id, s", "stateless"),
    ("* | json | n * 2 as m | where m != 6", "stateless"),
    ("* | json | where n > 100", "stateless"),
    ("* | json | limit 3", "head:3"),
    ("* | json | where n > 4 | limit 2", "head:2"),
    ("* | json | limit -2", "tail:2"),
    ("*", "text"),
    ("ab", "text"),
    ("\"ab ab\" or tail", "text"),
];
const MODES: &[&str] = &["json", "logfmt", "legacy", "format={id}|{s}|{n}"];

/// build a case and compute its oracle data with unchunked runs of the real code
fn stream_case(r: &mut Rng, nlines: usize, final_newline: bool) -> Option<StreamCase> {
    let (q, kind) = *r.pick(REC_QUERIES);
    let mode = r.pick(MODES).to_string();
    let mut lines: Vec<Vec<u8>> = (0..nlines).map(|i| if kind == "text" { text_line(i, r) } else { json_line(i, r) }).collect();
    if !final_newline {
        if let Some(l) = lines.last_mut() {
            l.pop();
        }
    }
    let all: Vec<u8> = lines.concat();
    let full = imp::run(q, &all, &mode, 30);
    if !full.compiled || full.panicked.is_some() || full.hung {
        return None;
    }
    let rows = split_rows(&full.stdout);
    // which lines survive the stateless part: run each line alone
    let base_q = match kind {
        k if k.starts_with("head") || k.starts_with("tail") => q.rsplit_once(" | limit").map(|p| p.0).unwrap_or(q),
        _ => q,
    };
    let mut surv = vec![];
    for l in &lines {
        let one = imp::run(base_q, l, "json", 10);
        surv.push(!one.stdout.is_empty());
    }
    let mut table: Vec<Option<Vec<u8>>> = vec![None; lines.len()];
    let mut tail = vec![];
    let mut rows_after = vec![0usize; lines.len() + 1];
    let nsurv = surv.iter().filter(|s| **s).count();
    if let Some(n) = kind.strip_prefix("head:").and_then(|s| s.parse::<usize>().ok()) {
        let mut k = 0;
        for (i, s) in surv.iter().enumerate() {
            if *s && k < n {
                table[i] = rows.get(k).cloned();
                k += 1;
            }
            rows_after[i + 1] = k;
        }
        if rows.len() != k {
            return None;
        }
    } else if kind.starts_with("tail:") {
        tail = rows.clone();
    } else {
        if rows.len() != nsurv {
            return None; // a row contains a newline or the per-line oracle does not apply
        }
        let mut k = 0;
        for (i, s) in surv.iter().enumerate() {
            if *s {
                table[i] = Some(rows[k].clone());
                k += 1;
            }
            rows_after[i + 1] = k;
        }
    }
    Some(StreamCase { query: q.to_string(), mode, lines, rows_after, expected: full.stdout, table, tail, kind })
}

/// cut points over the whole byte string
fn chunking(r: &mut Rng, input: &[u8]) -> (Vec<Vec<u8>>, &'static str) {
    let n = input.len();
    let style = r.below(6);
    let mut cuts: Vec<usize> = vec![];
    let name = match style {
        0 => {
            cuts = (1..n).collect();
            "every-byte"
        }
        1 => {
            for (i, b) in input.iter().enumerate() {
                if *b == b'\n' && i + 1 < n {
                    cuts.push(i + 1);
                }
            }
            "line-aligned"
        }
        2 => "one-chunk",
        3 => {
            // inside every multi-byte sequence
            for i in 1..n {
                if input[i] & 0xC0 == 0x80 {
                    cuts.push(i);
                }
            }
            "inside-utf8"
        }
        4 => {
            // just before and just after every newline
            for (i, b) in input.iter().enumerate() {
                if *b == b'\n' {
                    if i > 0 {
                        cuts.push(i);
                    }
                    if i + 1 < n {
                        cuts.push(i + 1);
                    }
                }
            }
            "around-newline"
        }
        _ => {
            let k = 1 + r.below(3 * (1 + input.iter().filter(|b| **b == b'\n').count()));
            for _ in 0..k {
                if n > 1 {
                    cuts.push(1 + r.below(n - 1));
                }
            }
            "random"
        }
    };
    cuts.sort();
    cuts.dedup();
    let mut out = vec![];
    let mut prev = 0;
    for c in cuts {
        if c > prev && c < n {
            out.push(input[prev..c].to_vec());
            prev = c;
        }
    }
    if prev < n {
        out.push(input[prev..].to_vec());
    }
    (out, name)
}

// ------------------------------------------------------------------------------------------------
// in-process checks
// ------------------------------------------------------------------------------------------------

fn is_prefix(a: &[u8], b: &[u8]) -> bool {
    a.len() <= b.len() && &b[..a.len()] == a
}

/// promptness + final equality + model conformance for one case and one chunking
fn check_stream(ctx: &mut Ctx, fam: &str, key: &str, c: &StreamCase, chunks: &[Vec<u8>], style: &str, gaps_ms: &[u64]) {
    let all: Vec<u8> = c.lines.concat();
    let gate = Gate::default();
    let sink = Sink::default();
    // self-test of the oracle (AGVERIF_C15_MUTANT=bufsink): a buffering layer between renderer and
    // consumer must be reported as C15/buffering-delay
    let run = match mutant().as_str() {
        "bufsink" => start(&c.query, &c.mode, gate.reader(), io::BufWriter::with_capacity(1 << 16, sink.clone())),
        "idleflush" => start(&c.query, &c.mode, gate.reader(), IdleFlush::new(sink.clone())),
        _ => start(&c.query, &c.mode, gate.reader(), sink.clone()),
    };
    let info = |extra: serde_json::Value| {
        let mut j = json!({"query": c.query, "mode": c.mode, "lines": c.lines.len(), "kind": c.kind, "chunking": style, "chunks": chunks.len(),
               "chunk_lens": chunks.iter().take(64).map(|c| c.len()).collect::<Vec<usize>>(),
               "input_hex": if all.len() <= 600 { hexb(&all) } else { format!("{}…", hexb(&all[..600])) }});
        if let Some(c) = extra.get("class") {
            j["class"] = c.clone();
        }
        if let Some(w) = extra.get("what") {
            j["what"] = w.clone();
        }
        j["detail"] = extra;
        j
    };
    let mut released = 0usize;
    let mut complete_prev = 0usize;
    let mut failure: Option<serde_json::Value> = None;
    for (ci, ch) in chunks.iter().enumerate() {
        if let Some(g) = gaps_ms.get(ci) {
            if *g > 0 {
                std::thread::sleep(Duration::from_millis(*g));
            }
        }
        gate.release(ch);
        released += ch.len();
        let complete = all[..released].iter().filter(|b| **b == b'\n').count();
        if complete > complete_prev {
            complete_prev = complete;
            let want = c.rows_after[complete.min(c.lines.len())];
            // the rows of every complete line must show up without any further input
            let ok = wait_until(PATIENCE, || sink.newlines() >= want);
            let got = sink.bytes();
            let have = got.iter().filter(|b| **b == b'\n').count();
            if !ok {
                failure = Some(json!({"class": "C15/buffering-delay", "what": "rows of complete lines were not written within 5 s although no further input was needed",
                    "complete_lines": complete, "rows_expected": want, "rows_written": have}));
                break;
            }
            // let the reader take everything released, then nothing more may appear
            let _ = wait_until(PATIENCE, || gate.drained());
            let got = sink.bytes();
            let have = got.iter().filter(|b| **b == b'\n').count();
            if have != want || !is_prefix(&got, &c.expected) {
                failure = Some(json!({"class": "C15/stream-content", "what": "bytes written so far are not exactly the rows of the complete lines (prefix of the unchunked output)",
                    "complete_lines": complete, "rows_expected": want, "rows_written": have, "written_hex": hexb(&got[..got.len().min(300)])}));
                break;
            }
        }
    }
    gate.eof();
    let obs = run.wait(Duration::from_secs(30));
    if let Some(f) = failure {
        ctx.case(fam, key, "viol", info(f));
        return;
    }
    let obs = match obs {
        Some(o) => o,
        None => {
            ctx.case(fam, key, "viol", info(json!({"class": "C15/no-termination", "what": "process() did not return within 30 s after EOF"})));
            return;
        }
    };
    let got = sink.bytes();
    if obs.panicked.is_some() || got != c.expected {
        ctx.case(
            fam,
            key,
            "viol",
            info(json!({"class": "C15/loss-dup-reorder", "what": "total output differs from the unchunked run (or the run panicked)", "panic": obs.panicked,
                "expected_hex": hexb(&c.expected[..c.expected.len().min(400)]), "got_hex": hexb(&got[..got.len().min(400)]), "expected_len": c.expected.len(), "got_len": got.len()})),
        );
        return;
    }
    // F-level: the model on the same chunking (its own pseudo-random schedule)
    if all.len() <= 4000 {
        let variant = "rec";
        let m = model_sched(ctx, variant, 1000, &c.table, &c.tail, chunks, None, None, ctx.seed ^ (released as u64));
        if !m.ok || m.written != hexb(&c.expected) || m.reader != "done" || m.errs != 0 {
            ctx.case(fam, key, "fdis", info(json!({"what": "the model's run of this chunking does not end with the implementation's output", "model": m.raw.chars().take(400).collect::<String>()})));
            return;
        }
    }
    ctx.case(fam, key, "pass", info(json!({"rows": c.rows_after.last(), "secs": obs.secs})));
}

fn volume_input(n: usize, final_newline: bool) -> Vec<u8> {
    let mut s = String::with_capacity(n * 12);
    for i in 0..n {
        s.push_str(&format!("{{\"i\":{}}}\n", i));
    }
    if !final_newline && n > 0 {
        s.pop();
    }
    s.into_bytes()
}

fn volume_expected(n: usize, from: usize) -> Vec<u8> {
    let mut s = String::with_capacity(n * 8);
    for i in from..n {
        s.push_str(&format!("i={}\n", i));
    }
    s.into_bytes()
}

fn first_diff(a: &[u8], b: &[u8]) -> usize {
    a.iter().zip(b.iter()).position(|(x, y)| x != y).unwrap_or(a.len().min(b.len()))
}

fn check_volume(ctx: &mut Ctx, n: usize, final_newline: bool, r: &mut Rng) {
    let inp = volume_input(n, final_newline);
    let (q, from) = if r.chance(50) { ("* | json", 0) } else { ("* | json | where i >= 10", 10.min(n)) };
    let expected = volume_expected(n, from);
    let gate = Gate::default();
    let sink = Sink::default();
    let run = start(q, "logfmt", gate.reader(), sink.clone());
    // fast producer: everything at once, in chunks of odd sizes
    let mut pos = 0;
    let mut nchunks = 0;
    while pos < inp.len() {
        let l = (1 + r.below(70000)).min(inp.len() - pos);
        gate.release(&inp[pos..pos + l]);
        pos += l;
        nchunks += 1;
    }
    gate.eof();
    let key = format!("volume:{}:{}", n, final_newline);
    let info = json!({"query": q, "lines": n, "final_newline": final_newline, "chunks": nchunks});
    match run.wait(Duration::from_secs(300)) {
        None => ctx.case("volume", &key, "viol", json!({"class": "C15/no-termination", "what": "process() did not return within 300 s", "case": info})),
        Some(o) => {
            let got = sink.bytes();
            if o.panicked.is_some() || got != expected {
                let d = first_diff(&got, &expected);
                ctx.case("volume", &key, "viol", json!({"class": "C15/loss-dup-reorder", "what": "output is not every passing line exactly once in input order", "panic": o.panicked,
                    "expected_len": expected.len(), "got_len": got.len(), "first_difference_at": d, "case": info}));
            } else {
                ctx.case("volume", &key, "pass", json!({"case": info, "secs": o.secs, "bytes": got.len()}));
            }
        }
    }
}

/// the consumer does not take a single byte for a while: the channel fills, the reader must block
/// (not drop, not buffer without bound), and everything comes out in order once the consumer resumes
fn check_stalled(ctx: &mut Ctx, n: usize) {
    let inp = volume_input(n, true);
    let expected = volume_expected(n, 0);
    let gate = Gate::default();
    let sink = Sink::stalled();
    let run = start("* | json", "logfmt", gate.reader(), sink.clone());
    gate.release(&inp);
    gate.eof();
    // wait for the reader to come to rest
    let mut last = usize::MAX;
    let mut stable_since = Instant::now();
    let t0 = Instant::now();
    loop {
        let c = gate.consumed();
        if c != last {
            last = c;
            stable_since = Instant::now();
        }
        if stable_since.elapsed() > Duration::from_millis(400) || t0.elapsed() > Duration::from_secs(20) {
            break;
        }
        std::thread::sleep(Duration::from_millis(5));
    }
    let lines_taken = inp[..last.min(inp.len())].iter().filter(|b| **b == b'\n').count();
    let written_while_stalled = sink.len();
    sink.unstall();
    let key = format!("stalled:{}", n);
    let info = json!({"lines": n, "lines_taken_while_stalled": lines_taken, "bytes_written_while_stalled": written_while_stalled});
    let o = match run.wait(Duration::from_secs(120)) {
        None => {
            ctx.case("stalled-consumer", &key, "viol", json!({"class": "C15/no-termination", "what": "did not finish after the consumer resumed", "case": info}));
            return;
        }
        Some(o) => o,
    };
    let got = sink.bytes();
    if o.panicked.is_some() || got != expected {
        ctx.case("stalled-consumer", &key, "viol", json!({"class": "C15/loss-dup-reorder", "what": "output after a stalled consumer differs", "panic": o.panicked,
            "expected_len": expected.len(), "got_len": got.len(), "first_difference_at": first_diff(&got, &expected), "case": info}));
        return;
    }
    // model bound (C15_chan_bounded + one row in the renderer's hands + one in the reader's):
    // lines taken ≤ capacity + 2 while nothing was written
    if n > 1002 && (lines_taken > 1002 || written_while_stalled != 0) {
        ctx.case("stalled-consumer", &key, "fdis", json!({"what": "while the consumer was stalled the reader took more lines than channel capacity + 2 (model: chan ≤ 1000, cur ≤ 1, outq ≤ 1)", "case": info}));
        return;
    }
    if n > 1002 && lines_taken < 1000 {
        ctx.case("stalled-consumer", "", "skip", json!({"why": "reader did not fill the channel within the observation window", "case": info}));
        return;
    }
    ctx.case("stalled-consumer", &key, "pass", info);
}

/// aggregate on a non-terminal: nothing before EOF, one write, independent of chunking
fn check_agg(ctx: &mut Ctx, r: &mut Rng, idx: usize) {
    let n = 3 + r.below(40);
    let mut lines = vec![];
    for i in 0..n {
        // group sizes are pairwise different so that the implicit sort leaves no ties
        let k = if i % 7 == 0 { "a" } else if i % 3 == 0 { "b" } else { "c" };
        lines.push(format!("{{\"k\":\"{}\",\"n\":{}}}\n", k, i).into_bytes());
    }
    let all: Vec<u8> = lines.concat();
    let (q, mode) = *r.pick(&[("* | json | count", "json"), ("* | json | count", "legacy"), ("* | json | sum(n)", "logfmt"), ("* | json | count", "format={_count}")]);
    let full = imp::run(q, &all, mode, 30);
    let (chunks, style) = chunking(r, &all);
    let gate = Gate::default();
    let sink = Sink::default();
    let run = start(q, mode, gate.reader(), sink.clone());
    for ch in &chunks {
        gate.release(ch);
    }
    let _ = wait_until(PATIENCE, || gate.drained());
    std::thread::sleep(Duration::from_millis(60)); // > one poll interval
    let before_eof = sink.len();
    gate.eof();
    let key = format!("agg:{}", idx);
    let info = json!({"query": q, "mode": mode, "lines": n, "chunking": style});
    match run.wait(Duration::from_secs(30)) {
        None => ctx.case("aggregate", &key, "viol", json!({"class": "C15/no-termination", "what": "aggregate run did not finish", "case": info})),
        Some(o) => {
            let got = sink.bytes();
            let writes = sink.0 .0.lock().unwrap().events.len();
            if o.panicked.is_some() || got != full.stdout {
                ctx.case("aggregate", &key, "viol", json!({"class": "C15/loss-dup-reorder", "what": "aggregate output depends on the chunking", "panic": o.panicked,
                    "expected": String::from_utf8_lossy(&full.stdout), "got": String::from_utf8_lossy(&got), "case": info}));
            } else if before_eof != 0 {
                ctx.case("aggregate", &key, "fdis", json!({"what": "an aggregate on a non-terminal wrote before EOF (model: written = [] until the final write)", "bytes_before_eof": before_eof, "case": info}));
            } else {
                ctx.case("aggregate", &key, "pass", json!({"case": info, "write_calls": writes}));
            }
        }
    }
}

// ------------------------------------------------------------------------------------------------
// subprocess checks
// ------------------------------------------------------------------------------------------------

/// slow producer on real pipes: one line every `gap_ms` (> the 50 ms poll); each row must arrive on
/// the stdout pipe before the next line is written
fn check_proc_paced(ctx: &mut Ctx, bin: &str, gap_ms: u64, nlines: usize) {
    let mut child = match Command::new(bin)
        .args(["* | json", "-o", "logfmt"])
        .env("RUST_BACKTRACE", "0")
        .stdin(Stdio::piped())
        .stdout(Stdio::piped())
        .stderr(Stdio::null())
        .spawn()
    {
        Ok(c) => c,
        Err(e) => {
            ctx.case("binary", "", "skip", json!({"why": "cannot spawn the binary", "err": e.to_string()}));
            return;
        }
    };
    let mut si = child.stdin.take().unwrap();
    let so = child.stdout.take().unwrap();
    let (tx, rx) = mpsc::channel::<(Instant, String)>();
    std::thread::spawn(move || {
        let br = io::BufReader::new(so);
        for l in br.lines().flatten() {
            let _ = tx.send((Instant::now(), l));
        }
    });
    let mut worst = 0f64;
    let mut fail: Option<serde_json::Value> = None;
    for i in 0..nlines {
        std::thread::sleep(Duration::from_millis(gap_ms));
        let last = i + 1 == nlines;
        let line = if last { format!("{{\"i\":{}}}", i) } else { format!("{{\"i\":{}}}\n", i) };
        let t = Instant::now();
        if si.write_all(line.as_bytes()).is_err() {
            fail = Some(json!({"what": "stdin closed early", "line": i}));
            break;
        }
        let _ = si.flush();
        if last {
            break; // complete only at EOF
        }
        match rx.recv_timeout(PATIENCE) {
            Ok((at, l)) => {
                worst = worst.max(at.duration_since(t).as_secs_f64());
                if l != format!("i={}", i) {
                    fail = Some(json!({"class": "C15/loss-dup-reorder", "what": "wrong row on the pipe", "line": i, "got": l}));
                    break;
                }
            }
            Err(_) => {
                fail = Some(json!({"class": "C15/buffering-delay", "what": "the row of a complete line did not reach the stdout pipe within 5 s while stdin stayed open", "line": i}));
                break;
            }
        }
    }
    drop(si);
    if fail.is_none() && nlines > 0 {
        match rx.recv_timeout(PATIENCE) {
            Ok((_, l)) if l == format!("i={}", nlines - 1) => {}
            other => fail = Some(json!({"class": "C15/loss-dup-reorder", "what": "final line without newline did not come out after EOF", "got": format!("{:?}", other.map(|p| p.1))})),
        }
    }
    let t0 = Instant::now();
    let mut exited = false;
    while t0.elapsed() < Duration::from_secs(10) {
        if let Ok(Some(_)) = child.try_wait() {
            exited = true;
            break;
        }
        std::thread::sleep(Duration::from_millis(5));
    }
    if !exited {
        let _ = child.kill();
        let _ = child.wait();
        fail = fail.or(Some(json!({"class": "C15/no-termination", "what": "binary did not exit within 10 s after EOF"})));
    }
    let key = format!("paced:{}ms:{}", gap_ms, nlines);
    match fail {
        Some(f) => ctx.case("binary", &key, "viol", json!({"case": {"gap_ms": gap_ms, "lines": nlines}, "class": f["class"], "detail": f})),
        None => ctx.case("binary", &key, "pass", json!({"gap_ms": gap_ms, "lines": nlines, "worst_latency_s": worst})),
    }
}

fn check_proc_volume(ctx: &mut Ctx, bin: &str, n: usize, final_newline: bool, stall_ms: u64) {
    let inp = volume_input(n, final_newline);
    let expected = volume_expected(n, 0);
    let args: Vec<String> = vec!["* | json".into(), "-o".into(), "logfmt".into()];
    let o = run_proc(bin, &args, Feed::Finite(inp), None, stall_ms, Duration::from_secs(120));
    let key = format!("volume:{}:{}:{}", n, final_newline, stall_ms);
    if o.timed_out || o.crashed() || o.status != Some(0) || o.stdout != expected {
        ctx.case("binary", &key, "viol", json!({"class": "C15/loss-dup-reorder", "what": "binary output on pipes is not every line exactly once in order (or it crashed / hung)",
            "lines": n, "stall_ms": stall_ms, "expected_len": expected.len(), "first_difference_at": first_diff(&o.stdout, &expected), "proc": o.summary()}));
    } else {
        ctx.case("binary", &key, "pass", json!({"lines": n, "final_newline": final_newline, "consumer_stalled_ms": stall_ms, "bytes": o.stdout.len()}));
    }
}

// ------------------------------------------------------------------------------------------------

// ------------------------------------------------------------------------------------------------
// trickle: steady input faster than the poll timeout, nobody waits for output
// ------------------------------------------------------------------------------------------------

struct TrickleObs {
    samples: usize,
    /// (sample time s, rows that had to be visible, rows visible when input stopped flowing)
    failed: Vec<(f64, usize, usize)>,
    max_gap_ms: u64,
    secs: f64,
    released: usize,
    write_failed: bool,
}

/// Release `n` complete lines, one every `gap_ms`; from 1.15 s on, every 200 ms, note how many rows
/// belong to lines released at least 1 s earlier; such a target fails only if it is still not met
/// when the last line has been released (i.e. during the whole time further input kept arriving).
fn trickle(release: &mut dyn FnMut(usize) -> bool, rows_seen: &dyn Fn() -> usize, rows_after: &dyn Fn(usize) -> usize, n: usize, gap_ms: u64) -> TrickleObs {
    let t0 = Instant::now();
    let mut rel_at: Vec<Instant> = Vec::with_capacity(n);
    let mut pending: Vec<(f64, usize)> = vec![];
    let mut next_sample = Duration::from_millis(1150);
    let mut o = TrickleObs { samples: 0, failed: vec![], max_gap_ms: 0, secs: 0.0, released: 0, write_failed: false };
    let mut last = Instant::now();
    for i in 0..n {
        if !release(i) {
            o.write_failed = true;
            break;
        }
        let now = Instant::now();
        if i > 0 {
            o.max_gap_ms = o.max_gap_ms.max(now.duration_since(last).as_millis() as u64);
        }
        last = now;
        rel_at.push(now);
        o.released = i + 1;
        if now.duration_since(t0) >= next_sample {
            let old = rel_at.iter().filter(|t| now.duration_since(**t) >= Duration::from_secs(1)).count();
            let want = rows_after(old);
            if want > 0 {
                pending.push((now.duration_since(t0).as_secs_f64(), want));
                o.samples += 1;
            }
            next_sample += Duration::from_millis(200);
        }
        if !pending.is_empty() {
            let seen = rows_seen();
            pending.retain(|(_, w)| seen < *w);
        }
        std::thread::sleep(Duration::from_millis(gap_ms));
    }
    // the input stops flowing now: whatever is still missing was held back the whole time
    let seen = rows_seen();
    for (t, w) in pending {
        if seen < w {
            o.failed.push((t, w, seen));
        }
    }
    o.secs = t0.elapsed().as_secs_f64();
    o
}

fn trickle_params(r: &mut Rng) -> (usize, u64, &'static str, &'static str, usize) {
    let gap_ms = 5 + r.below(6) as u64; // 5 … 10 ms, far below the 50 ms poll
    let n = (1900 / gap_ms as usize).max(150) + r.below(30);
    let (q, from) = *r.pick(&[("* | json", 0usize), ("* | json | where i >= 10", 10), ("* | json | where i != 3", usize::MAX)]);
    let mode = *r.pick(&["logfmt", "json", "format={i}"]);
    (n, gap_ms, q, mode, from)
}

fn trickle_rows_after(from: usize, k: usize) -> usize {
    if from == usize::MAX {
        // `where i != 3`
        if k > 3 { k - 1 } else { k }
    } else {
        k.saturating_sub(from)
    }
}

/// returns false when the case was not conclusive (the producer's pacing was disturbed) and
/// `last` is false: the caller runs it again
fn trickle_verdict(ctx: &mut Ctx, fam: &str, key: &str, o: &TrickleObs, total_ok: Option<bool>, info: serde_json::Value, last: bool) -> bool {
    let detail = json!({"samples": o.samples, "max_gap_ms": o.max_gap_ms, "secs": o.secs, "released": o.released,
        "late": o.failed.iter().map(|(t, w, s)| json!({"sample_at_s": t, "rows_due": w, "rows_visible_when_input_stopped": s})).collect::<Vec<_>>()});
    if !o.failed.is_empty() {
        ctx.case(fam, key, "viol", json!({"class": "C15/buffering-delay",
            "what": "steady input (gaps far below the 50 ms poll): rows of lines released more than 1 s earlier were still not visible to the consumer while further input kept arriving",
            "case": info, "detail": detail}));
    } else if total_ok == Some(false) || o.write_failed {
        ctx.case(fam, key, "viol", json!({"class": "C15/loss-dup-reorder", "what": "trickle: total output differs from the expected one (or the input could not be delivered)", "case": info, "detail": detail}));
    } else if total_ok.is_none() {
        ctx.case(fam, key, "viol", json!({"class": "C15/no-termination", "what": "trickle: the run did not end after EOF", "case": info, "detail": detail}));
    } else if o.samples < 3 || o.max_gap_ms >= 40 {
        if !last {
            return false;
        }
        ctx.case(fam, "", "skip", json!({"why": "producer pacing disturbed (a gap of 40 ms or more, or fewer than 3 sample points): not conclusive", "case": info, "detail": detail}));
    } else {
        ctx.case(fam, key, "pass", json!({"case": info, "detail": detail}));
    }
    true
}

fn check_trickle_inproc(ctx: &mut Ctx, g: usize) {
    for attempt in 0..3 {
        if trickle_inproc_once(ctx, g, attempt == 2) {
            break;
        }
    }
}

fn trickle_inproc_once(ctx: &mut Ctx, g: usize, last: bool) -> bool {
    let mut r = case_rng(ctx.seed, 5, g);
    let (n, gap_ms, q, mode, from) = trickle_params(&mut r);
    let lines: Vec<Vec<u8>> = (0..n).map(|i| format!("{{\"i\":{}}}\n", i).into_bytes()).collect();
    let all: Vec<u8> = lines.concat();
    let expected = imp::run(q, &all, mode, 30).stdout;
    let gate = Gate::default();
    let sink = Sink::default();
    let run = if mutant() == "idleflush" { start(q, mode, gate.reader(), IdleFlush::new(sink.clone())) } else { start(q, mode, gate.reader(), sink.clone()) };
    let o = trickle(&mut |i| { gate.release(&lines[i]); true }, &|| sink.newlines(), &|k| trickle_rows_after(from, k), n, gap_ms);
    gate.eof();
    let fin = run.wait(Duration::from_secs(30));
    let total_ok = fin.as_ref().map(|f| f.panicked.is_none() && sink.bytes() == expected);
    let info = json!({"where": "in-process", "query": q, "mode": mode, "lines": n, "gap_ms": gap_ms, "output_bytes": expected.len()});
    trickle_verdict(ctx, "trickle", &format!("trickle:{}", g), &o, total_ok, info, last)
}

fn check_trickle_binary(ctx: &mut Ctx, bin: &str, g: usize) {
    for attempt in 0..3 {
        if trickle_binary_once(ctx, bin, g, attempt == 2) {
            break;
        }
    }
}

fn trickle_binary_once(ctx: &mut Ctx, bin: &str, g: usize, last: bool) -> bool {
    use std::sync::atomic::AtomicUsize;
    let mut r = case_rng(ctx.seed, 6, g);
    let (n, gap_ms, q, mode, from) = trickle_params(&mut r);
    let lines: Vec<Vec<u8>> = (0..n).map(|i| format!("{{\"i\":{}}}\n", i).into_bytes()).collect();
    let all: Vec<u8> = lines.concat();
    let expected = imp::run(q, &all, mode, 30).stdout;
    let mut child = match Command::new(bin).args([q, "-o", mode]).env("RUST_BACKTRACE", "0").stdin(Stdio::piped()).stdout(Stdio::piped()).stderr(Stdio::null()).spawn() {
        Ok(c) => c,
        Err(e) => {
            ctx.case("trickle", "", "skip", json!({"why": "cannot spawn the binary", "err": e.to_string()}));
            return true;
        }
    };
    let mut si = child.stdin.take().unwrap();
    let mut so = child.stdout.take().unwrap();
    let rows = Arc::new(AtomicUsize::new(0));
    let rows2 = rows.clone();
    let reader = std::thread::spawn(move || {
        let mut all = Vec::new();
        let mut buf = [0u8; 4096];
        loop {
            match so.read(&mut buf) {
                Ok(0) | Err(_) => break,
                Ok(k) => {
                    rows2.fetch_add(buf[..k].iter().filter(|b| **b == b'\n').count(), Ordering::SeqCst);
                    all.extend_from_slice(&buf[..k]);
                }
            }
        }
        all
    });
    let o = trickle(&mut |i| si.write_all(&lines[i]).and_then(|_| si.flush()).is_ok(), &|| rows.load(Ordering::SeqCst), &|k| trickle_rows_after(from, k), n, gap_ms);
    drop(si);
    let t0 = Instant::now();
    let mut exited = false;
    while t0.elapsed() < Duration::from_secs(10) {
        if let Ok(Some(_)) = child.try_wait() {
            exited = true;
            break;
        }
        std::thread::sleep(Duration::from_millis(5));
    }
    if !exited {
        let _ = child.kill();
        let _ = child.wait();
    }
    let got = reader.join().unwrap_or_default();
    let total_ok = if exited { Some(got == expected) } else { None };
    let info = json!({"where": "binary on pipes", "query": q, "mode": mode, "lines": n, "gap_ms": gap_ms, "output_bytes": expected.len()});
    trickle_verdict(ctx, "trickle", &format!("trickle-bin:{}", g), &o, total_ok, info, last)
}

/// key of the case to re-run when `--replay FILE` is given (FILE as written by bin/check)
pub fn replay_key(ctx: &Ctx) -> Option<String> {
    let path = ctx.replay.clone()?;
    let text = std::fs::read_to_string(path).ok()?;
    let j: serde_json::Value = serde_json::from_str(&text).ok()?;
    j["case"]["key"].as_str().map(|s| s.to_string()).or_else(|| j["key"].as_str().map(|s| s.to_string()))
}

/// case indices of this shard; every case is a function of (seed, family, index) alone, so a
/// replay can re-create it whatever the sharding was
fn indices(ctx: &Ctx, total: usize, only: &Option<String>, fam: &str) -> Vec<usize> {
    match only {
        Some(k) => match k.strip_prefix(&format!("{}:", fam)) {
            Some(rest) => rest.split(':').next().and_then(|n| n.parse().ok()).into_iter().collect(),
            None => vec![],
        },
        None => (ctx.shard..total).step_by(ctx.nshards).collect(),
    }
}

fn case_rng(seed: u64, fam: u64, idx: usize) -> Rng {
    let mut r = Rng::new(seed.wrapping_mul(0x9E37_79B9).wrapping_add(fam.wrapping_mul(0x1_0000_0001)).wrapping_add(idx as u64 * 0x5851_F42D));
    r.fork()
}

/// rows far larger than any internal buffer (32 KiB … 300 KiB) between ordinary rows: every row
/// comes out exactly once, whole, in input order, in every output mode
fn check_huge_rows(ctx: &mut Ctx) {
    let n = ctx.budget(64, 1200);
    for _ in 0..n {
        let mut r = ctx.rng.fork();
        let nrows = 3 + r.below(6);
        let mut input: Vec<u8> = vec![];
        let mut sizes: Vec<usize> = vec![];
        for i in 0..nrows {
            let big = r.chance(40);
            let len = if big { *r.pick(&[31000usize, 33000, 40000, 41000, 65535, 65536, 65537, 70000, 131072, 300000]) } else { r.below(40) };
            sizes.push(len);
            let fill: String = std::iter::repeat(*r.pick(&["x", "ab", "é"])).take(len).collect::<String>();
            input.extend(format!("{{\"id\":{},\"pad\":\"{}\"}}\n", i, fill).into_bytes());
        }
        let mode = *r.pick(&["json", "logfmt", "legacy", "format={id} {pad}"]);
        let q = *r.pick(&["* | json", "* | json | where id >= 0", "* | json | length(pad) as l"]);
        let key = format!("huge-rows:{}:{}:{:?}", q, mode, sizes);
        let info = json!({"query": q, "mode": mode, "row_pad_lengths": sizes});
        let res = imp::run(q, &input, mode, 30);
        if !res.compiled || res.panicked.is_some() || res.hung {
            ctx.case("huge-rows", &key, "viol", json!({"class": "", "what": "run did not complete", "panic": res.panicked, "case": info}));
            continue;
        }
        // the ids in the order they appear in the output (each output row carries `id` exactly once)
        let text = String::from_utf8_lossy(&res.stdout).to_string();
        let ids: Vec<i64> = text
            .lines()
            .filter_map(|l| {
                let l = l.trim_start();
                let rest = if mode == "json" {
                    l.split("\"id\":").nth(1)
                } else if mode == "logfmt" {
                    l.split("id=").nth(1)
                } else if mode == "legacy" {
                    l.split("[id=").nth(1)
                } else {
                    Some(l)
                }?;
                rest.chars().take_while(|c| c.is_ascii_digit()).collect::<String>().parse().ok()
            })
            .collect();
        let want: Vec<i64> = (0..nrows as i64).collect();
        let lines_out = text.lines().count();
        if ids != want || lines_out != nrows {
            ctx.case("huge-rows", &key, "viol", json!({"class": "", "what": format!("rows lost, duplicated or reordered: ids in the output {:?} ({} lines, {} bytes), expected {:?}", ids, lines_out, res.stdout.len(), want), "case": info}));
        } else {
            ctx.case("huge-rows", &key, "pass", info);
        }
    }
}

/// empty and blank lines in the middle of the stream are lines like any other: nothing after them
/// is lost (an empty line is not the end of the input)
fn check_blank_lines(ctx: &mut Ctx) {
    let n = ctx.budget(64, 1200);
    for _ in 0..n {
        let mut r = ctx.rng.fork();
        let nrows = 2 + r.below(12);
        let mut input: Vec<u8> = vec![];
        let mut ids = vec![];
        for i in 0..nrows {
            match r.below(6) {
                0 => input.extend(b"\n"),
                1 => input.extend(*r.pick(&[&b" \n"[..], b"\t\n", b"\r\n", b"\n\n"])),
                _ => {
                    input.extend(format!("{{\"id\":{}}}\n", i).into_bytes());
                    ids.push(i as i64);
                }
            }
        }
        if r.chance(30) {
            // unterminated last line
            input.extend(format!("{{\"id\":{}}}", nrows).into_bytes());
            ids.push(nrows as i64);
        }
        let key = format!("blank-lines:{}", crate::enc::hexb(&input));
        let info = json!({"input": String::from_utf8_lossy(&input)});
        // (a) `*` reproduces every line, the empty ones included
        let raw = imp::run("*", &input, "legacy", 10);
        let want_lines: Vec<String> = String::from_utf8_lossy(&input).split('\n').map(|l| l.trim_end_matches('\r').to_string()).collect();
        let want_lines: Vec<String> = if input.ends_with(b"\n") { want_lines[..want_lines.len() - 1].to_vec() } else { want_lines };
        let got_lines: Vec<String> = String::from_utf8_lossy(&raw.stdout).split('\n').map(|l| l.to_string()).collect();
        let got_lines: Vec<String> = if raw.stdout.ends_with(b"\n") { got_lines[..got_lines.len() - 1].to_vec() } else { got_lines };
        let same_raw = got_lines.len() == want_lines.len() && got_lines.iter().zip(want_lines.iter()).all(|(g, w)| g.trim_end() == w.trim_end());
        // (b) `* | json`: every JSON line comes out, in order (the blank ones are reported, not fatal)
        let js = imp::run("* | json", &input, "json", 10);
        let got_ids: Vec<i64> = String::from_utf8_lossy(&js.stdout).lines().filter_map(|l| l.split("\"id\":").nth(1).and_then(|x| x.trim_end_matches('}').parse().ok())).collect();
        if !same_raw || got_ids != ids || raw.panicked.is_some() || js.panicked.is_some() {
            ctx.case("blank-lines", &key, "viol", json!({"class": "", "what": format!("lines lost around an empty line: `*` printed {} of {} lines; `* | json` printed ids {:?}, expected {:?}", got_lines.len(), want_lines.len(), got_ids, ids), "case": info}));
        } else {
            ctx.case("blank-lines", &key, "pass", info);
        }
    }
}

// ------------------------------------------------------------------------------------------------
// input given with --file/-f: FIFO, /dev/stdin, /dev/fd/0, /proc/self/fd/0, regular files
// ------------------------------------------------------------------------------------------------
//
// The property speaks about "the input"; `agrind -f PATH q` must behave like `agrind q < PATH`
// whatever PATH is.  Families:
//   * file-paced  : the chunked / paced feeds of the stream and slow-producer families, delivered to
//                   the real binary through `-f <fifo>` or `-f /dev/stdin` (… /dev/fd/0,
//                   /proc/self/fd/0) while the harness keeps the write end open: after every chunk
//                   that completes a line the rows of all complete lines must be on the stdout pipe
//                   within PATIENCE (no EOF has been given), never more rows than that, and after EOF
//                   the bytes must equal those of the same binary reading the same bytes on stdin.
//   * trickle-file: the trickle feed through the same transports.
//   * file-volume : whole inputs of generated sizes (0 bytes … > 8 MiB in the thorough tier) as a
//                   regular file and pushed through a FIFO / /dev/stdin at full speed: same bytes as
//                   the stdin run, and the number of rows the query must let through.

/// scratch directory under the system temp dir, removed when dropped
struct Scratch(std::path::PathBuf);

impl Scratch {
    fn new(tag: &str) -> Option<Scratch> {
        use std::sync::atomic::AtomicUsize;
        static N: AtomicUsize = AtomicUsize::new(0);
        let nonce = std::time::SystemTime::now().duration_since(std::time::UNIX_EPOCH).map(|d| d.subsec_nanos()).unwrap_or(0);
        let p = std::env::temp_dir().join(format!("agverif-c15-{}-{}-{}-{}", std::process::id(), tag, N.fetch_add(1, Ordering::SeqCst), nonce));
        std::fs::create_dir_all(&p).ok()?;
        Some(Scratch(p))
    }
}

impl Drop for Scratch {
    fn drop(&mut self) {
        let _ = std::fs::remove_dir_all(&self.0);
    }
}

#[derive(Clone, Copy, Debug, PartialEq)]
enum Via {
    Fifo,
    DevStdin,
    DevFd0,
    ProcFd0,
}

impl Via {
    fn name(self) -> &'static str {
        match self {
            Via::Fifo => "-f <fifo>",
            Via::DevStdin => "-f /dev/stdin",
            Via::DevFd0 => "-f /dev/fd/0",
            Via::ProcFd0 => "-f /proc/self/fd/0",
        }
    }
    fn path(self) -> Option<&'static str> {
        match self {
            Via::Fifo => None,
            Via::DevStdin => Some("/dev/stdin"),
            Via::DevFd0 => Some("/dev/fd/0"),
            Via::ProcFd0 => Some("/proc/self/fd/0"),
        }
    }
    /// FIFO and /dev/stdin every second case each, the two other spellings of "my stdin" now and then
    fn of(g: usize, r: &mut Rng) -> Via {
        match g % 4 {
            0 | 2 => Via::Fifo,
            1 => Via::DevStdin,
            _ => *r.pick(&[Via::DevStdin, Via::DevFd0, Via::ProcFd0]),
        }
    }
}

/// a running `agrind -f <transport> query -o mode` whose input is held open by the harness
struct Live {
    child: Arc<Mutex<std::process::Child>>,
    input: Option<Box<dyn Write + Send>>,
    out: Arc<Mutex<Vec<u8>>>,
    rows: Arc<std::sync::atomic::AtomicUsize>,
    out_thread: Option<std::thread::JoinHandle<()>>,
    err_thread: Option<std::thread::JoinHandle<String>>,
    done: Arc<AtomicBool>,
    spawned: Instant,
    _scratch: Option<Scratch>,
}

#[derive(Debug, Default)]
struct Fin {
    exited: bool,
    status: Option<i32>,
    signal: Option<i32>,
    stdout: Vec<u8>,
    stderr: String,
}

impl Live {
    /// spawn the child FIRST, then open the write end of the FIFO with a deadline (O_NONBLOCK open
    /// fails with ENXIO until the child has opened the read end); a watchdog kills the child after
    /// `hard` whatever happens, `Drop` kills it on every other path.
    fn spawn(bin: &str, query: &str, mode: &str, via: Via, hard: Duration) -> Result<Live, String> {
        use std::os::unix::ffi::OsStrExt;
        use std::os::unix::io::FromRawFd;
        let mut cmd = Command::new(bin);
        cmd.env("RUST_BACKTRACE", "0").env_remove("RUST_LOG").stdout(Stdio::piped()).stderr(Stdio::piped());
        let mut scratch = None;
        let mut fifo: Option<std::ffi::CString> = None;
        match via {
            Via::Fifo => {
                let s = Scratch::new("fifo").ok_or_else(|| "cannot create a scratch directory".to_string())?;
                let p = s.0.join("in.fifo");
                let cp = std::ffi::CString::new(p.as_os_str().as_bytes()).map_err(|e| e.to_string())?;
                if unsafe { libc::mkfifo(cp.as_ptr(), 0o600) } != 0 {
                    return Err(format!("mkfifo failed: {}", io::Error::last_os_error()));
                }
                cmd.arg("-f").arg(&p).stdin(Stdio::null());
                fifo = Some(cp);
                scratch = Some(s);
            }
            v => {
                cmd.arg("-f").arg(v.path().unwrap()).stdin(Stdio::piped());
            }
        }
        cmd.arg(query).arg("-o").arg(mode);
        let mut child = cmd.spawn().map_err(|e| format!("spawn failed: {}", e))?;
        let spawned = Instant::now();
        let mut so = child.stdout.take().unwrap();
        let mut se = child.stderr.take().unwrap();
        let stdin = child.stdin.take();
        let out = Arc::new(Mutex::new(Vec::new()));
        let rows = Arc::new(std::sync::atomic::AtomicUsize::new(0));
        let (out2, rows2) = (out.clone(), rows.clone());
        let out_thread = std::thread::spawn(move || {
            let mut buf = [0u8; 8192];
            loop {
                match so.read(&mut buf) {
                    Ok(0) | Err(_) => break,
                    Ok(k) => {
                        out2.lock().unwrap().extend_from_slice(&buf[..k]);
                        rows2.fetch_add(buf[..k].iter().filter(|b| **b == b'\n').count(), Ordering::SeqCst);
                    }
                }
            }
        });
        let err_thread = std::thread::spawn(move || {
            let mut v = Vec::new();
            let _ = se.read_to_end(&mut v);
            String::from_utf8_lossy(&v).into_owned()
        });
        let child = Arc::new(Mutex::new(child));
        let done = Arc::new(AtomicBool::new(false));
        {
            let (child, done) = (child.clone(), done.clone());
            std::thread::spawn(move || {
                let t0 = Instant::now();
                while !done.load(Ordering::SeqCst) {
                    if t0.elapsed() > hard {
                        let _ = child.lock().unwrap().kill();
                        break;
                    }
                    std::thread::sleep(Duration::from_millis(20));
                }
            });
        }
        let mut live = Live { child, input: None, out, rows, out_thread: Some(out_thread), err_thread: Some(err_thread), done, spawned, _scratch: scratch };
        match fifo {
            None => live.input = stdin.map(|s| Box::new(s) as Box<dyn Write + Send>),
            Some(cp) => {
                let t0 = Instant::now();
                let fd = loop {
                    let fd = unsafe { libc::open(cp.as_ptr(), libc::O_WRONLY | libc::O_NONBLOCK | libc::O_CLOEXEC) };
                    if fd >= 0 {
                        break fd;
                    }
                    let e = io::Error::last_os_error();
                    if e.raw_os_error() != Some(libc::ENXIO) && e.kind() != io::ErrorKind::Interrupted {
                        return Err(format!("cannot open the FIFO for writing: {}", e));
                    }
                    if let Ok(Some(st)) = live.child.lock().unwrap().try_wait() {
                        return Err(format!("the child exited ({:?}) before it opened the FIFO", st.code()));
                    }
                    if t0.elapsed() > Duration::from_secs(20) {
                        return Err("the child did not open the FIFO within 20 s".into());
                    }
                    std::thread::sleep(Duration::from_millis(1));
                };
                unsafe {
                    let fl = libc::fcntl(fd, libc::F_GETFL);
                    libc::fcntl(fd, libc::F_SETFL, fl & !libc::O_NONBLOCK);
                }
                live.input = Some(Box::new(unsafe { std::fs::File::from_raw_fd(fd) }));
            }
        }
        Ok(live)
    }

    fn write(&mut self, b: &[u8]) -> bool {
        match self.input.as_mut() {
            Some(w) => w.write_all(b).and_then(|_| w.flush()).is_ok(),
            None => false,
        }
    }
    fn rows(&self) -> usize {
        self.rows.load(Ordering::SeqCst)
    }
    fn bytes(&self) -> Vec<u8> {
        self.out.lock().unwrap().clone()
    }
    /// how long to wait for a row now: PATIENCE, but never less than 10 s after the spawn (the
    /// child may still be starting up on a loaded machine)
    fn patience(&self) -> Duration {
        PATIENCE.max((PATIENCE * 2).saturating_sub(self.spawned.elapsed()))
    }
    /// close the input (EOF), wait for the exit (kill after `limit`), collect the output
    fn finish(mut self, limit: Duration) -> Fin {
        use std::os::unix::process::ExitStatusExt;
        self.input = None;
        let mut fin = Fin::default();
        let t0 = Instant::now();
        loop {
            let st = self.child.lock().unwrap().try_wait();
            match st {
                Ok(Some(st)) => {
                    fin.exited = true;
                    fin.status = st.code();
                    fin.signal = st.signal();
                    break;
                }
                Ok(None) => {
                    if t0.elapsed() > limit {
                        let mut c = self.child.lock().unwrap();
                        let _ = c.kill();
                        let _ = c.wait();
                        break;
                    }
                    std::thread::sleep(Duration::from_millis(2));
                }
                Err(_) => break,
            }
        }
        self.done.store(true, Ordering::SeqCst);
        if let Some(t) = self.out_thread.take() {
            let _ = t.join();
        }
        if let Some(t) = self.err_thread.take() {
            fin.stderr = t.join().unwrap_or_default();
        }
        fin.stdout = self.bytes();
        fin
    }
}

impl Drop for Live {
    fn drop(&mut self) {
        self.input = None;
        self.done.store(true, Ordering::SeqCst);
        if let Ok(mut c) = self.child.lock() {
            if let Ok(None) = c.try_wait() {
                let _ = c.kill();
                let _ = c.wait();
            }
        }
    }
}

/// the same binary reading the same bytes on plain stdin
fn stdin_run(bin: &str, query: &str, mode: &str, input: &[u8]) -> ProcOut {
    let args: Vec<String> = vec![query.into(), "-o".into(), mode.into()];
    run_proc(bin, &args, Feed::Finite(input.to_vec()), None, 0, Duration::from_secs(120))
}

fn proc_ok(o: &ProcOut) -> bool {
    !o.timed_out && !o.crashed() && o.status == Some(0)
}

/// one more cut at byte offset `p`
fn with_cut(chunks: Vec<Vec<u8>>, p: usize) -> Vec<Vec<u8>> {
    let mut out = Vec::with_capacity(chunks.len() + 1);
    let mut off = 0;
    for c in chunks {
        let l = c.len();
        if p > off && p < off + l {
            out.push(c[..p - off].to_vec());
            out.push(c[p - off..].to_vec());
        } else {
            out.push(c);
        }
        off += l;
    }
    out
}

/// lock-step promptness + total output for one generated case, input through `-f <transport>`
fn check_file_paced(ctx: &mut Ctx, bin: &str, g: usize, cap: usize) {
    let fam = "file-paced";
    let key = format!("file-paced:{}:{}", g, cap);
    let mut r = case_rng(ctx.seed, 7, g);
    let via = Via::of(g, &mut r);
    let nlines = match r.below(10) {
        0 => 0,
        1 => 1,
        _ => 2 + r.below(cap),
    };
    let final_newline = r.chance(65);
    let c = match stream_case(&mut r, nlines, final_newline) {
        Some(c) => c,
        None => {
            ctx.case(fam, "", "skip", json!({"why": "case construction: per-line oracle not applicable"}));
            return;
        }
    };
    let all: Vec<u8> = c.lines.concat();
    let (mut chunks, style) = chunking(&mut r, &all);
    // the last newline-terminated line arrives in two pieces (the second one carries the newline)
    let term = if final_newline { c.lines.len() } else { c.lines.len().saturating_sub(1) };
    let mut split_at: Option<usize> = None;
    if term > 0 && r.chance(75) {
        let s: usize = c.lines[..term - 1].iter().map(|l| l.len()).sum();
        let l = c.lines[term - 1].len();
        if l >= 2 {
            split_at = Some(s + 1 + r.below(l - 1));
        }
    }
    let pace = *r.pick(&["none", "long-gaps", "short-gaps", "pause-inside-line"]);
    if pace == "long-gaps" && chunks.len() > 12 {
        chunks = c.lines.iter().filter(|l| !l.is_empty()).cloned().collect();
    }
    if let Some(p) = split_at {
        chunks = with_cut(chunks, p);
    }
    let mut gaps: Vec<u64> = vec![0; chunks.len()];
    let mut off = 0;
    for (i, ch) in chunks.iter().enumerate() {
        gaps[i] = match pace {
            "long-gaps" => 60 + r.below(90) as u64, // longer than the 50 ms poll
            "short-gaps" if chunks.len() <= 150 => 1 + r.below(10) as u64,
            "pause-inside-line" if Some(off) == split_at => 200 + r.below(500) as u64,
            _ => 0,
        };
        off += ch.len();
    }
    let info = |extra: serde_json::Value| {
        let mut j = json!({"query": c.query, "mode": c.mode, "input_via": via.name(), "lines": c.lines.len(), "final_newline": final_newline, "kind": c.kind,
            "chunking": style, "pace": pace, "chunks": chunks.len(), "last_line_split_at": split_at,
            "chunk_lens": chunks.iter().take(64).map(|c| c.len()).collect::<Vec<usize>>(),
            "input_hex": if all.len() <= 600 { hexb(&all) } else { format!("{}…", hexb(&all[..600])) }});
        if let Some(c) = extra.get("class") {
            j["class"] = c.clone();
        }
        if let Some(w) = extra.get("what") {
            j["what"] = w.clone();
        }
        j["detail"] = extra;
        j
    };
    // reference: the same bytes on stdin
    let refrun = stdin_run(bin, &c.query, &c.mode, &all);
    if !proc_ok(&refrun) {
        ctx.case(fam, "", "skip", info(json!({"why": "the reference run on stdin did not complete normally", "proc": refrun.summary()})));
        return;
    }
    if refrun.stdout != c.expected {
        ctx.case(fam, "", "skip", info(json!({"why": "binary on stdin and in-process run differ: the per-line row counts do not apply"})));
        return;
    }
    let mut live = match Live::spawn(bin, &c.query, &c.mode, via, Duration::from_secs(240)) {
        Ok(l) => l,
        Err(e) => {
            ctx.case(fam, "", "skip", info(json!({"why": "could not set up the transport", "err": e})));
            return;
        }
    };
    let mut released = 0usize;
    let mut complete_prev = 0usize;
    let mut failure: Option<serde_json::Value> = None;
    let mut worst = 0f64;
    for (ci, ch) in chunks.iter().enumerate() {
        if gaps[ci] > 0 {
            std::thread::sleep(Duration::from_millis(gaps[ci]));
        }
        if !live.write(ch) {
            if !c.kind.starts_with("head") {
                failure = Some(json!({"class": "C15/loss-dup-reorder", "what": "the child closed its --file input before EOF", "chunk": ci, "bytes_delivered": released}));
            }
            break; // after `limit N` is satisfied the child may go away
        }
        released += ch.len();
        let complete = all[..released].iter().filter(|b| **b == b'\n').count();
        if complete > complete_prev {
            complete_prev = complete;
            let want = c.rows_after[complete.min(c.lines.len())];
            let t = Instant::now();
            let limit = live.patience();
            let ok = wait_until(limit, || live.rows() >= want);
            worst = worst.max(t.elapsed().as_secs_f64());
            let got = live.bytes();
            let have = got.iter().filter(|b| **b == b'\n').count();
            if !ok {
                failure = Some(json!({"class": "C15/buffering-delay",
                    "what": format!("the rows of complete lines did not reach stdout within {} s although the line is complete; the writer keeps the --file input open (no EOF yet)", limit.as_secs()),
                    "complete_lines": complete, "rows_expected": want, "rows_written": have, "bytes_delivered": released}));
                break;
            }
            if have > want || !is_prefix(&got, &refrun.stdout) {
                failure = Some(json!({"class": "C15/stream-content", "what": "bytes written so far are not rows of the complete lines (a prefix of the stdin run's output)",
                    "complete_lines": complete, "rows_expected": want, "rows_written": have, "written_hex": hexb(&got[..got.len().min(300)])}));
                break;
            }
        }
    }
    let fin = live.finish(Duration::from_secs(20));
    if let Some(f) = failure {
        ctx.case(fam, &key, "viol", info(f));
    } else if !fin.exited {
        ctx.case(fam, &key, "viol", info(json!({"class": "C15/no-termination", "what": "the binary did not exit within 20 s after EOF on its --file input", "stderr": fin.stderr.chars().take(300).collect::<String>()})));
    } else if fin.stdout != refrun.stdout || fin.status != refrun.status || fin.signal.is_some() {
        ctx.case(fam, &key, "viol", info(json!({"class": "C15/loss-dup-reorder", "what": "`agrind -f X q` and `agrind q < X` differ for the same bytes",
            "status": fin.status, "signal": fin.signal, "stderr": fin.stderr.chars().take(300).collect::<String>(),
            "stdin_hex": hexb(&refrun.stdout[..refrun.stdout.len().min(400)]), "file_hex": hexb(&fin.stdout[..fin.stdout.len().min(400)]),
            "stdin_len": refrun.stdout.len(), "file_len": fin.stdout.len()})));
    } else {
        ctx.case(fam, &key, "pass", info(json!({"rows": c.rows_after.last(), "worst_wait_s": worst})));
    }
}

fn check_trickle_file(ctx: &mut Ctx, bin: &str, g: usize) {
    for attempt in 0..3 {
        if trickle_file_once(ctx, bin, g, attempt == 2) {
            break;
        }
    }
}

/// the trickle feed (gaps far below the poll timeout, nobody waits for output) through `-f <transport>`
fn trickle_file_once(ctx: &mut Ctx, bin: &str, g: usize, last: bool) -> bool {
    let mut r = case_rng(ctx.seed, 8, g);
    let via = if g % 2 == 0 { Via::Fifo } else { *r.pick(&[Via::DevStdin, Via::DevStdin, Via::DevFd0, Via::ProcFd0]) };
    let (n, gap_ms, q, mode, from) = trickle_params(&mut r);
    let lines: Vec<Vec<u8>> = (0..n).map(|i| format!("{{\"i\":{}}}\n", i).into_bytes()).collect();
    let all: Vec<u8> = lines.concat();
    let info = json!({"where": "binary", "input_via": via.name(), "query": q, "mode": mode, "lines": n, "gap_ms": gap_ms});
    let refrun = stdin_run(bin, q, mode, &all);
    if !proc_ok(&refrun) {
        ctx.case("trickle-file", "", "skip", json!({"why": "the reference run on stdin did not complete normally", "case": info}));
        return true;
    }
    let mut live = match Live::spawn(bin, q, mode, via, Duration::from_secs(120)) {
        Ok(l) => l,
        Err(e) => {
            ctx.case("trickle-file", "", "skip", json!({"why": "could not set up the transport", "err": e, "case": info}));
            return true;
        }
    };
    let rows = live.rows.clone();
    let o = trickle(&mut |i| live.write(&lines[i]), &|| rows.load(Ordering::SeqCst), &|k| trickle_rows_after(from, k), n, gap_ms);
    let fin = live.finish(Duration::from_secs(10));
    let total_ok = if fin.exited { Some(fin.stdout == refrun.stdout && fin.status == Some(0)) } else { None };
    trickle_verdict(ctx, "trickle-file", &format!("trickle-file:{}", g), &o, total_ok, info, last)
}

/// whole inputs of generated sizes: regular file (and FIFO / /dev/stdin at full speed) against stdin
fn check_file_volume(ctx: &mut Ctx, bin: &str, g: usize) {
    let fam = "file-volume";
    let key = format!("file-volume:{}", g);
    let mut r = case_rng(ctx.seed, 9, g);
    // size classes; the > 8 MiB one only in the thorough tier (and in replays of such a case)
    let class = match g % 8 {
        0 => "empty",
        1 => "one-line",
        2 | 5 => "over-64KiB",
        3 => "few-lines",
        4 => "over-pipe-capacity",
        6 => "huge-lines",
        _ if ctx.thorough() && g % 32 == 7 => "over-8MiB",
        _ => *r.pick(&["one-line", "few-lines", "over-64KiB"]),
    };
    let target: usize = match class {
        "over-64KiB" => 65537 + r.below(400_000),
        "over-pipe-capacity" => (1 << 20) + r.below(2 << 20),
        "over-8MiB" => (8 << 20) + 1 + r.below(1 << 20),
        _ => 0,
    };
    let fixed_lines = match class {
        "empty" => 0,
        "one-line" => 1,
        "few-lines" => 2 + r.below(60),
        "huge-lines" => 3 + r.below(8),
        _ => usize::MAX,
    };
    let mut input: Vec<u8> = Vec::with_capacity(target + 1024);
    let mut n = 0usize;
    while (fixed_lines != usize::MAX && n < fixed_lines) || (fixed_lines == usize::MAX && input.len() < target) {
        let pad = if class == "huge-lines" && r.chance(40) { 66_000 + r.below(200_000) } else if r.chance(10) { r.below(600) } else { r.below(60) };
        let fill = *r.pick(&["x", "ab", "é"]);
        let w = serde_json::to_string(r.pick(WORDS)).unwrap();
        input.extend(format!("{{\"i\":{},\"s\":{},\"pad\":\"{}\"}}\n", n, w, fill.repeat(pad)).into_bytes());
        n += 1;
    }
    let final_newline = r.chance(50);
    if !final_newline && n > 0 {
        input.pop();
    }
    // query and the number of rows it must let through (reference computation)
    let (q, want_rows) = *r.pick(&[("* | json", n), ("* | json | where i >= 10", n.saturating_sub(10)), ("* | json | fields i, s", n), ("* | json | where i < 5", n.min(5)), ("*", n)]);
    let mode = if q == "*" { *r.pick(&["json", "logfmt", "legacy"]) } else { *r.pick(&["json", "logfmt", "legacy", "format={i}:{s}"]) };
    let mode = if class == "over-8MiB" && mode == "legacy" { "logfmt" } else { mode };
    let info = json!({"class_of_size": class, "bytes": input.len(), "lines": n, "final_newline": final_newline, "query": q, "mode": mode});
    let refrun = stdin_run(bin, q, mode, &input);
    let nl = |b: &[u8]| b.iter().filter(|c| **c == b'\n').count();
    if !proc_ok(&refrun) || nl(&refrun.stdout) != want_rows {
        ctx.case(fam, &key, "viol", json!({"class": "C15/loss-dup-reorder", "what": format!("stdin run: {} rows expected, {} written (or it crashed / hung)", want_rows, nl(&refrun.stdout)), "case": info, "proc": refrun.summary()}));
        return;
    }
    // (1) regular file
    let scratch = match Scratch::new("file") {
        Some(s) => s,
        None => {
            ctx.case(fam, "", "skip", json!({"why": "cannot create a scratch directory"}));
            return;
        }
    };
    let path = scratch.0.join("input.log");
    if std::fs::write(&path, &input).is_err() {
        ctx.case(fam, "", "skip", json!({"why": "cannot write the scratch file"}));
        return;
    }
    let args: Vec<String> = vec!["-f".into(), path.to_string_lossy().into_owned(), q.into(), "-o".into(), mode.into()];
    let reg = run_proc(bin, &args, Feed::Finite(vec![]), None, 0, Duration::from_secs(120));
    if !proc_ok(&reg) || reg.stdout != refrun.stdout {
        ctx.case(fam, &key, "viol", json!({"class": "C15/loss-dup-reorder", "what": "`agrind -f <regular file> q` and `agrind q < file` differ",
            "first_difference_at": first_diff(&reg.stdout, &refrun.stdout), "stdin_len": refrun.stdout.len(), "file_len": reg.stdout.len(), "case": info, "proc": reg.summary()}));
        return;
    }
    drop(scratch);
    // (2) the same bytes at full speed through a FIFO / /dev/stdin
    let via = *r.pick(&[Via::Fifo, Via::Fifo, Via::Fifo, Via::DevStdin, Via::DevStdin, Via::DevFd0, Via::ProcFd0]);
    let mut live = match Live::spawn(bin, q, mode, via, Duration::from_secs(240)) {
        Ok(l) => l,
        Err(e) => {
            ctx.case(fam, "", "skip", json!({"why": "could not set up the transport", "err": e, "case": info}));
            return;
        }
    };
    let mut pos = 0;
    let mut delivered = true;
    while pos < input.len() {
        let l = (1 + r.below(70000)).min(input.len() - pos);
        if !live.write(&input[pos..pos + l]) {
            delivered = false;
            break;
        }
        pos += l;
    }
    let fin = live.finish(Duration::from_secs(120));
    if !delivered || !fin.exited || fin.status != Some(0) || fin.stdout != refrun.stdout {
        ctx.case(fam, &key, "viol", json!({"class": if fin.exited { "C15/loss-dup-reorder" } else { "C15/no-termination" },
            "what": format!("`agrind {} q` and `agrind q < X` differ for the same bytes (or the input could not be delivered / the run did not end)", via.name()),
            "delivered": delivered, "exited": fin.exited, "status": fin.status, "first_difference_at": first_diff(&fin.stdout, &refrun.stdout),
            "stdin_len": refrun.stdout.len(), "file_len": fin.stdout.len(), "stderr": fin.stderr.chars().take(300).collect::<String>(), "case": info}));
        return;
    }
    ctx.case(fam, &key, "pass", json!({"case": info, "input_via": ["regular file", via.name()], "rows": want_rows, "output_bytes": refrun.stdout.len()}));
}

pub fn check(ctx: &mut Ctx) {
    check_huge_rows(ctx);
    check_blank_lines(ctx);
    let thorough = ctx.thorough();
    let only = replay_key(ctx);
    // 1. promptness / chunking / model conformance
    let total = if thorough { 6000 } else { 960 };
    for g in indices(ctx, total, &only, "stream") {
        // the line cap is part of the key so that a replay re-creates the same case in any tier
        let cap = match &only {
            Some(k) => k.split(':').nth(2).and_then(|c| c.parse().ok()).unwrap_or(14),
            None => if thorough { 40 } else { 14 },
        };
        let mut r = case_rng(ctx.seed, 1, g);
        let nlines = match r.below(10) {
            0 => 0,
            1 => 1,
            _ => 2 + r.below(cap),
        };
        let final_newline = r.chance(65);
        let c = match stream_case(&mut r, nlines, final_newline) {
            Some(c) => c,
            None => {
                ctx.case("stream", "", "skip", json!({"why": "case construction: per-line oracle not applicable"}));
                continue;
            }
        };
        let all: Vec<u8> = c.lines.concat();
        let (chunks, style) = chunking(&mut r, &all);
        let key = format!("stream:{}:{}", g, cap);
        check_stream(ctx, "stream", &key, &c, &chunks, style, &[]);
    }
    // 2. slow producer: idle gaps longer than the 50 ms receive timeout between chunks
    let total = if thorough { 96 } else { 32 };
    for g in indices(ctx, total, &only, "slow") {
        let mut r = case_rng(ctx.seed, 2, g);
        let nl = 4 + r.below(3);
        if let Some(c) = stream_case(&mut r, nl, g % 2 == 0) {
            let all: Vec<u8> = c.lines.concat();
            let (chunks, style) = chunking(&mut r, &all);
            let chunks: Vec<Vec<u8>> = if chunks.len() > 12 { c.lines.clone() } else { chunks };
            let gaps: Vec<u64> = chunks.iter().map(|_| 60 + r.below(90) as u64).collect();
            let key = format!("slow:{}", g);
            check_stream(ctx, "slow-producer", &key, &c, &chunks, style, &gaps);
        }
    }
    // 3. aggregates
    let total = if thorough { 800 } else { 96 };
    for g in indices(ctx, total, &only, "agg") {
        let mut r = case_rng(ctx.seed, 3, g);
        check_agg(ctx, &mut r, g);
    }
    // 3b. trickle: a few cases, each on its own shard (they take about 2 s of real time each)
    let (n_in, n_bin) = if thorough { (24, 6) } else { (6, 2) };
    let tr_in: Vec<usize> = match &only {
        Some(k) => k.strip_prefix("trickle:").and_then(|n| n.parse().ok()).into_iter().collect(),
        None => (0..n_in).filter(|g| g % ctx.nshards == ctx.shard).collect(),
    };
    for g in tr_in {
        check_trickle_inproc(ctx, g);
    }
    let tr_bin: Vec<usize> = match &only {
        Some(k) => k.strip_prefix("trickle-bin:").and_then(|n| n.parse().ok()).into_iter().collect(),
        None => (0..n_bin).filter(|g| (g + 8) % ctx.nshards == ctx.shard).collect(),
    };
    let mut bin: Option<Result<String, String>> = None;
    for g in tr_bin {
        if bin.is_none() {
            bin = Some(ensure_binary());
        }
        match bin.as_ref().unwrap() {
            Err(e) => ctx.case("trickle", "", "skip", json!({"why": "binary not available", "err": e})),
            Ok(b) => {
                let b = b.clone();
                check_trickle_binary(ctx, &b, g)
            }
        }
    }
    // 3c. input through --file: FIFO / /dev/stdin held open by the harness, regular files
    let need_bin = |bin: &mut Option<Result<String, String>>| -> Result<String, String> {
        if bin.is_none() {
            *bin = Some(ensure_binary());
        }
        bin.as_ref().unwrap().clone()
    };
    let total = if thorough { 480 } else { 64 };
    for g in indices(ctx, total, &only, "file-paced") {
        let cap = match &only {
            Some(k) => k.split(':').nth(2).and_then(|c| c.parse().ok()).unwrap_or(14),
            None => if thorough { 40 } else { 14 },
        };
        match need_bin(&mut bin) {
            Err(e) => ctx.case("file-paced", "", "skip", json!({"why": "binary not available", "err": e})),
            Ok(b) => check_file_paced(ctx, &b, g, cap),
        }
    }
    let total = if thorough { 128 } else { 32 };
    for g in indices(ctx, total, &only, "file-volume") {
        match need_bin(&mut bin) {
            Err(e) => ctx.case("file-volume", "", "skip", json!({"why": "binary not available", "err": e})),
            Ok(b) => check_file_volume(ctx, &b, g),
        }
    }
    let n_tf = if thorough { 6 } else { 2 };
    let tr_file: Vec<usize> = match &only {
        Some(k) => k.strip_prefix("trickle-file:").and_then(|n| n.parse().ok()).into_iter().collect(),
        None => (0..n_tf).filter(|g| (g + 6) % ctx.nshards == ctx.shard).collect(),
    };
    for g in tr_file {
        match need_bin(&mut bin) {
            Err(e) => ctx.case("trickle-file", "", "skip", json!({"why": "binary not available", "err": e})),
            Ok(b) => check_trickle_file(ctx, &b, g),
        }
    }
    // 4. volume, stalled consumer, binary: one job per shard
    let mut jobs: Vec<(&str, usize, bool, u64)> = vec![
        ("vol", 0, true, 0),
        ("vol", 1, false, 0),
        ("vol", 999, true, 0),
        ("vol", 1000, false, 0),
        ("vol", 1001, true, 0),
        ("vol", 2500, false, 0),
        ("vol", 20000, true, 0),
        ("stall", 3000, true, 0),
        ("stall", 1500, true, 0),
        ("stall", 900, true, 0),
        ("bin-paced", 6, false, 120),
        ("bin-vol", 0, true, 0),
        ("bin-vol", 1, false, 0),
        ("bin-vol", 20000, true, 0),
        ("bin-vol", 5000, false, 700),
        ("bin-vol", 1001, true, 0),
    ];
    if thorough || only.is_some() {
        jobs.extend_from_slice(&[
            ("vol", 200000, true, 0),
            ("vol", 200000, false, 0),
            ("vol", 65536, true, 0),
            ("stall", 20000, true, 0),
            ("bin-vol", 200000, true, 0),
            ("bin-vol", 200000, false, 1500),
            ("bin-paced", 12, false, 70),
            ("bin-paced", 4, false, 400),
        ]);
    }
    for (j, (kind, n, nl, extra)) in jobs.iter().enumerate() {
        let jkey = match *kind {
            "vol" => format!("volume:{}:{}", n, nl),
            "stall" => format!("stalled:{}", n),
            "bin-paced" => format!("paced:{}ms:{}", extra, n),
            _ => format!("volume:{}:{}:{}", n, nl, extra),
        };
        match &only {
            Some(k) => {
                if *k != jkey {
                    continue;
                }
            }
            None => {
                if j % ctx.nshards != ctx.shard {
                    continue;
                }
            }
        }
        let mut r = case_rng(ctx.seed, 4, j);
        match *kind {
            "vol" => check_volume(ctx, *n, *nl, &mut r),
            "stall" => check_stalled(ctx, *n),
            _ => {
                if bin.is_none() {
                    bin = Some(ensure_binary());
                }
                match bin.as_ref().unwrap() {
                    Err(e) => ctx.case("binary", "", "skip", json!({"why": "binary not available", "err": e})),
                    Ok(b) => {
                        let b = b.clone();
                        if *kind == "bin-paced" {
                            check_proc_paced(ctx, &b, *extra, *n)
                        } else {
                            check_proc_volume(ctx, &b, *n, *nl, *extra)
                        }
                    }
                }
            }
        }
    }
}
