//! C18: machine-readable output modes are well-formed and faithful.
//!
//! The real printers are driven in-process through the hook `ag::verif::renderer` (output not a tty),
//! one row at a time, with rows built directly from `ag::data::Value`s (all nine variants, nested,
//! NaN/±inf, dates, durations, keys that need JSON escaping), and end to end through `Pipeline`.
//! F-level: bytes against the Lean model (`PRINT`, `FMT`, `RENDER`, `RUNMODE`, `CLI`): JSON compared as
//! value tokens (floats as bits, nested object keys canonicalised), logfmt / format text exactly.
//! P-level (real output only): every JSON line re-parses strictly; a record's key set is the row's
//! field set, in key order; an aggregate is one array whose elements carry exactly the columns in
//! column order (missing ↦ null); non-finite numbers are null; logfmt pairs are key-sorted and joined
//! by one blank; format output is the literal text with each `{field}` replaced by the field's display
//! text or `None`; bad `-o` / format arguments are rejected before any input is read.
use super::c06;
use super::common::*;
use crate::canon::{self, J};
use crate::enc;
use crate::imp;
use crate::rng::Rng;
use crate::Ctx;
use ag::data::{Aggregate, DisplayConfig, Record, Row, Value};
use ag::pipeline::OutputMode;
use std::collections::HashMap;
use std::panic::{catch_unwind, AssertUnwindSafe};

/* ------------------------------------------------------------------ values */

const FIELD_KEYS: &[&str] = &["a", "b", "k", "n", "msg", "_count", "x y", "é", "q\"k", "tab\t", "a=b", "{b}", "日本", "Z", "", "p50", "back\\slash", "nl\nx"];
const SIMPLE_KEYS: &[&str] = &["a", "b", "k", "n", "msg", "_count", "é", "Z", "p50", "user.id"];

fn gen_float(r: &mut Rng) -> f64 {
    let pool = [
        0.0,
        -0.0,
        1.0,
        1.5,
        0.005,
        0.015,
        0.025,
        2.675,
        1.005,
        -0.004,
        -0.005,
        99.995,
        123456.789,
        0.125,
        1e15 + 0.3,
        1e21,
        1e300,
        -1e-300,
        f64::NAN,
        f64::INFINITY,
        f64::NEG_INFINITY,
        f64::MAX,
        f64::MIN_POSITIVE,
        5e-324,
        0.1,
        0.30000000000000004,
        9007199254740993.0,
    ];
    match r.below(4) {
        0 => f64::from_bits(r.next()),
        1 => (r.range(-100000, 100000) as f64) / 1000.0,
        _ => *r.pick(&pool),
    }
}

fn gen_date(r: &mut Rng) -> chrono::DateTime<chrono::Utc> {
    use chrono::TimeZone;
    loop {
        let secs = match r.below(6) {
            0 => 0,
            1 => r.range(-62135596800, 253402300799), // years 1..9999
            2 => r.range(0, 2000000000),
            3 => r.range(-2000000000, 0),
            4 => *r.pick(&[951782400i64, 1582934400, 1709251199, -1, 1, 253402300799, -62135596800, 253402300800, -62167219200, -62167219201, 4102444800]),
            _ => r.range(-100000000000, 400000000000),
        };
        let nanos = match r.below(5) {
            0 => 0,
            1 => (r.below(1000) as u32) * 1_000_000,
            2 => (r.below(1000000) as u32) * 1000,
            _ => r.below(1_000_000_000) as u32,
        };
        if let Some(dt) = chrono::Utc.timestamp_opt(secs, nanos).single() {
            return dt;
        }
    }
}

fn gen_duration(r: &mut Rng) -> chrono::Duration {
    let ns = match r.below(8) {
        0 => 0,
        1 => r.range(-1000, 1000),
        2 => r.range(-10_000_000_000, 10_000_000_000),
        3 => *r.pick(&[1_000_000_000i64, 60_000_000_000, 3_600_000_000_000, 86_400_000_000_000, 604_800_000_000_000, 694_861_001_001_000, -694_861_001_001_000, 1_500_000_000, 999, 1000, 999_999, 1_000_000]),
        4 => r.next() as i64,
        5 => (r.next() >> r.below(40)) as i64,
        _ => r.range(0, 1_000_000) * 1_000_000,
    };
    let d = chrono::Duration::nanoseconds(ns);
    if r.chance(10) {
        // beyond i64 nanoseconds
        d + chrono::Duration::weeks(r.range(-20000, 20000))
    } else {
        d
    }
}

fn gen_str(r: &mut Rng) -> String {
    if r.chance(30) {
        (*r.pick(&["None", "{x}", "a=b c=d", "[1, 2]", "{k:v}", "true", "1.50", " lead", "trail ", "multi\nline"])).to_string()
    } else {
        c06::gen_string(r)
    }
}

pub fn gen_value(r: &mut Rng, depth: usize) -> Value {
    let top = if depth == 0 { 9 } else { 12 };
    match r.below(top) {
        0 => Value::None,
        1 => Value::Bool(r.chance(50)),
        2 => Value::Int(match r.below(4) {
            0 => *r.pick(&[0i64, 1, -1, i64::MAX, i64::MIN, 9007199254740993, -2147483649]),
            1 => r.next() as i64,
            _ => r.range(-1000, 1000),
        }),
        3 | 4 => Value::Float(ordered_float::OrderedFloat(gen_float(r))),
        5 | 6 => Value::Str(gen_str(r)),
        7 => Value::DateTime(gen_date(r)),
        8 => Value::Duration(gen_duration(r)),
        9 | 10 => {
            let n = r.below(4);
            Value::Array((0..n).map(|_| gen_value(r, depth - 1)).collect())
        }
        _ => {
            let n = r.below(4);
            let m: im::HashMap<String, Value> = (0..n).map(|_| (r.pick(FIELD_KEYS).to_string(), gen_value(r, depth - 1))).collect();
            Value::Obj(m)
        }
    }
}

fn gen_fields(r: &mut Rng, keys: &[&str], depth: usize) -> HashMap<String, Value> {
    let n = r.below(6);
    (0..n).map(|_| (r.pick(keys).to_string(), gen_value(r, depth))).collect()
}

/* ------------------------------------------------------------------ driving the real printers */

fn mode_name(m: &OutputMode) -> (&'static str, String) {
    match m {
        OutputMode::Json => ("json", "-".into()),
        OutputMode::Logfmt => ("logfmt", "-".into()),
        OutputMode::Format(f) => ("format", enc::hex(f)),
        OutputMode::Legacy => ("legacy", "-".into()),
    }
}

/// Ok(Ok(bytes)) printed; Ok(Err(msg)) the printer could not be constructed; Err(panic)
fn print_rows(mode: &OutputMode, rows: &[Row]) -> Result<Result<Vec<u8>, String>, String> {
    let sink = imp::SharedBuf::default();
    let out = sink.clone();
    let r = catch_unwind(AssertUnwindSafe(|| -> Result<(), String> {
        let mut rend = ag::verif::renderer(out, mode, None, false, None).map_err(|e| format!("{}", e))?;
        for (i, row) in rows.iter().enumerate() {
            rend.render(row, i + 1 == rows.len()).map_err(|e| format!("render: {}", e))?;
        }
        Ok(())
    }));
    match r {
        Err(_) => Err(imp::LAST_PANIC.lock().map(|g| g.clone()).unwrap_or_default()),
        Ok(Err(e)) => Ok(Err(e)),
        Ok(Ok(())) => {
            let b = sink.0.lock().unwrap().clone();
            Ok(Ok(b))
        }
    }
}

fn fields_tokens(f: &HashMap<String, Value>) -> String {
    let m: im::HashMap<String, Value> = f.iter().map(|(k, v)| (k.clone(), v.clone())).collect();
    let mut t = vec![];
    enc::value(&Value::Obj(m), &mut t);
    t.join(" ")
}

fn call_tokens(row: &Row) -> String {
    match row {
        Row::Record(rec) => format!("REC {}", fields_tokens(&rec.data)),
        Row::Aggregate(a) => {
            let mut t = vec!["AGG".to_string(), format!("{}", a.columns.len())];
            for c in &a.columns {
                t.push(format!("S{}", enc::hex(c)));
            }
            t.push(format!("{}", a.data.len()));
            for r in &a.data {
                t.push(fields_tokens(r));
            }
            t.join(" ")
        }
    }
}

/// tokens of a parsed JSON text in exactly the emitted member order, at every level
fn exact_tokens(j: &J, out: &mut Vec<String>) {
    match j {
        J::Arr(v) => {
            out.push(format!("A{}", v.len()));
            for x in v {
                exact_tokens(x, out)
            }
        }
        J::Obj(kvs) => {
            out.push(format!("O{}", kvs.len()));
            for (k, x) in kvs {
                out.push(format!("S{}", enc::hex(k)));
                exact_tokens(x, out)
            }
        }
        other => canon::tokens(other, false, out),
    }
}

/// tokens of one emitted JSON text (nested objects in the emitted order too: the code writes them
/// key-sorted since the repair of C18/nested-key-order-nondeterministic)
fn json_tokens(text: &str, table: bool) -> Result<String, String> {
    let j = canon::parse(text)?;
    if table && !matches!(j, J::Arr(_)) {
        return Err("aggregate output is not an array".into());
    }
    let mut toks = vec![];
    exact_tokens(&j, &mut toks);
    Ok(toks.join(" "))
}

/* ------------------------------------------------------------------ P-level oracles */

/// what `-o json` must show for a value ("encoded without loss", non-finite ↦ null)
fn want_json(v: &Value) -> J {
    match v {
        Value::None => J::Null,
        Value::Bool(b) => J::Bool(*b),
        Value::Int(i) => J::Int(*i),
        Value::Float(f) => {
            if f.0.is_finite() {
                J::Float(f.0)
            } else {
                J::Null
            }
        }
        Value::Str(s) => J::Str(s.clone()),
        Value::DateTime(d) => J::Str(d.to_rfc3339()),
        Value::Duration(d) => J::Str(d.to_string()),
        Value::Array(v) => J::Arr(v.iter().map(want_json).collect()),
        Value::Obj(m) => {
            let mut kvs: Vec<(String, J)> = m.iter().map(|(k, v)| (k.clone(), want_json(v))).collect();
            kvs.sort_by(|a, b| a.0.cmp(&b.0));
            J::Obj(kvs)
        }
    }
}

fn j_same(a: &J, b: &J) -> bool {
    match (a, b) {
        (J::Float(x), J::Float(y)) => enc::norm_bits(*x) == enc::norm_bits(*y),
        // an integral finite double is written by serde_json as `2.0`, never as `2`
        (J::Arr(x), J::Arr(y)) => x.len() == y.len() && x.iter().zip(y).all(|(p, q)| j_same(p, q)),
        (J::Obj(x), J::Obj(y)) => x.len() == y.len() && x.iter().zip(y).all(|(p, q)| p.0 == q.0 && j_same(&p.1, &q.1)),
        _ => a == b,
    }
}

fn strict_json(line: &str) -> Result<(), String> {
    serde_json::from_str::<serde_json::Value>(line).map(|_| ()).map_err(|e| format!("not valid JSON: {}", e))
}

fn p_json_record(bytes: &[u8], data: &HashMap<String, Value>) -> Result<(), (String, String)> {
    let text = String::from_utf8(bytes.to_vec()).map_err(|_| ("C18/json-not-utf8".to_string(), "output is not UTF-8".to_string()))?;
    if !text.ends_with('\n') || text[..text.len() - 1].contains('\n') {
        return Err(("C18/json-line-shape".into(), format!("a record must be exactly one line: {:?}", clip(&text))));
    }
    let line = &text[..text.len() - 1];
    strict_json(line).map_err(|e| ("C18/json-invalid".to_string(), e))?;
    let j = canon::parse(line).map_err(|e| ("C18/json-invalid".to_string(), e))?;
    let kvs = match &j {
        J::Obj(kvs) => kvs,
        _ => return Err(("C18/json-record-not-object".into(), "a record must be one JSON object".into())),
    };
    let mut want: Vec<(&String, &Value)> = data.iter().collect();
    want.sort_by(|a, b| a.0.cmp(b.0));
    let got_keys: Vec<&String> = kvs.iter().map(|kv| &kv.0).collect();
    let want_keys: Vec<&String> = want.iter().map(|kv| kv.0).collect();
    if got_keys != want_keys {
        return Err(("C18/json-record-keys".into(), format!("the row has fields {:?}, the object has {:?}", want_keys, got_keys)));
    }
    for ((k, v), (_, g)) in want.iter().zip(kvs.iter()) {
        if !j_same(&want_json(v), &canon::normalize(g)) {
            return Err(("C18/json-value".into(), format!("field {:?}: {:?} is shown as {:?}", k, v, g)));
        }
    }
    Ok(())
}

fn p_json_table(bytes: &[u8], a: &Aggregate) -> Result<(), (String, String)> {
    let text = String::from_utf8(bytes.to_vec()).map_err(|_| ("C18/json-not-utf8".to_string(), "output is not UTF-8".to_string()))?;
    if !text.ends_with('\n') || text[..text.len() - 1].contains('\n') {
        return Err(("C18/json-line-shape".into(), format!("an aggregate must be exactly one line: {:?}", clip(&text))));
    }
    let line = &text[..text.len() - 1];
    strict_json(line).map_err(|e| ("C18/json-invalid".to_string(), e))?;
    let j = canon::parse(line).map_err(|e| ("C18/json-invalid".to_string(), e))?;
    let rows = match &j {
        J::Arr(rows) => rows,
        _ => return Err(("C18/json-aggregate-not-array".into(), "an aggregate must be one JSON array".into())),
    };
    if rows.len() != a.data.len() {
        return Err(("C18/json-aggregate-rows".into(), format!("{} rows, {} elements", a.data.len(), rows.len())));
    }
    let mut seen = std::collections::HashSet::new();
    let dup = a.columns.iter().any(|c| !seen.insert(c.clone()));
    for (row, el) in a.data.iter().zip(rows.iter()) {
        let kvs = match el {
            J::Obj(kvs) => kvs,
            _ => return Err(("C18/json-aggregate-row-not-object".into(), "every element must be an object".into())),
        };
        let got: Vec<&String> = kvs.iter().map(|kv| &kv.0).collect();
        let want: Vec<&String> = a.columns.iter().collect();
        if got != want {
            return Err(("C18/json-aggregate-columns".into(), format!("columns {:?}, element keys {:?}", want, got)));
        }
        if dup {
            return Err(("C18/duplicate-column-names".into(), format!("columns {:?} contain a name twice: the element is an object with duplicate keys {:?}", want, got)));
        }
        for (c, (_, g)) in a.columns.iter().zip(kvs.iter()) {
            let v = row.get(c).cloned().unwrap_or(Value::None);
            if !j_same(&want_json(&v), &canon::normalize(g)) {
                return Err(("C18/json-value".into(), format!("column {:?}: {:?} is shown as {:?}", c, v, g)));
            }
        }
    }
    Ok(())
}

fn disp(v: &Value) -> String {
    v.render(&DisplayConfig { floating_points: 2 })
}

fn p_logfmt_line(line: &str, pairs: &[(String, Value)]) -> Result<(), (String, String)> {
    let mut sorted: Vec<&(String, Value)> = pairs.iter().collect();
    sorted.sort_by(|a, b| a.0.cmp(&b.0));
    let want = sorted.iter().map(|(k, v)| format!("{}={}", k, disp(v))).collect::<Vec<_>>().join(" ");
    if line == want {
        Ok(())
    } else {
        Err(("C18/logfmt-line".into(), format!("want {:?}, got {:?}", clip(&want), clip(line))))
    }
}

/* ------------------------------------------------------------------ format strings */

#[derive(Clone, Debug)]
enum Piece {
    Lit(String),
    Field(String),
    Open,
    Close,
}

fn gen_pieces(r: &mut Rng, keys: &[&str]) -> Vec<Piece> {
    // field names that can be written as `{name}` at all
    let keys: Vec<&str> = keys.iter().cloned().filter(|k| !k.is_empty() && !k.contains('{') && !k.contains('}') && !k.contains(':')).collect();
    let keys = &keys[..];
    let n = r.below(7);
    (0..n)
        .map(|_| match r.below(10) {
            0 => Piece::Open,
            1 => Piece::Close,
            2 | 3 | 4 => Piece::Lit((*r.pick(&[" ", " => ", "=", "[", "]", "é", "日本", ": ", "\t", "x", "$", "%s", "\\n", "None", ":"])).to_string()),
            5 => Piece::Field((*r.pick(&["missing", "zz", "A"])).to_string()),
            _ => Piece::Field(r.pick(keys).to_string()),
        })
        .collect()
}

fn pieces_text(p: &[Piece]) -> String {
    let mut s = String::new();
    for x in p {
        match x {
            Piece::Lit(t) => s.push_str(t),
            Piece::Field(k) => s.push_str(&format!("{{{}}}", k)),
            Piece::Open => s.push_str("{{"),
            Piece::Close => s.push_str("}}"),
        }
    }
    s
}

fn pieces_expected(p: &[Piece], lookup: &dyn Fn(&str) -> Value) -> String {
    let mut s = String::new();
    for x in p {
        match x {
            Piece::Lit(t) => s.push_str(t),
            Piece::Field(k) => s.push_str(&disp(&lookup(k))),
            Piece::Open => s.push('{'),
            Piece::Close => s.push('}'),
        }
    }
    s
}

/// arbitrary format strings, specs and brace soup included
fn gen_format_any(r: &mut Rng, keys: &[&str]) -> String {
    let n = 1 + r.below(6);
    let mut s = String::new();
    for _ in 0..n {
        match r.below(14) {
            0 => s.push_str("{{"),
            1 => s.push_str("}}"),
            2 => s.push('{'),
            3 => s.push('}'),
            4 | 5 => s.push_str(*r.pick(&[" ", "x", "é", "=>", ":", "a", "😀"])),
            6 | 7 | 8 => s.push_str(&format!("{{{}}}", r.pick(keys))),
            9 => {
                // a format spec
                let fill = *r.pick(&["", "", "*", "0", " ", "é", "<", "😀"]);
                let align = *r.pick(&["", "<", ">", "^", "="]);
                let sign = *r.pick(&["", "", "", "+", "-", " "]);
                let alt = *r.pick(&["", "", "", "#"]);
                let zero = *r.pick(&["", "", "0"]);
                let width = *r.pick(&["", "", "1", "5", "12", "007", "99999999999999999999"]);
                let comma = *r.pick(&["", "", "", ","]);
                let prec = *r.pick(&["", "", ".0", ".2", ".10", ".", ".99999999999999999999"]);
                let ty = *r.pick(&["", "", "", "s", "d", "x", "f", "?", "q", "ss", "é"]);
                s.push_str(&format!("{{{}:{}{}{}{}{}{}{}{}{}}}", r.pick(keys), if align.is_empty() { "" } else { fill }, align, sign, alt, zero, width, comma, prec, ty));
            }
            10 => s.push_str(*r.pick(&["{}", "{:}", "{:5}", "{a:}", "{a::}", "{a b}", "{ a}", "{a }", "{é}", "{a:é<4}", "{a:<<4}", "{a:5.1s}", "}{", "}{}}", "}{{}", "{a}{{", "{{{a}}}"])),
            _ => s.push_str(&format!("{{{}:{}{}}}", r.pick(keys), r.pick(&["<", ">", "^", "*<", "->", "_^"]), r.range(0, 12))),
        }
    }
    s
}

/* ------------------------------------------------------------------ families */

fn verdict_f(ctx: &mut Ctx, family: &str, key: &str, info: serde_json::Value, p: Result<(), (String, String)>, f: Result<(), String>) {
    let mut info = info;
    match (p, f) {
        (Err((class, what)), _) => {
            info["class"] = serde_json::json!(class);
            info["what"] = serde_json::json!(what);
            ctx.case(family, key, "viol", info)
        }
        (Ok(()), Ok(())) => ctx.case(family, key, "pass", info),
        (Ok(()), Err(d)) => {
            if let Some(w) = d.strip_prefix("SKIP") {
                ctx.case(family, "", "skip", serde_json::json!({"why": w.trim(), "case": info}))
            } else {
                ctx.case(family, key, "fdis", serde_json::json!({"what": d, "case": info}))
            }
        }
    }
}

fn hkey(s: &str) -> String {
    ckey(s, b"")
}

/// one record in one mode: bytes vs model, and the property's own predicate on the bytes
fn fam_record(ctx: &mut Ctx, r: &mut Rng) {
    let keys = if r.chance(50) { FIELD_KEYS } else { SIMPLE_KEYS };
    let data = gen_fields(r, keys, 2);
    let rec = Record { data: data.clone(), raw: "raw".into() };
    let pieces = gen_pieces(r, keys);
    let mode = match r.below(3) {
        0 => OutputMode::Json,
        1 => OutputMode::Logfmt,
        _ => OutputMode::Format(pieces_text(&pieces)),
    };
    let (mname, fhex) = mode_name(&mode);
    let row = Row::Record(rec);
    let call = call_tokens(&row);
    let req = format!("PRINT\t{}\t{}\t{}", mname, fhex, call);
    let info = serde_json::json!({"mode": mname, "format": if let OutputMode::Format(f) = &mode { f.clone() } else { String::new() }, "row": format!("{:?}", data), "request": clip(&req)});
    let key = hkey(&req);
    let family = format!("record-{}", mname);
    let bytes = match print_rows(&mode, &[row]) {
        Err(p) => {
            ctx.case(&family, &key, "viol", serde_json::json!({"class": "C18/printer-panic", "what": p, "case": info}));
            return;
        }
        Ok(Err(e)) => {
            ctx.case(&family, &key, "viol", serde_json::json!({"class": "C18/valid-format-rejected", "what": format!("a well-formed format string was rejected: {}", e), "case": info}));
            return;
        }
        Ok(Ok(b)) => b,
    };
    let model = ctx.drv.ask(&req);
    let mut info = info;
    info["got"] = serde_json::json!(String::from_utf8_lossy(&bytes));
    match mname {
        "json" => {
            let p = p_json_record(&bytes, &data);
            let f = match json_tokens(String::from_utf8_lossy(&bytes).trim_end_matches('\n'), false) {
                Ok(t) => {
                    if model == format!("JSON {}", t) {
                        Ok(())
                    } else {
                        Err(format!("impl={} model={}", clip(&t), clip(&model)))
                    }
                }
                Err(e) => Err(format!("unparsable: {}", e)),
            };
            verdict_f(ctx, &family, &key, info, p, f)
        }
        "logfmt" => {
            let text = String::from_utf8_lossy(&bytes).to_string();
            let pairs: Vec<(String, Value)> = data.iter().map(|(k, v)| (k.clone(), v.clone())).collect();
            let p = if text.ends_with('\n') { p_logfmt_line(&text[..text.len() - 1], &pairs) } else { Err(("C18/logfmt-line".into(), "no newline".into())) };
            let f = if model == format!("TEXT {}", enc::hexb(&bytes)) { Ok(()) } else { Err(format!("impl={:?} model={}", clip(&text), clip(&model))) };
            verdict_f(ctx, &family, &key, info, p, f)
        }
        _ => {
            let text = String::from_utf8_lossy(&bytes).to_string();
            let d2 = data.clone();
            let want = pieces_expected(&pieces, &move |k: &str| d2.get(k).cloned().unwrap_or(Value::None)) + "\n";
            let p = if text == want { Ok(()) } else { Err(("C18/format-substitution".to_string(), format!("want {:?}, got {:?}", clip(&want), clip(&text)))) };
            let f = if model == format!("TEXT {}", enc::hexb(&bytes)) { Ok(()) } else { Err(format!("impl={:?} model={}", clip(&text), clip(&model))) };
            verdict_f(ctx, &family, &key, info, p, f)
        }
    }
}

fn gen_table(r: &mut Rng, keys: &[&str], allow_dup: bool) -> Aggregate {
    let nc = 1 + r.below(5);
    let mut columns: Vec<String> = vec![];
    for _ in 0..nc {
        let c = r.pick(keys).to_string();
        if allow_dup || !columns.contains(&c) {
            columns.push(c);
        }
    }
    let nr = r.below(5);
    let data = (0..nr)
        .map(|_| {
            let mut row: HashMap<String, Value> = HashMap::new();
            for c in &columns {
                if r.chance(80) {
                    row.insert(c.clone(), gen_value(r, 1));
                }
            }
            if r.chance(10) {
                row.insert("extra".into(), Value::Int(1));
            }
            row
        })
        .collect();
    Aggregate { columns, data }
}

fn fam_table(ctx: &mut Ctx, r: &mut Rng) {
    let keys = if r.chance(50) { FIELD_KEYS } else { SIMPLE_KEYS };
    let agg = gen_table(r, keys, false);
    let pieces = gen_pieces(r, keys);
    let mode = match r.below(3) {
        0 => OutputMode::Json,
        1 => OutputMode::Logfmt,
        _ => OutputMode::Format(pieces_text(&pieces)),
    };
    let (mname, fhex) = mode_name(&mode);
    let row = Row::Aggregate(agg.clone());
    let req = format!("PRINT\t{}\t{}\t{}", mname, fhex, call_tokens(&row));
    let key = hkey(&req);
    let family = format!("table-{}", mname);
    let info = serde_json::json!({"mode": mname, "format": if let OutputMode::Format(f) = &mode { f.clone() } else { String::new() }, "columns": agg.columns, "rows": format!("{:?}", agg.data), "request": clip(&req)});
    let bytes = match print_rows(&mode, &[row]) {
        Err(p) => {
            ctx.case(&family, &key, "viol", serde_json::json!({"class": "C18/printer-panic", "what": p, "case": info}));
            return;
        }
        Ok(Err(e)) => {
            ctx.case(&family, &key, "viol", serde_json::json!({"class": "C18/valid-format-rejected", "what": e, "case": info}));
            return;
        }
        Ok(Ok(b)) => b,
    };
    let model = ctx.drv.ask(&req);
    let mut info = info;
    info["got"] = serde_json::json!(String::from_utf8_lossy(&bytes));
    let text = String::from_utf8_lossy(&bytes).to_string();
    match mname {
        "json" => {
            let p = p_json_table(&bytes, &agg);
            let f = match json_tokens(text.trim_end_matches('\n'), true) {
                Ok(t) => {
                    if model == format!("JSON {}", t) {
                        Ok(())
                    } else {
                        Err(format!("impl={} model={}", clip(&t), clip(&model)))
                    }
                }
                Err(e) => Err(format!("unparsable: {}", e)),
            };
            verdict_f(ctx, &family, &key, info, p, f)
        }
        "logfmt" => {
            // one line per row (values may contain newlines: build the expectation instead of splitting)
            let mut want = String::new();
            for row in &agg.data {
                let mut pairs: Vec<(String, Value)> = agg.columns.iter().map(|c| (c.clone(), row.get(c).cloned().unwrap_or(Value::None))).collect();
                pairs.sort_by(|a, b| a.0.cmp(&b.0));
                want.push_str(&pairs.iter().map(|(k, v)| format!("{}={}", k, disp(v))).collect::<Vec<_>>().join(" "));
                want.push('\n');
            }
            let p = if text == want { Ok(()) } else { Err(("C18/logfmt-line".to_string(), format!("want {:?}, got {:?}", clip(&want), clip(&text)))) };
            let f = if model == format!("TEXT {}", enc::hexb(&bytes)) { Ok(()) } else { Err(format!("impl={:?} model={}", clip(&text), clip(&model))) };
            verdict_f(ctx, &family, &key, info, p, f)
        }
        _ => {
            let mut want = String::new();
            for row in &agg.data {
                let cols = agg.columns.clone();
                let rw = row.clone();
                want.push_str(&pieces_expected(&pieces, &move |k: &str| if cols.iter().any(|c| c == k) { rw.get(k).cloned().unwrap_or(Value::None) } else { Value::None }));
                want.push('\n');
            }
            let p = if text == want { Ok(()) } else { Err(("C18/format-substitution".to_string(), format!("want {:?}, got {:?}", clip(&want), clip(&text)))) };
            let f = if model == format!("TEXT {}", enc::hexb(&bytes)) { Ok(()) } else { Err(format!("impl={:?} model={}", clip(&text), clip(&model))) };
            verdict_f(ctx, &family, &key, info, p, f)
        }
    }
}

/// `ValueDisplay` alone
fn fam_render(ctx: &mut Ctx, r: &mut Rng) {
    let v = gen_value(r, 3);
    let mut t = vec![];
    enc::value(&v, &mut t);
    let req = format!("RENDER\t{}", t.join(" "));
    let model = ctx.drv.ask(&req);
    let got = disp(&v);
    let key = hkey(&req);
    let info = serde_json::json!({"value": format!("{:?}", v), "got": got});
    if model == format!("TEXT {}", enc::hex(&got)) {
        ctx.case("render", &key, "pass", info)
    } else {
        ctx.case("render", &key, "fdis", serde_json::json!({"what": format!("impl={:?} model={}", clip(&got), clip(&model)), "case": info}))
    }
}

/// arbitrary format strings: accepted/rejected at construction, and the text
fn fam_format_any(ctx: &mut Ctx, r: &mut Rng) {
    let keys = SIMPLE_KEYS;
    let fmt = gen_format_any(r, keys);
    let data = gen_fields(r, keys, 1);
    let row = Row::Record(Record { data: data.clone(), raw: String::new() });
    let req = format!("FMT\t{}\t{}", enc::hex(&fmt), fields_tokens(&data));
    let model = ctx.drv.ask(&req);
    let key = hkey(&req);
    let mut info = serde_json::json!({"format": fmt, "row": format!("{:?}", data), "model": clip(&model)});
    let got = print_rows(&OutputMode::Format(fmt.clone()), &[row]);
    // the same decision must be taken by Pipeline::new, before any input is read
    let pipe = imp::run("* | json", b"", &format!("format={}", fmt), 10);
    let verdict: Result<(), String> = match (&got, model.as_str()) {
        (Err(p), _) => Err(format!("printer panicked: {}", p)),
        (Ok(Err(_)), "INVALID") => {
            if pipe.compiled {
                Err("FormatPrinter::new rejects the string but Pipeline::new accepted it".into())
            } else {
                Ok(())
            }
        }
        (Ok(Err(e)), m) => Err(format!("implementation rejects the format string ({}), model says {}", e, head(m))),
        (Ok(Ok(_)), "INVALID") => Err("model rejects the format string, the implementation accepts it".into()),
        (Ok(Ok(b)), m) => {
            info["got"] = serde_json::json!(String::from_utf8_lossy(b));
            if !pipe.compiled {
                Err("FormatPrinter::new accepts the string but Pipeline::new rejected it".into())
            } else if m == format!("TEXT {}", enc::hexb(b)) {
                Ok(())
            } else {
                Err(format!("text differs: impl={:?} model={}", String::from_utf8_lossy(b), clip(m)))
            }
        }
    };
    // P-level (independent of the model): a format string that was ACCEPTED substitutes every
    // placeholder and keeps all other text — in particular a row never comes out as an error text,
    // because whatever is wrong with a format string has to be found before any input is read
    if let (Ok(Ok(b)), true) = (&got, pipe.compiled) {
        if let Some(re) = accepted_format_shape(&fmt, &data) {
            let text = String::from_utf8_lossy(b).to_string();
            let line = text.strip_suffix('\n').unwrap_or(&text);
            if !re.is_match(line) {
                info["class"] = serde_json::json!("C18/accepted-format-fails-on-rows");
                info["what"] = serde_json::json!(format!("the format string was accepted, but the printed row {:?} is not its literal text with every placeholder replaced by the field's text", clip(line)));
                ctx.case("format-any", &key, "viol", info);
                return;
            }
        }
    }
    match verdict {
        Ok(()) => ctx.case("format-any", &key, "pass", info),
        Err(w) => ctx.case("format-any", &key, "fdis", serde_json::json!({"what": w, "case": info})),
    }
}

/// the shape every output of an accepted format string must have: its literal text (`{{`, `}}`
/// unescaped) in order, and in place of each `{key[:spec]}` some text that contains the field's text
/// (cut to the precision if the spec has one; padding on either side is whatever the spec says).
/// None when this scanner cannot split the string (then nothing is judged).
fn accepted_format_shape(fmt: &str, data: &HashMap<String, Value>) -> Option<regex::Regex> {
    let cs: Vec<char> = fmt.chars().collect();
    let mut re = String::from("(?s)^");
    let mut i = 0;
    while i < cs.len() {
        match cs[i] {
            '{' if i + 1 < cs.len() && cs[i + 1] == '{' => {
                re.push_str(&regex::escape("{"));
                i += 2;
            }
            '}' if i + 1 < cs.len() && cs[i + 1] == '}' => {
                re.push_str(&regex::escape("}"));
                i += 2;
            }
            '{' => {
                let end = (i + 1..cs.len()).find(|j| cs[*j] == '}')?;
                let inner: String = cs[i + 1..end].iter().collect();
                if inner.contains('{') {
                    return None;
                }
                let (key, spec) = match inner.find(':') {
                    Some(p) => (inner[..p].to_string(), inner[p + 1..].to_string()),
                    None => (inner.clone(), String::new()),
                };
                let full = disp(data.get(&key).unwrap_or(&Value::None));
                let want: String = match spec.rfind('.') {
                    Some(p) => {
                        let digits: String = spec[p + 1..].chars().take_while(|c| c.is_ascii_digit()).collect();
                        match digits.parse::<usize>() {
                            Ok(k) => full.chars().take(k).collect(),
                            Err(_) => return None,
                        }
                    }
                    None => full,
                };
                if spec.is_empty() {
                    re.push_str(&regex::escape(&want));
                } else {
                    re.push_str(".*?");
                    re.push_str(&regex::escape(&want));
                    re.push_str(".*?");
                }
                i = end + 1;
            }
            '}' => return None,
            c => {
                re.push_str(&regex::escape(&c.to_string()));
                i += 1;
            }
        }
    }
    re.push('$');
    regex::RegexBuilder::new(&re).size_limit(1 << 24).build().ok()
}

/* end to end: query + input through Pipeline in every mode */

fn e2e_query(r: &mut Rng) -> String {
    (*r.pick(&[
        "* | json",
        "* | json | count by k",
        "* | json | count, sum(n) as total, avg(n) by k",
        "* | json | n / 0 as q",
        "* | json | 0 / 0 as z | fields z, n",
        "* | json | sum(n) by k, b | sort by k",
        "* | json | min(n), max(n)",
        "* | json | count by missing",
        "* | json | 1s * n as d",
        "* | json | count_distinct(k)",
        "* | json | fields k, n | limit 3",
        "* | json | concat(k, \"=\", n) as kv",
        "* | logfmt",
        "*",
    ]))
    .to_string()
}

fn e2e_input(r: &mut Rng) -> Vec<u8> {
    let mut out = String::new();
    for _ in 0..r.below(6) {
        let mut m = vec![];
        if r.chance(85) {
            m.push(format!("\"k\":{}", serde_json::to_string(*r.pick(&["a", "b", "x y", "é", "q\"", ""])).unwrap()));
        }
        if r.chance(85) {
            m.push(format!("\"n\":{}", r.pick(&["1", "2", "-3", "0", "2.5", "1e3", "null", "\"7\""])));
        }
        if r.chance(40) {
            m.push(format!("\"b\":{}", r.pick(&["true", "false", "null"])));
        }
        if r.chance(30) {
            m.push("\"o\":{\"z\":[1,{\"y\":null}],\"a\":\"t\"}".to_string());
        }
        out.push_str(&format!("{{{}}}\n", m.join(",")));
    }
    out.into_bytes()
}

fn fam_e2e(ctx: &mut Ctx, r: &mut Rng) {
    let q = e2e_query(r);
    let input = e2e_input(r);
    let pieces = gen_pieces(r, &["k", "n", "b", "_count", "total", "q", "o"]);
    let (mode, mname, fhex) = match r.below(3) {
        0 => ("json".to_string(), "json", "-".to_string()),
        1 => ("logfmt".to_string(), "logfmt", "-".to_string()),
        _ => {
            let f = pieces_text(&pieces);
            (format!("format={}", f), "format", enc::hex(&f))
        }
    };
    let run = imp::run(&q, &input, &mode, 10);
    let parsed = imp::parse(&q).ok().and_then(|p| p.0);
    let key = ckey(&format!("{}|{}", q, mode), &input);
    let mut info = case_info(&q, &input);
    info["mode"] = serde_json::json!(mode);
    info["got"] = serde_json::json!(String::from_utf8_lossy(&run.stdout));
    let family = format!("e2e-{}", mname);
    let ast = match &parsed {
        Some(a) => a,
        None => {
            ctx.case(&family, "", "skip", serde_json::json!({"why": "query rejected", "case": info}));
            return;
        }
    };
    if run.panicked.is_some() || run.hung || !run.compiled {
        ctx.case(&family, &key, "viol", serde_json::json!({"class": "C18/run", "what": format!("panicked={:?} hung={} compiled={} {}", run.panicked, run.hung, run.compiled, run.compile_err), "case": info}));
        return;
    }
    let table = is_table_query(ast);
    let model = ctx.drv.ask(&format!("RUNMODE\t{}\t{}\t{}\t{}", mname, fhex, enc::query(ast), enc::hexb(&input)));
    // P-level
    let text = String::from_utf8_lossy(&run.stdout).to_string();
    let mut p: Result<(), (String, String)> = Ok(());
    if mname == "json" {
        for line in text.split('\n').filter(|l| !l.is_empty()) {
            if let Err(e) = strict_json(line) {
                p = Err(("C18/json-invalid".into(), e));
            }
        }
        if table && p.is_ok() {
            match canon::parse(text.trim_end_matches('\n')) {
                Ok(J::Arr(rows)) => {
                    let first: Option<Vec<String>> = rows.first().and_then(|x| if let J::Obj(kvs) = x { Some(kvs.iter().map(|kv| kv.0.clone()).collect()) } else { None });
                    for x in &rows {
                        let ks: Option<Vec<String>> = if let J::Obj(kvs) = x { Some(kvs.iter().map(|kv| kv.0.clone()).collect()) } else { None };
                        if ks != first {
                            p = Err(("C18/json-aggregate-columns".into(), format!("elements differ in their keys: {:?} vs {:?}", first, ks)));
                        }
                    }
                }
                _ => p = Err(("C18/json-aggregate-not-array".into(), "an aggregate must be a single JSON array".into())),
            }
        }
    }
    // F-level
    let f: Result<(), String> = if model.starts_with("SKIP") || model.starts_with("BADREQ") {
        Err(format!("SKIP {}", model))
    } else if mname == "json" {
        let m = model.strip_prefix("OUT ").unwrap_or(&model);
        let mut toks = vec![format!("E{}", run.error_lines)];
        let mut ok = true;
        if table {
            match json_tokens(text.trim_end_matches('\n'), true) {
                Ok(t) => toks.push(format!("JSON {}", t)),
                Err(_) => ok = false,
            }
        } else {
            let lines: Vec<&str> = text.split('\n').filter(|l| !l.is_empty()).collect();
            toks.push("JSONREC".into());
            toks.push(format!("{}", lines.len()));
            for l in lines {
                match json_tokens(l, false) {
                    Ok(t) => toks.push(format!("JSON {}", t)),
                    Err(_) => ok = false,
                }
            }
        }
        let a = toks.join(" ");
        if ok && a == m {
            Ok(())
        } else {
            Err(format!("impl={} model={}", clip(&a), clip(m)))
        }
    } else {
        let want = format!("OUT E{} TEXT {}", run.error_lines, enc::hexb(&run.stdout));
        if want == model {
            Ok(())
        } else {
            Err(format!("impl={:?} (E{}) model={}", clip(&text), run.error_lines, clip(&model)))
        }
    };
    verdict_f(ctx, &family, &key, info, p, f)
}

/* CLI: decision table against the binary, with a stdin that never delivers anything */

struct BinRun {
    exited_early: Option<i32>, // exit code while stdin was still open and silent
    stdout: Vec<u8>,
    stderr: Vec<u8>,
    after_close: Option<i32>,
}

fn run_binary_silent_stdin(args: &[String], wait_ms: u64) -> Option<BinRun> {
    use std::io::Read;
    let mut child = std::process::Command::new(super::c04::AGRIND)
        .args(args)
        .env("NO_COLOR", "1")
        .env("RUST_BACKTRACE", "0")
        .stdin(std::process::Stdio::piped())
        .stdout(std::process::Stdio::piped())
        .stderr(std::process::Stdio::piped())
        .spawn()
        .ok()?;
    let stdin = child.stdin.take()?; // kept open, never written to
    let mut so = child.stdout.take()?;
    let mut se = child.stderr.take()?;
    let h1 = std::thread::spawn(move || {
        let mut b = vec![];
        let _ = so.read_to_end(&mut b);
        b
    });
    let h2 = std::thread::spawn(move || {
        let mut b = vec![];
        let _ = se.read_to_end(&mut b);
        b
    });
    let t0 = std::time::Instant::now();
    let mut early = None;
    while t0.elapsed().as_millis() < wait_ms as u128 {
        if let Ok(Some(st)) = child.try_wait() {
            early = Some(st.code().unwrap_or(-1));
            break;
        }
        std::thread::sleep(std::time::Duration::from_millis(10));
    }
    drop(stdin);
    let mut after = None;
    if early.is_none() {
        let t1 = std::time::Instant::now();
        loop {
            if let Ok(Some(st)) = child.try_wait() {
                after = Some(st.code().unwrap_or(-1));
                break;
            }
            if t1.elapsed().as_secs() > 10 {
                let _ = child.kill();
                let _ = child.wait();
                break;
            }
            std::thread::sleep(std::time::Duration::from_millis(10));
        }
    }
    let stdout = h1.join().unwrap_or_default();
    let stderr = h2.join().unwrap_or_default();
    Some(BinRun { exited_early: early, stdout, stderr, after_close: after })
}

fn opt_tok(o: &Option<String>) -> String {
    match o {
        None => "none".into(),
        Some(s) => format!("X{}", enc::hex(s)),
    }
}

fn cli_cases() -> Vec<(Option<String>, Option<String>, bool)> {
    // (−o, −−format, must be rejected according to the property text)
    let s = |x: &str| Some(x.to_string());
    vec![
        (None, None, false),
        (s("json"), None, false),
        (s("logfmt"), None, false),
        (s("legacy"), None, false),
        (s("format={a} {b}"), None, false),
        (s("format={{}}"), None, false),
        (s("format=x=y"), None, false),
        (None, s("{a}"), false),
        (None, s("plain"), false),
        (s("yaml"), None, true),
        (s("JSON"), None, true),
        (s(""), None, true),
        (s("json "), None, true),
        (s("jsonx"), None, true),
        (s("=json"), None, true),
        (s("legacy=x"), None, true),
        (s("formats={a}"), None, true),
        (s("format="), None, true),
        (s("format"), None, true),
        (s("format={"), None, true),
        (s("format=}"), None, true),
        (s("format={a{b}}"), None, true),
        (s("format={a"), None, true),
        (s("format=a}b"), None, true),
        (s("format={}"), None, true),
        (None, s("{"), true),
        (None, s("}"), true),
        (None, s("{a{b}}"), true),
        (s("json"), s("{a}"), true),
        (s("format={a}"), s("{a}"), true),
        (s("logfmt"), s(""), true),
        (None, s(""), true),
        (s("yaml"), s("{"), true),
        // quirks of the decision table (not demanded either way by the property text)
        (s("json="), None, false),
        (s("legacy="), None, false),
        (s("format={a:>5}"), None, false),
        (s("format={a:=5}"), None, false),
        (s("format={a:q}"), None, false),
    ]
}

/// "`-o` together with `--format` are rejected": every explicit, by itself VALID `-o` value (the
/// default mode `legacy` included: an explicit `-o legacy` is not an absent `-o`) with the deprecated
/// flag in each of its spellings (`--format`, `-m`), in either order, attached or detached.
/// All of them are rejected at once by the unchanged tool, so none costs the silent-stdin wait.
fn cli_both_cases() -> Vec<(Option<String>, Option<String>, bool, &'static str)> {
    let s = |x: &str| Some(x.to_string());
    let mut v = vec![];
    for o in ["legacy", "json", "logfmt", "format={a}", "format={a} {b}", "legacy=", "json=", "logfmt=x"] {
        for sp in ["-o/--format", "-o/-m"] {
            v.push((s(o), s("{a}-{b}"), true, sp));
        }
    }
    // the other spellings and orders, for the default mode and one other
    for o in ["legacy", "json"] {
        for sp in ["--output/--format", "--output=/--format=", "-oV/-mV", "--format/-o", "-m/--output", "-o/--format/trailing-query"] {
            v.push((s(o), s("{a}-{b}"), true, sp));
        }
    }
    // a format string that is a plain word / the mode's own name / empty
    for f in ["plain", "legacy", ""] {
        v.push((s("legacy"), s(f), true, "-o/--format"));
        v.push((s("legacy"), s(f), true, "-o/-m"));
    }
    v
}

/// the command line of a cli case; `spelling` "" = `QUERY -o O --format F`
fn cli_args(o: &Option<String>, f: &Option<String>, spelling: &str) -> Vec<String> {
    let q = "* | json".to_string();
    let (ov, fv) = (o.clone().unwrap_or_default(), f.clone().unwrap_or_default());
    let sv = |v: &[&str]| v.iter().map(|s| s.to_string()).collect::<Vec<String>>();
    match spelling {
        "-o/-m" => sv(&[&q, "-o", &ov, "-m", &fv]),
        "--output/--format" => sv(&[&q, "--output", &ov, "--format", &fv]),
        "--output=/--format=" => sv(&[&q, &format!("--output={}", ov), &format!("--format={}", fv)]),
        "-oV/-mV" => sv(&[&q, &format!("-o{}", ov), &format!("-m{}", fv)]),
        "--format/-o" => sv(&[&q, "--format", &fv, "-o", &ov]),
        "-m/--output" => sv(&["-m", &fv, "--output", &ov, &q]),
        "-o/--format/trailing-query" => sv(&["-o", &ov, "--format", &fv, &q]),
        _ => {
            let mut args = vec![q];
            if let Some(o) = o {
                args.push("-o".into());
                args.push(o.clone());
            }
            if let Some(f) = f {
                args.push("--format".into());
                args.push(f.clone());
            }
            args
        }
    }
}

fn fam_cli(ctx: &mut Ctx) {
    if !super::c04::ensure_binary() {
        ctx.case("cli", "", "skip", serde_json::json!({"why": "agrind binary could not be built"}));
        return;
    }
    // (−o, −−format, must be rejected, spelling of the command line)
    let mut cases: Vec<(Option<String>, Option<String>, bool, &'static str)> = cli_cases().into_iter().map(|(o, f, r)| (o, f, r, "")).collect();
    cases.extend(cli_both_cases());
    for (i, (o, f, must_reject, spelling)) in cases.iter().enumerate() {
        if i % ctx.nshards != ctx.shard {
            continue;
        }
        let model = ctx.drv.ask(&format!("CLI\t{}\t{}", opt_tok(o), opt_tok(f)));
        let args = cli_args(o, f, spelling);
        let key = if spelling.is_empty() { format!("{:?}/{:?}", o, f) } else { format!("{:?}/{:?}/{}", o, f, spelling) };
        let run = match run_binary_silent_stdin(&args, 1500) {
            Some(r) => r,
            None => {
                ctx.case("cli", "", "skip", serde_json::json!({"why": "spawn failed"}));
                continue;
            }
        };
        let rejected = matches!(run.exited_early, Some(c) if c != 0);
        let info = serde_json::json!({"o": o, "format": f, "args": args, "model": model, "exit_while_stdin_silent": run.exited_early, "exit_after_eof": run.after_close,
            "stderr": String::from_utf8_lossy(&run.stderr).chars().take(160).collect::<String>(), "stdout": String::from_utf8_lossy(&run.stdout).chars().take(80).collect::<String>()});
        // P-level: what the property lists must be rejected before any input is read, silently on stdout
        if *must_reject && (!rejected || !run.stdout.is_empty()) {
            ctx.case("cli", &key, "viol", serde_json::json!({"class": "C18/bad-argument-not-rejected-before-input", "what": "the argument combination must be rejected before input is read", "case": info}));
            continue;
        }
        // F-level: the model's decision table
        let model_rejects = model.starts_with("ERR");
        let agree = if model_rejects { rejected } else { run.exited_early.is_none() && run.after_close == Some(0) };
        if agree {
            ctx.case("cli", &key, "pass", info)
        } else {
            ctx.case("cli", &key, "fdis", serde_json::json!({"what": "the binary and the model's decision table differ", "case": info}))
        }
    }
    // `--format ''`: an empty format string through the deprecated flag
    if ctx.shard == 0 {
        let args: Vec<String> = vec!["* | json".into(), "--format".into(), "".into()];
        if let Some(run) = run_binary_silent_stdin(&args, 1500) {
            let rejected = matches!(run.exited_early, Some(c) if c != 0);
            let info = serde_json::json!({"args": args, "exit_while_stdin_silent": run.exited_early, "exit_after_eof": run.after_close});
            if rejected {
                ctx.case("cli-empty-format", "legacy-flag", "pass", info)
            } else {
                ctx.case("cli-empty-format", "legacy-flag", "viol", serde_json::json!({"class": "C18/empty-format-accepted", "what": "`--format ''` (an empty format string) is accepted and prints empty lines; `-o format=` is rejected", "case": info}))
            }
        }
    }
}

/// `-o format=F` and `--format F` on the real binary: the format string reaches the printer
/// verbatim — upper-case literal text and upper-case field names included
fn fam_cli_format_text(ctx: &mut Ctx) {
    if ctx.shard != 0 || !super::c04::ensure_binary() {
        return;
    }
    let dir = format!("/verif/harness/target/scratch/c18-{}", std::process::id());
    let _ = std::fs::create_dir_all(&dir);
    let path = format!("{}/in.log", dir);
    let _ = std::fs::write(&path, "{\"Level\":\"WARN\",\"msg\":\"Disk Full\",\"Code\":507,\"k\":\"a\"}\n{\"Level\":\"info\",\"msg\":\"ok\",\"Code\":200,\"k\":\"B\"}\n");
    let rows: [[(&str, &str); 4]; 2] = [[("Level", "WARN"), ("msg", "Disk Full"), ("Code", "507"), ("k", "a")], [("Level", "info"), ("msg", "ok"), ("Code", "200"), ("k", "B")]];
    let mut r = ctx.rng.fork();
    for i in 0..ctx.budget(24 * 16, 200 * 16) {
        // pieces: literal text (any case, `=`, non-ASCII) and {Field} placeholders
        let np = 1 + r.below(5);
        let mut fmt = String::new();
        let mut want = [String::new(), String::new()];
        for _ in 0..np {
            if r.chance(50) {
                let lit = *r.pick(&["LEVEL=", " Msg[", "] ", "X", "É=", "=>", "Code:", " a=b ", "Zz", "-"]);
                fmt.push_str(lit);
                want[0].push_str(lit);
                want[1].push_str(lit);
            } else {
                let key = *r.pick(&["Level", "msg", "Code", "k", "level", "MSG"]);
                fmt.push_str(&format!("{{{}}}", key));
                for (ri, row) in rows.iter().enumerate() {
                    want[ri].push_str(row.iter().find(|kv| kv.0 == key).map(|kv| kv.1).unwrap_or("None"));
                }
            }
        }
        let expect = format!("{}\n{}\n", want[0], want[1]);
        let of = format!("format={}", fmt);
        let a = super::c04::run_binary(&["* | json", "-o", &of], Some(&path));
        // a detached value that starts with `-` is read as an option by the argument parser
        // (`--format '-{Code}'` → "unexpected argument '-{'"): such a string is passed attached
        let attached = format!("--format={}", fmt);
        let b = if fmt.starts_with('-') { super::c04::run_binary(&["* | json", &attached], Some(&path)) } else { super::c04::run_binary(&["* | json", "--format", &fmt], Some(&path)) };
        let key = format!("cli-format-text:{}:{}", i, fmt);
        match (a, b) {
            (Some(a), Some(b)) => {
                let (oa, ob) = (String::from_utf8_lossy(&a.stdout).to_string(), String::from_utf8_lossy(&b.stdout).to_string());
                if oa == expect && ob == expect {
                    ctx.case("cli-format-text", &key, "pass", serde_json::json!({"format": fmt}));
                } else {
                    ctx.case("cli-format-text", &key, "viol", serde_json::json!({"class": "C18/format-substitution", "what": "the format string does not reach the output verbatim (each {field} replaced by the field's text, all other text intact)",
                        "format": fmt, "expected": expect, "with_o_format": oa, "with_format_flag": ob}));
                }
            }
            _ => ctx.case("cli-format-text", "", "skip", serde_json::json!({"why": "cannot start the agrind binary"})),
        }
    }
    let _ = std::fs::remove_dir_all(&dir);
}

/* hazards */

fn fam_hazards(ctx: &mut Ctx) {
    fam_cli_format_text(ctx);
    // duplicate column names
    let agg = Aggregate { columns: vec!["_count".into(), "_count".into()], data: vec![[("_count".to_string(), Value::Int(1))].into_iter().collect()] };
    if let Ok(Ok(b)) = print_rows(&OutputMode::Json, &[Row::Aggregate(agg.clone())]) {
        let info = serde_json::json!({"columns": agg.columns, "got": String::from_utf8_lossy(&b), "query": "* | json | count(n > 1), count(n > 2)"});
        match p_json_table(&b, &agg) {
            Ok(()) => ctx.case("hazard-duplicate-columns", "dup", "pass", info),
            Err((class, what)) => {
                // a table whose column list holds a name twice can no longer be produced by a query
                // (/repo 7200e5c rejects the stage; checked end to end just below): the printer's
                // behaviour on such a hand-made table is not a state the property speaks about
                if class == "C18/duplicate-column-names" {
                    ctx.case("hazard-duplicate-columns", "", "skip", serde_json::json!({"why": "hand-made table with a duplicate column name: unreachable since /repo 7200e5c"}))
                } else {
                    ctx.case("hazard-duplicate-columns", "dup", "viol", serde_json::json!({"class": class, "what": what, "case": info}))
                }
            }
        }
    }
    let run = imp::run("* | json | count(n > 1), count(n > 2)", b"{\"n\":1}\n{\"n\":3}\n", "json", 10);
    let text = String::from_utf8_lossy(&run.stdout).to_string();
    let info = serde_json::json!({"query": "* | json | count(n > 1), count(n > 2)", "input": "{\"n\":1}\n{\"n\":3}\n", "got": text});
    let dup = match canon::parse(text.trim_end()) {
        Ok(J::Arr(rows)) => rows.iter().any(|x| if let J::Obj(kvs) = x { let mut s = std::collections::HashSet::new(); kvs.iter().any(|kv| !s.insert(kv.0.clone())) } else { false }),
        _ => false,
    };
    if dup || (run.compiled && !text.contains("_count")) {
        ctx.case("hazard-duplicate-columns", "e2e", "viol", serde_json::json!({"class": "C18/duplicate-column-names", "what": "two aggregate functions with the same default name give an object with a duplicate key", "case": info}));
    } else {
        // rejected at compile time (or both columns present under different names)
        ctx.case("hazard-duplicate-columns", "e2e", "pass", info);
    }
    // generated: every pair of functions with the same default column name, and a function named like a key
    for (i, q) in ["* | json | count, count(n > 1)", "* | json | sum(n), sum(m)", "* | json | avg(n), average(m) by k", "* | json | p50(n), pct50(m)", "* | json | count as k by k", "* | json | min(n) as x, max(n) as x", "* | json | count_distinct(n), count_distinct(m) by k"].iter().enumerate() {
        let run = imp::run(q, b"{\"n\":1,\"m\":2,\"k\":\"a\"}\n{\"n\":3,\"m\":5,\"k\":\"a\"}\n", "json", 10);
        let text = String::from_utf8_lossy(&run.stdout).to_string();
        let info = serde_json::json!({"query": q, "got": text, "compiled": run.compiled});
        if run.compiled || run.panicked.is_some() || !text.is_empty() {
            ctx.case("hazard-duplicate-columns", &format!("gen{}", i), "viol", serde_json::json!({"class": "C18/duplicate-column-names", "what": "an aggregation with two columns of one name was accepted: one of the two functions cannot be in the output", "case": info}));
        } else {
            ctx.case("hazard-duplicate-columns", &format!("gen{}", i), "pass", info);
        }
    }
    // nested object key order across two prints of equal rows
    let mk = || {
        let inner: im::HashMap<String, Value> = (0..8).map(|i| (format!("k{}", i), Value::Int(i))).collect();
        let data: HashMap<String, Value> = [("o".to_string(), Value::Obj(inner))].into_iter().collect();
        Row::Record(Record { data, raw: String::new() })
    };
    let mut outs = std::collections::BTreeSet::new();
    for _ in 0..6 {
        if let Ok(Ok(b)) = print_rows(&OutputMode::Json, &[mk()]) {
            outs.insert(String::from_utf8_lossy(&b).to_string());
        }
    }
    let info = serde_json::json!({"distinct_outputs": outs.iter().take(3).collect::<Vec<_>>()});
    if outs.len() > 1 {
        ctx.case("hazard-nested-key-order", "obj8", "viol", serde_json::json!({"class": "C18/nested-key-order-nondeterministic", "what": "equal rows print their nested object members in different orders", "case": info}));
    } else {
        ctx.case("hazard-nested-key-order", "obj8", "pass", info);
    }
}

pub fn check(ctx: &mut Ctx) {
    fam_cli(ctx);
    if ctx.shard == 0 {
        fam_hazards(ctx);
    }
    let n = ctx.budget(16000, 300000);
    for i in 0..n {
        let mut r = ctx.rng.fork();
        match i % 12 {
            0 | 1 | 2 => fam_record(ctx, &mut r),
            3 | 4 | 5 => fam_table(ctx, &mut r),
            6 | 7 => fam_render(ctx, &mut r),
            8 | 9 => fam_format_any(ctx, &mut r),
            _ => fam_e2e(ctx, &mut r),
        }
    }
}
