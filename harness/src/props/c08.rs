//! C08: numbers are never silently corrupted.
//! P-level (real code only): a numeric literal keeps its value through extraction, coercion,
//! arithmetic, aggregation and output — judged against Rust's own correctly rounded parse of the
//! literal / exact i128 arithmetic.  F-level: from_string / coercion / soft-float / formatting of
//! the Lean model against the real code and the hardware.
use super::common::*;
use crate::canon::{self, J};
use crate::enc;
use crate::imp;
use crate::rng::Rng;
use crate::Ctx;
use ag::data::Value;

fn digits(r: &mut Rng, n: usize) -> String {
    let mut s = String::new();
    for i in 0..n {
        let d = if i == 0 && n > 1 { 1 + r.below(9) } else { r.below(10) };
        s.push((b'0' + d as u8) as char);
    }
    s
}

fn dg(r: &mut Rng, lo: usize, span: usize) -> String {
    let n = lo + r.below(span);
    digits(r, n)
}

/// a JSON number literal: integers around every boundary, fractions, exponents
fn json_number(r: &mut Rng) -> String {
    let neg = if r.chance(35) { "-" } else { "" };
    match r.below(10) {
        0 => format!("{}{}", neg, *r.pick(&["0", "1", "2147483647", "2147483648", "4294967296", "9007199254740991", "9007199254740992", "9007199254740993", "9223372036854775807", "9223372036854775808", "18446744073709551615", "18446744073709551616", "123456789012345678901234567890"])),
        1 => format!("{}{}", neg, dg(r, 1, 19)),
        2 => format!("{}{}.{}", neg, dg(r, 1, 6), dg(r, 1, 6)),
        3 => format!("{}{}e{}", neg, dg(r, 1, 3), r.range(-20, 20)),
        4 => format!("{}{}.{}e{}", neg, digits(r, 1), dg(r, 1, 14), r.range(-300, 300)),
        5 => format!("{}{}", neg, *r.pick(&["1e-300", "1e300", "5e-324", "1.7976931348623157e308", "2.2250738585072014e-308", "0.1", "0.30000000000000004", "1e22", "1e23", "123456789.123456789", "0.000000000000000000001"])),
        6 => format!("{}{}.0", neg, dg(r, 1, 10)),
        7 => format!("{}0.{}", neg, dg(r, 1, 17)),
        8 => format!("{}{}", neg, dg(r, 16, 4)),
        _ => format!("{}{}E+{}", neg, dg(r, 1, 2), r.range(0, 30)),
    }
}

/// text that may or may not look like a number (for from_string / coercion)
fn numeric_text(r: &mut Rng) -> String {
    // any of the forms below with blanks or tabs around it (column-aligned text, JSON strings)
    if r.chance(15) {
        let inner = numeric_text_plain(r);
        let pad = |r: &mut Rng| r.pick(&["", " ", "  ", "\t", " \t"]).to_string();
        return format!("{}{}{}", pad(r), inner, pad(r));
    }
    numeric_text_plain(r)
}

fn numeric_text_plain(r: &mut Rng) -> String {
    match r.below(16) {
        0 => format!("-{}", dg(r, 1, 5)),
        1 => format!("+{}", dg(r, 1, 5)),
        2 => format!("{}e{}", digits(r, 1), r.range(0, 6)),
        3 => format!("{}.{}", dg(r, 1, 3), dg(r, 1, 3)),
        4 => format!("-{}.{}", dg(r, 1, 3), dg(r, 1, 3)),
        5 => format!(" {} ", dg(r, 1, 4)),
        6 => format!("{},{}", dg(r, 1, 3), digits(r, 3)),
        7 => format!("{},{}.{}", dg(r, 1, 3), digits(r, 3), digits(r, 2)),
        8 => r.pick(&["inf", "-inf", "NaN", "nan", "infinity", "true", "false", "0x1f", "1_000", ".5", "5.", "-.5", "--1", "1e", "e5", "", " ", "١٢٣", "½", "1e999", "-0", "007", "9223372036854775808", "-9223372036854775809", "1.5e3", "2E2", "1e-2"]).to_string(),
        9 => format!("{}{}", dg(r, 1, 3), r.pick(&["ms", "%", "kb", " apples"])),
        10 => format!("${}", dg(r, 1, 3)),
        11 => format!("-{}e-{}", digits(r, 1), r.range(1, 5)),
        12 => dg(r, 18, 4),
        _ => dg(r, 1, 9),
    }
}

fn first_field(stdout: &[u8], key: &str) -> Option<J> {
    let lines = canon::normalized_lines(stdout)?;
    match lines.first()? {
        J::Obj(kvs) => kvs.iter().find(|kv| kv.0 == key).map(|kv| kv.1.clone()),
        _ => None,
    }
}

fn value_num(v: &Value) -> Option<f64> {
    match v {
        Value::Int(i) => Some(*i as f64),
        Value::Float(f) => Some(f.0),
        _ => None,
    }
}

// ------------------------------------------------------------------------------------------------
// TEXT output of doubles: "other numbers keep their double value (full precision in JSON output,
// two decimals in text output)".  The reference below is exact integer arithmetic on the binary64
// value m·2^e — it never calls a float formatter — so the expected text is the correctly rounded
// (half to even on the exact value) two-decimal rendering of the double the run holds.
// ------------------------------------------------------------------------------------------------

/// decimal digits of m·2^e (e ≥ 0): schoolbook doubling on base-10^9 limbs
fn big_shl_dec(m: u64, e: u32) -> String {
    let mut limbs: Vec<u32> = vec![];
    let mut mm = m;
    while mm > 0 {
        limbs.push((mm % 1_000_000_000) as u32);
        mm /= 1_000_000_000;
    }
    if limbs.is_empty() {
        limbs.push(0);
    }
    for _ in 0..e {
        let mut carry = 0u64;
        for l in limbs.iter_mut() {
            let t = (*l as u64) * 2 + carry;
            *l = (t % 1_000_000_000) as u32;
            carry = t / 1_000_000_000;
        }
        if carry > 0 {
            limbs.push(carry as u32);
        }
    }
    let mut s = format!("{}", limbs[limbs.len() - 1]);
    for l in limbs.iter().rev().skip(1) {
        s.push_str(&format!("{:09}", l));
    }
    s
}

/// the finite double `x`, exactly, rounded to two decimals (ties on the exact value go to the even
/// hundredth); a negative value that rounds to zero comes out as "-0.00"
pub fn exact_fixed2(x: f64) -> String {
    let bits = x.to_bits();
    let neg = bits >> 63 == 1;
    let ef = ((bits >> 52) & 0x7ff) as i32;
    let frac = bits & ((1u64 << 52) - 1);
    let (m, e) = if ef == 0 { (frac, -1074) } else { (frac | (1u64 << 52), ef - 1075) };
    let body = if e >= 0 {
        format!("{}.00", big_shl_dec(m, e as u32))
    } else {
        // x·100 = m·100 / 2^k, m·100 < 2^60
        let k = (-e) as u32;
        let p = (m as u128) * 100;
        let cents: u128 = if k >= 100 {
            0
        } else {
            let q = p >> k;
            let rem = p & ((1u128 << k) - 1);
            let half = 1u128 << (k - 1);
            if rem > half || (rem == half && q & 1 == 1) {
                q + 1
            } else {
                q
            }
        };
        format!("{}.{:02}", cents / 100, cents % 100)
    };
    if neg {
        format!("-{}", body)
    } else {
        body
    }
}

/// is `text` an acceptable text rendering of the number `j` (as the `-o json` run of the same query
/// shows it)?  A double: its exact value to two decimals; the sign of a zero result is not decided
/// by the property ("-0.00" and "0.00" both pass); an integral value may come without decimals.
fn text_shows(j: &J, text: &str) -> bool {
    let unsigned = |t: &str| t.trim_start_matches('-').to_string();
    match j {
        J::Int(g) => {
            let w = format!("{}", g);
            text == w || text == format!("{}.00", w) || (*g == 0 && (text == "-0" || text == "-0.00"))
        }
        J::Float(f) if f.is_finite() => {
            let w = exact_fixed2(*f);
            if text == w {
                return true;
            }
            if unsigned(&w) == "0.00" && unsigned(text) == "0.00" {
                return true;
            }
            f.fract() == 0.0 && w.strip_suffix(".00") == Some(text)
        }
        _ => false,
    }
}

/// does the JSON value denote exactly the double `x`?
fn json_is(j: &J, x: f64) -> bool {
    match j {
        J::Float(f) => f.to_bits() == x.to_bits() || (*f == x && x == 0.0),
        J::Int(g) => x.fract() == 0.0 && x.abs() < 9.3e18 && (x as i128) == (*g as i128),
        _ => false,
    }
}

fn json_num(j: &J) -> Option<f64> {
    match j {
        J::Float(f) => Some(*f),
        J::Int(g) => Some(*g as f64),
        _ => None,
    }
}

/// a finite non-zero double from the classes where a two-decimal rendering can go wrong: a 5 in the
/// third decimal place (the double lies just below or above the decimal tie), exact binary ties (odd
/// eighths), 15–17 significant digits with a fraction, magnitudes 1e-9..1e15, values that round to
/// ±0.00, neighbours of all of these; `wide` adds magnitudes up to f64::MAX and down to 5e-324
fn tricky_double(r: &mut Rng, wide: bool) -> f64 {
    fn ip(r: &mut Rng, maxd: usize) -> String {
        let n = r.below(maxd + 1);
        if n == 0 {
            "0".into()
        } else {
            digits(r, n)
        }
    }
    let p = |s: String| -> f64 { s.parse::<f64>().unwrap_or(0.125) };
    let mut x = match r.below(if wide { 15 } else { 12 }) {
        0 | 1 => {
            let (i, c) = (ip(r, 7), r.below(100));
            p(format!("{}.{:02}5", i, c))
        }
        2 => {
            let n = 8 + r.below(6);
            let (i, c) = (digits(r, n), r.below(100));
            p(format!("{}.{:02}5", i, c))
        }
        3 => {
            let n = r.next() >> (20 + r.below(40));
            (n as f64 * 8.0 + [1.0, 3.0, 5.0, 7.0][r.below(4)]) / 8.0
        }
        4 => {
            let j = 1 + r.below(20);
            let k = r.next() >> (24 + r.below(30));
            k as f64 / (1u64 << j) as f64
        }
        5 => {
            let n = 11 + r.below(5);
            let (i, f) = (digits(r, n), dg(r, 1, 4));
            p(format!("{}.{}", i, f))
        }
        6 => {
            let (i, f) = (ip(r, 3), dg(r, 12, 6));
            p(format!("{}.{}", i, f))
        }
        7 => {
            let (d, f, e) = (1 + r.below(9), dg(r, 1, 8), r.range(-9, 14));
            p(format!("{}.{}e{}", d, f, e))
        }
        8 => {
            if r.chance(50) {
                p(format!("0.00{}", *r.pick(&["1", "4", "49", "4999999999999999", "5", "50000000000000001", "51", "6", "9", "09", "009", "0000001", "000000001"])))
            } else {
                let f = dg(r, 1, 10);
                p(format!("0.00{}", f))
            }
        }
        9 => {
            let (i, c) = (ip(r, 6), r.below(100));
            p(format!("{}.{:02}{}", i, c, *r.pick(&["49999999999", "4999999999999999", "50000000001", "5000000000000001", "99999999999", "9999999999999999", "00000000001", "51", "49"])))
        }
        10 => {
            let e = (1023 - 34 + r.below(85)) as u64;
            f64::from_bits((r.next() >> 12) | (e << 52))
        }
        11 => {
            let (i, f) = (ip(r, 9), dg(r, 1, 2));
            p(format!("{}.{}", i, f))
        }
        12 | 13 => match r.below(3) {
            0 => {
                let e = (1023 + 50 + r.below(974)) as u64;
                f64::from_bits((r.next() >> 12) | (e << 52))
            }
            1 => {
                let (m, e) = (dg(r, 1, 17), r.range(16, 290));
                p(format!("{}e{}", m, e))
            }
            _ => *r.pick(&[f64::MAX, 1e307, 1.8e306, 1.7e306, 1e300, 9223372036854775808.0, 18446744073709551616.0, 1e16, 9007199254740994.0, 4503599627370497.5, 2251799813685248.25, 1e22, 1e23]),
        },
        _ => match r.below(3) {
            0 => {
                let e = r.below(1023 - 34) as u64;
                f64::from_bits((r.next() >> 12) | (e << 52))
            }
            1 => {
                let (m, e) = (dg(r, 1, 17), r.range(-320, -10));
                p(format!("{}e{}", m, e))
            }
            _ => *r.pick(&[5e-324, 1e-300, 2.2250738585072014e-308, 2.225073858507201e-308, 1e-10, 4.9e-3]),
        },
    };
    // neighbours (1–3 units in the last place): ties become near-ties
    if r.chance(15) {
        let d = 1 + r.below(3) as u64;
        x = f64::from_bits(if r.chance(50) { x.to_bits().saturating_add(d) } else { x.to_bits().saturating_sub(d) });
    }
    if !x.is_finite() || x == 0.0 {
        x = 0.125;
    }
    if r.chance(35) {
        -x
    } else {
        x
    }
}

/// a spelling of `x` that reads back as exactly `x` (shortest round trip, exponent form, 17
/// significant digits, plain decimal)
fn float_literal(r: &mut Rng, x: f64) -> String {
    let lit = match r.below(4) {
        0 => format!("{:?}", x),
        1 => format!("{:e}", x),
        2 => format!("{:.16e}", x),
        _ => format!("{}", x),
    };
    // an integer spelling within the 64-bit range names that INTEGER ("integers within the 64-bit
    // range stay exact"): beyond 2^53 the shortest digits of a double are not the double's value
    let names_other_integer = lit.parse::<i64>().map(|i| x.fract() != 0.0 || (x as i128) != (i as i128)).unwrap_or(false);
    if !names_other_integer && lit.parse::<f64>().map(|y| y.to_bits() == x.to_bits()).unwrap_or(false) {
        lit
    } else {
        format!("{:?}", x)
    }
}

/// what a cell of the result must be
enum Want {
    /// exactly this double
    Exact(f64),
    /// this value up to the given absolute error (order of a floating-point summation is not fixed)
    Near(f64, f64),
}

/// one input line with the given fields, in the spelling of the extraction route; returns the
/// line and the query stage(s) that extract the fields.  `text` fields are numbers given as text
/// (`num()` coerces them into the column of the same name without the trailing underscore).
fn route_line(route: usize, fields: &[(&str, String)], k: Option<&str>) -> String {
    let mut s = String::new();
    match route {
        0 | 1 => {
            s.push('{');
            for (i, (n, v)) in fields.iter().enumerate() {
                if i > 0 {
                    s.push(',');
                }
                if route == 1 {
                    s.push_str(&format!("\"{}_\":\"{}\"", n, v));
                } else {
                    s.push_str(&format!("\"{}\":{}", n, v));
                }
            }
            if let Some(k) = k {
                s.push_str(&format!(",\"k\":\"{}\"", k));
            }
            s.push('}');
        }
        2 => {
            for (i, (n, v)) in fields.iter().enumerate() {
                if i > 0 {
                    s.push(' ');
                }
                s.push_str(&format!("{}={}", n, v));
            }
            if let Some(k) = k {
                s.push_str(&format!(" k={}", k));
            }
        }
        _ => {
            s.push_str("took");
            for (n, v) in fields.iter() {
                s.push_str(&format!(" {}={} u", n, v));
            }
            if let Some(k) = k {
                s.push_str(&format!(" k={}", k));
            }
            s.push_str(" end");
        }
    }
    s.push('\n');
    s
}

fn route_stage(route: usize, names: &[&str], with_k: bool) -> String {
    match route {
        0 => "json".to_string(),
        1 => {
            let mut s = "json".to_string();
            for n in names {
                s.push_str(&format!(" | num({}_) as {}", n, n));
            }
            s
        }
        2 => "logfmt".to_string(),
        _ => {
            let mut pat = String::new();
            let mut cols: Vec<String> = vec![];
            for n in names {
                pat.push_str(&format!("{}=* u ", n));
                cols.push(n.to_string());
            }
            if with_k {
                pat.push_str("k=* end");
                cols.push("k".into());
            } else {
                pat = pat.trim_end().to_string();
            }
            format!("parse \"{}\" as {}", pat, cols.join(", "))
        }
    }
}

/// `[a=1.00]    [b=x]` → [(a, 1.00), (b, x)]
fn legacy_record_fields(line: &str) -> Vec<(String, String)> {
    let mut out = vec![];
    let mut rest = line;
    while let Some(i) = rest.find('[') {
        let after = &rest[i + 1..];
        let j = match after.find(']') {
            Some(j) => j,
            None => break,
        };
        let cell = &after[..j];
        if let Some(eq) = cell.find('=') {
            out.push((cell[..eq].to_string(), cell[eq + 1..].to_string()));
        }
        rest = &after[j + 1..];
    }
    out
}

/// the rows of a text-mode output as (column, text) lists; None when the output has no such shape
fn text_rows(mode: &str, stdout: &[u8], table: bool, fmt_cols: &[String]) -> Option<Vec<Vec<(String, String)>>> {
    let text = String::from_utf8(stdout.to_vec()).ok()?;
    let lines: Vec<&str> = text.lines().filter(|l| !l.is_empty()).collect();
    if mode == "legacy" && table {
        if lines.len() < 2 || lines[1].is_empty() || !lines[1].chars().all(|c| c == '-') {
            return None;
        }
        let header: Vec<&str> = lines[0].split_whitespace().collect();
        let mut rows = vec![];
        for l in &lines[2..] {
            let cells: Vec<&str> = l.split_whitespace().collect();
            if cells.len() != header.len() {
                return None;
            }
            rows.push(header.iter().zip(cells.iter()).map(|(h, c)| (h.to_string(), c.to_string())).collect());
        }
        Some(rows)
    } else if mode == "legacy" {
        Some(lines.iter().map(|l| legacy_record_fields(l)).collect())
    } else if mode == "logfmt" {
        Some(lines.iter().map(|l| l.split_whitespace().filter_map(|c| c.split_once('=')).map(|(a, b)| (a.to_string(), b.to_string())).collect()).collect())
    } else {
        let mut rows = vec![];
        for l in &lines {
            let cells: Vec<&str> = l.split('|').collect();
            if cells.len() != fmt_cols.len() {
                return None;
            }
            rows.push(fmt_cols.iter().zip(cells.iter()).map(|(h, c)| (h.clone(), c.to_string())).collect());
        }
        Some(rows)
    }
}

/// Run `q` over `input` with `-o json` and in every text mode (default/legacy, logfmt, format=) and
/// judge: (1) the JSON run shows the wanted doubles — bit for bit where the value is determined,
/// within the rounding of a summation otherwise; (2) every text cell of a numeric column is the
/// exact two-decimal rendering of the double the JSON run shows in that cell.
/// `rows`: the wanted rows — records in input order, or groups identified by column `k`.
/// Ok(cells judged) | Err((what, detail)); Err with what == "" means the case could not be judged.
fn judge_text(q: &str, input: &[u8], table: bool, by_k: bool, rows: &[(Option<String>, Vec<(String, Want)>)]) -> Result<usize, (String, String)> {
    let find_row = |got: &[Vec<(String, J)>], i: usize, k: &Option<String>| -> Option<Vec<(String, J)>> {
        if by_k {
            let k = k.clone()?;
            let mut m = got.iter().filter(|row| row.iter().any(|c| c.0 == "k" && c.1 == J::Str(k.clone())));
            let first = m.next().cloned();
            if m.next().is_some() {
                return None;
            }
            first
        } else {
            got.get(i).cloned()
        }
    };
    let rj = imp::run(q, input, "json", 20);
    if rj.hung {
        return Err((String::new(), "the -o json run did not finish in 20 s".into()));
    }
    if !rj.compiled || rj.panicked.is_some() || (rj.error_lines > 0 && !rj.contaminated) {
        return Err(("the query failed on plain numeric input".into(), format!("compiled={} panicked={:?} stderr={}", rj.compiled, rj.panicked, clip(&rj.stderr))));
    }
    let out = String::from_utf8_lossy(&rj.stdout).to_string();
    let jrows: Vec<Vec<(String, J)>> = if table {
        match canon::parse(out.trim_end()) {
            Ok(J::Arr(rs)) => rs.into_iter().filter_map(|r| if let J::Obj(kvs) = r { Some(kvs) } else { None }).collect(),
            _ => return Err(("the -o json output of an aggregate is not an array of rows".into(), clip(&out))),
        }
    } else {
        let mut v = vec![];
        for l in out.lines().filter(|l| !l.is_empty()) {
            match canon::parse(l) {
                Ok(J::Obj(kvs)) => v.push(kvs),
                _ => return Err(("a line of the -o json output is not an object".into(), clip(l))),
            }
        }
        v
    };
    if jrows.len() != rows.len() {
        return Err(("the -o json output has the wrong number of rows".into(), format!("wanted {} got {}: {}", rows.len(), jrows.len(), clip(&out))));
    }
    // (1) the values
    let mut shown: Vec<Vec<(String, J)>> = vec![];
    for (i, (k, cells)) in rows.iter().enumerate() {
        let jr = match find_row(&jrows, i, k) {
            Some(r) => r,
            None => return Err(("the -o json output lacks the row of a group".into(), format!("k={:?}: {}", k, clip(&out)))),
        };
        let mut sh = vec![];
        for (col, want) in cells {
            let j = match jr.iter().find(|c| &c.0 == col) {
                Some(c) => c.1.clone(),
                None => return Err(("a column is missing from the -o json output".into(), format!("column {}: {}", col, clip(&out)))),
            };
            let ok = match want {
                Want::Exact(x) => json_is(&j, *x),
                Want::Near(x, tol) => json_num(&j).map(|g| g.is_finite() && (g - x).abs() <= *tol).unwrap_or(false),
            };
            if !ok {
                let w = match want {
                    Want::Exact(x) => format!("exactly {:?} (bits {:016x})", x, x.to_bits()),
                    Want::Near(x, tol) => format!("{:?} ± {:e}", x, tol),
                };
                return Err(("JSON output does not show the number's double value".into(), format!("row {} column {}: wanted {}, -o json shows {:?}", i, col, w, j)));
            }
            sh.push((col.clone(), j));
        }
        shown.push(sh);
    }
    // (2) the text modes
    let cols: Vec<String> = {
        let mut c: Vec<String> = rows[0].1.iter().map(|c| c.0.clone()).collect();
        if by_k {
            c.push("k".into());
        }
        c
    };
    let fmt = format!("format={}", cols.iter().map(|c| format!("{{{}}}", c)).collect::<Vec<_>>().join("|"));
    let mut judged = 0;
    for mode in ["legacy", "logfmt", fmt.as_str()] {
        let rt = imp::run(q, input, mode, 20);
        if rt.hung {
            return Err((String::new(), format!("the -o {} run did not finish in 20 s", mode)));
        }
        let shown_mode = if mode == "legacy" { "default text".to_string() } else { format!("-o {}", mode) };
        if rt.panicked.is_some() || !rt.compiled {
            return Err(("the query failed in a text output mode".into(), format!("{}: panicked={:?}", shown_mode, rt.panicked)));
        }
        let trows = match text_rows(mode, &rt.stdout, table, &cols) {
            Some(t) if t.len() == rows.len() => t,
            _ => return Err(("text output has the wrong shape (rows / cells)".into(), format!("{}: {}", shown_mode, clip(&String::from_utf8_lossy(&rt.stdout))))),
        };
        for (i, (k, _)) in rows.iter().enumerate() {
            let tr: Vec<(String, String)> = if by_k {
                let k = k.clone().unwrap_or_default();
                match trows.iter().find(|row| row.iter().any(|c| c.0 == "k" && c.1 == k)) {
                    Some(r) => r.clone(),
                    None => return Err(("text output lacks the row of a group".into(), format!("{}: k={}: {}", shown_mode, k, clip(&String::from_utf8_lossy(&rt.stdout))))),
                }
            } else {
                trows[i].clone()
            };
            for (col, j) in &shown[i] {
                let text = match tr.iter().find(|c| &c.0 == col) {
                    Some(c) => c.1.clone(),
                    None => return Err(("a column is missing from the text output".into(), format!("{}: column {}: {}", shown_mode, col, clip(&String::from_utf8_lossy(&rt.stdout))))),
                };
                judged += 1;
                if !text_shows(j, &text) {
                    let want = match j {
                        J::Float(f) => exact_fixed2(*f),
                        other => format!("{:?}", other),
                    };
                    return Err((
                        "text output is not the number's value correctly rounded to two decimals".into(),
                        format!("{}: row {} column {}: printed `{}`, the value is {:?} (as -o json shows it), to two decimals `{}`", shown_mode, i, col, clip(&text), j, clip(&want)),
                    ));
                }
            }
        }
    }
    Ok(judged)
}

fn report_text(ctx: &mut Ctx, family: &str, q: &str, input: &[u8], res: Result<usize, (String, String)>) {
    let key = ckey(q, input);
    let info = serde_json::json!({"query": q, "input": String::from_utf8_lossy(input)});
    match res {
        Ok(_) => ctx.case(family, &key, "pass", info),
        Err((what, detail)) if what.is_empty() => ctx.case(family, "", "skip", serde_json::json!({"why": "run timed out (machine busy)", "detail": detail})),
        Err((what, detail)) => ctx.case(family, &key, "viol", serde_json::json!({"class": "", "what": what, "detail": detail, "case": info})),
    }
}

/// (g1) plain records: extraction (json / num() of text / logfmt / parse) → [fields] → text
fn text_record_case(ctx: &mut Ctx, r: &mut Rng) {
    let route = r.below(4);
    let nrec = 1 + r.below(3);
    let with_k = r.chance(60);
    let mut input = String::new();
    let mut rows = vec![];
    for _ in 0..nrec {
        // legacy/logfmt/format records carry numbers of any magnitude (no table cell to fit)
        let wide = r.chance(25);
        let x = tricky_double(r, wide);
        let lit = float_literal(r, x);
        let x = lit.parse::<f64>().unwrap_or(x);
        input.push_str(&route_line(route, &[("v", lit)], if with_k { Some(*r.pick(&["a", "b", "c"])) } else { None }));
        rows.push((None, vec![("v".to_string(), Want::Exact(x))]));
    }
    let tail = *r.pick(&["", " | fields v", " | fields k, v", " | fields + v", " | fields - k"]);
    let q = format!("* | {}{}", route_stage(route, &["v"], with_k), tail);
    let res = judge_text(&q, input.as_bytes(), false, false, &rows);
    report_text(ctx, "text-two-decimals-record", &q, input.as_bytes(), res);
}

/// (g2) results of arithmetic: `a op b as s | s op c as t | v * N as p`
fn text_arith_case(ctx: &mut Ctx, r: &mut Rng) {
    let route = *r.pick(&[0usize, 0, 1, 2, 3]);
    let nrec = 1 + r.below(2);
    let ops = ["+", "-", "*", "/"];
    let (op1, op2) = (*r.pick(&ops), *r.pick(&["+", "-", "+", "-", "*", "/"]));
    let n: i64 = *r.pick(&[2, 3, 7, 10, 100, 1000, 8, 5]);
    let nop = *r.pick(&["*", "/", "+", "-"]);
    let apply = |op: &str, a: f64, b: f64| match op {
        "+" => a + b,
        "-" => a - b,
        "*" => a * b,
        _ => a / b,
    };
    let mut input = String::new();
    let mut rows = vec![];
    for _ in 0..nrec {
        // both operands integral would take the integer path (exactness is the business of the
        // `pipeline` families): keep one side of every operation fractional
        let frac = |r: &mut Rng| loop {
            let x = tricky_double(r, false);
            if x.fract() != 0.0 {
                return x;
            }
        };
        let a = tricky_double(r, false);
        let (b, c) = (frac(r), frac(r));
        // sometimes the pair is made to meet in a tie: b = (tie − a)
        let b = if r.chance(25) {
            let t = (r.range(-4000, 4000) as f64 * 8.0 + [1.0, 3.0, 5.0, 7.0][r.below(4)]) / 8.0;
            let d = t - a;
            if d.fract() != 0.0 && d.is_finite() {
                d
            } else {
                b
            }
        } else {
            b
        };
        let (la, lb, lc) = (float_literal(r, a), float_literal(r, b), float_literal(r, c));
        let (a, b, c) = (la.parse::<f64>().unwrap_or(a), lb.parse::<f64>().unwrap_or(b), lc.parse::<f64>().unwrap_or(c));
        let s = apply(op1, a, b);
        let t = apply(op2, s, c);
        let p = apply(nop, c, n as f64);
        if ![s, t, p].iter().all(|v| v.is_finite()) {
            continue;
        }
        input.push_str(&route_line(route, &[("a", la), ("b", lb), ("c", lc)], None));
        rows.push((None, vec![("a".to_string(), Want::Exact(a)), ("b".to_string(), Want::Exact(b)), ("c".to_string(), Want::Exact(c)), ("s".to_string(), Want::Exact(s)), ("t".to_string(), Want::Exact(t)), ("p".to_string(), Want::Exact(p))]));
    }
    if rows.is_empty() {
        return;
    }
    let tail = *r.pick(&["", "", " | fields s, t, p, a, b, c", " | fields - zz"]);
    let q = format!("* | {} | a {} b as s | s {} c as t | c {} {} as p{}", route_stage(route, &["a", "b", "c"], false), op1, op2, nop, n, tail);
    let res = judge_text(&q, input.as_bytes(), false, false, &rows);
    report_text(ctx, "text-two-decimals-arith", &q, input.as_bytes(), res);
}

/// (g3) aggregate tables: sum / avg / max / min [by k], aliased or with the default column names
fn text_agg_case(ctx: &mut Ctx, r: &mut Rng) {
    let route = *r.pick(&[0usize, 0, 1, 2, 3]);
    let nrec = 1 + r.below(6);
    let by_k = r.chance(60);
    let keys = ["a", "b", "c"];
    let mut input = String::new();
    let mut groups: Vec<(String, Vec<f64>)> = vec![];
    // one magnitude class per case more often than not (sums of cents, sums of large amounts …)
    for _ in 0..nrec {
        let x = tricky_double(r, false);
        let lit = float_literal(r, x);
        let x = lit.parse::<f64>().unwrap_or(x);
        let k = if by_k { keys[r.below(3)] } else { "a" };
        input.push_str(&route_line(route, &[("v", lit)], if by_k { Some(k) } else { None }));
        match groups.iter_mut().find(|g| g.0 == k) {
            Some(g) => g.1.push(x),
            None => groups.push((k.to_string(), vec![x])),
        }
    }
    let aliased = r.chance(70);
    let all = [("sum(v)", "s", "_sum"), ("avg(v)", "a", "_average"), ("max(v)", "hi", "_max"), ("min(v)", "lo", "_min"), ("count", "n", "_count")];
    let mut picked: Vec<(&str, &str, &str)> = all.iter().filter(|_| r.chance(55)).cloned().collect();
    if picked.is_empty() {
        picked.push(all[r.below(4)]);
    }
    let spec: Vec<String> = picked.iter().map(|(f, a, _)| if aliased { format!("{} as {}", f, a) } else { f.to_string() }).collect();
    let q = format!("* | {} | {}{}", route_stage(route, &["v"], by_k), spec.join(", "), if by_k { " by k" } else { "" });
    let mut rows = vec![];
    for (k, vals) in &groups {
        let n = vals.len() as f64;
        let sum: f64 = vals.iter().sum();
        let mag: f64 = vals.iter().map(|v| v.abs()).sum();
        // any order of a floating-point summation of n terms is within (n-1)·2^-53·Σ|v| of the true
        // sum (to first order): a generous multiple of that
        let tol = 64.0 * n * mag * 2f64.powi(-53);
        let mut cells = vec![];
        for (f, a, d) in &picked {
            let col = if aliased { a.to_string() } else { d.to_string() };
            let want = match *f {
                "sum(v)" => Want::Near(sum, tol),
                "avg(v)" => Want::Near(sum / n, tol / n + (sum / n).abs() * 2f64.powi(-50)),
                "max(v)" => Want::Exact(vals.iter().cloned().fold(f64::NEG_INFINITY, f64::max)),
                "min(v)" => Want::Exact(vals.iter().cloned().fold(f64::INFINITY, f64::min)),
                _ => Want::Exact(n),
            };
            cells.push((col, want));
        }
        rows.push((if by_k { Some(k.clone()) } else { None }, cells));
    }
    let res = judge_text(&q, input.as_bytes(), true, by_k, &rows);
    report_text(ctx, "text-two-decimals-aggregate", &q, input.as_bytes(), res);
}

/// the average of integers: the exact sum (well inside ±2^53) divided by the count.  When the
/// mean is itself an integer it must come out as exactly that integer ("integers … stay exact …
/// through … aggregation"); otherwise as a double next to the correctly rounded quotient —
/// whatever the order of the rows and however the running state is kept.
fn check_avg_of_integers(ctx: &mut Ctx) {
    let n = ctx.budget(500, 20000);
    for _ in 0..n {
        let mut r = ctx.rng.fork();
        let rows = 2 + r.below(9);
        let big = r.chance(20);
        let vals: Vec<i64> = (0..rows).map(|_| if big { r.range(-(1 << 40), 1 << 40) } else { r.range(-6, 14) }).collect();
        // make the mean integral in half of the cases by adjusting the last value
        let mut vals = vals;
        if r.chance(50) {
            let s: i64 = vals.iter().sum();
            let m = s.rem_euclid(rows as i64);
            let last = vals.len() - 1;
            vals[last] -= m;
        }
        let spell = |v: i64, r: &mut Rng| match r.below(4) {
            0 => format!("\"{}\"", v),
            1 => format!("{}.0", v),
            _ => format!("{}", v),
        };
        let input: String = vals.iter().map(|v| format!("{{\"v\":{},\"k\":\"g\"}}\n", spell(*v, &mut r))).collect();
        let q = (*r.pick(&["* | json | avg(v) as a", "* | json | average(v) as a", "* | json | avg(v) as a by k | fields a", "* | json | avg(v) as a, count, sum(v) as s | fields a", "* | json | avg(v + 0) as a"])).to_string();
        let key = ckey(&q, input.as_bytes());
        let info = serde_json::json!({"query": q, "input": input});
        let run = imp::run(&q, input.as_bytes(), "json", 10);
        if !run.compiled || run.panicked.is_some() || run.hung {
            ctx.case("avg-of-integers", "", "skip", serde_json::json!({"why": "rejected or crashed (judged elsewhere)", "case": info}));
            continue;
        }
        let got = match canon::parse(String::from_utf8_lossy(&run.stdout).trim_end()) {
            Ok(J::Arr(rows)) => rows.first().and_then(|row| match row { J::Obj(kvs) => kvs.iter().find(|kv| kv.0 == "a").map(|kv| kv.1.clone()), _ => None }),
            _ => None,
        };
        let sum: i64 = vals.iter().sum();
        let cnt = vals.len() as i64;
        let verdict: Result<(), String> = match got {
            None => Err("no value for the average".into()),
            Some(j) => {
                let text = format!("{:?}", j);
                let as_f = match &j { J::Int(i) => Some(*i as f64), J::Float(f) => Some(*f), _ => None };
                if sum % cnt == 0 {
                    let want = sum / cnt;
                    match &j {
                        J::Int(i) if *i == want => Ok(()),
                        J::Float(f) if *f == want as f64 => Ok(()),
                        _ => Err(format!("the mean of these integers is exactly {}, the result is {}", want, text)),
                    }
                } else {
                    let want = sum as f64 / cnt as f64; // both exact, IEEE division: correctly rounded
                    match as_f {
                        Some(f) if (f - want).abs() <= (want.abs() * f64::EPSILON) => Ok(()),
                        _ => Err(format!("the mean is {:?} (exact sum {} over {}), the result is {}", want, sum, cnt, text)),
                    }
                }
            }
        };
        match verdict {
            Ok(()) => ctx.case("avg-of-integers", &key, "pass", info),
            Err(w) => ctx.case("avg-of-integers", &key, "viol", serde_json::json!({"class": "", "what": w, "got": String::from_utf8_lossy(&run.stdout), "case": info})),
        }
    }
}

pub fn check(ctx: &mut Ctx) {
    check_avg_of_integers(ctx);
    let n = ctx.budget(6000, 400000);
    for i in 0..n {
        let mut r = ctx.rng.fork();
        match i % 4 {
            // ---- (a) JSON number literal → `json` → -o json
            0 => {
                let lit = json_number(&mut r);
                let input = format!("{{\"v\":{}}}\n", lit).into_bytes();
                let res = imp::run("* | json", &input, "json", 10);
                let key = format!("json:{}", lit);
                let got = first_field(&res.stdout, "v");
                // expectation from the literal itself
                let as_int: Option<i64> = lit.parse::<i64>().ok();
                let as_f: f64 = lit.parse::<f64>().unwrap_or(f64::NAN);
                let ok = match (&got, as_int) {
                    (Some(J::Int(g)), Some(w)) => *g == w,
                    (Some(J::Int(g)), None) => as_f.fract() == 0.0 && as_f.abs() < 9.3e18 && (*g as f64) == as_f && format!("{}", g).trim_start_matches('-').len() <= 16,
                    (Some(J::Float(g)), None) => g.to_bits() == as_f.to_bits(),
                    (Some(J::Float(g)), Some(w)) => false && *g == w as f64,
                    (None, _) => !as_f.is_finite() || res.stdout.is_empty() && as_f.is_infinite(),
                    _ => false,
                };
                // a float whose value is integral prints as an integer ("integral results shown as integers"):
                // accept Int(g) for a non-integer literal only when the double is exactly that integer
                let ok = ok || matches!((&got, as_int), (Some(J::Int(g)), None) if as_f.fract() == 0.0 && as_f >= -9.223372036854775808e18 && as_f < 9.223372036854775808e18 && *g == as_f as i64);
                if ok {
                    ctx.case("json-literal", &key, "pass", serde_json::json!({"literal": lit}));
                } else {
                    let class = if lit.len() > 17 && matches!(got, Some(J::Float(_))) { "C08/serde-json-float-parse-imprecise" } else { "" };
                    ctx.case("json-literal", &key, "viol", serde_json::json!({"class": class, "what": "a JSON number did not keep its value", "literal": lit, "got": format!("{:?}", got), "expected_f64_bits": format!("{:016x}", as_f.to_bits())}));
                }
                // F-level through RUN
                let c = run_both(ctx, "* | json", &input);
                match compare(&c, true) {
                    F::Agree => ctx.case("json-literal-model", &key, "pass", serde_json::json!({"literal": lit})),
                    F::Skip(w) => ctx.case("json-literal-model", "", "skip", serde_json::json!({"why": w})),
                    F::Disagree(d) => {
                        // beyond 15 significant digits serde_json's default parser may be 1 ulp off the
                        // correctly rounded value the model defines: judged at P-level above
                        if lit.trim_start_matches('-').replace('.', "").split(|c| c == 'e' || c == 'E').next().unwrap_or("").trim_start_matches('0').len() > 15 {
                            ctx.case("json-literal-model", "", "skip", serde_json::json!({"why": "long mantissa (serde_json rounding)"}));
                        } else {
                            ctx.case("json-literal-model", &key, "fdis", serde_json::json!({"what": d, "literal": lit}));
                        }
                    }
                }
            }
            // ---- (b) from_string and (c) coercion agreement, model vs implementation and P-level
            1 | 2 => {
                let t = numeric_text(&mut r);
                let key = format!("text:{}", t);
                let fs = Value::from_string(t.as_str());
                let co: Result<f64, _> = (&Value::Str(t.clone())).try_into();
                // F-level
                let m = ctx.drv.ask(&format!("NUMSTR\t{}", enc::hex(&t)));
                let mut want = vec![];
                enc::value(&fs, &mut want);
                let want_co = match &co {
                    Ok(f) => format!("F{:016x}", enc::norm_bits(*f)),
                    Err(_) => "ERR ExpectedNumber".to_string(),
                };
                let expect = format!("FS {}\tCO {}", want.join(" "), want_co);
                if m.contains("SKIP") {
                    ctx.case("numstr-model", "", "skip", serde_json::json!({"why": "non-ascii digits"}));
                } else if m != expect {
                    ctx.case("numstr-model", &key, "fdis", serde_json::json!({"what": format!("from_string/coercion: implementation `{}` model `{}`", expect, m), "text": t}));
                } else {
                    ctx.case("numstr-model", &key, "pass", serde_json::json!({"text": t}));
                }
                // P-level: text that auto-converts to N also coerces to N
                if let Some(nv) = value_num(&fs) {
                    let same = matches!(co, Ok(c) if c.to_bits() == nv.to_bits() || (c == nv));
                    if same {
                        ctx.case("coercion", &key, "pass", serde_json::json!({"text": t, "value": nv}));
                    } else {
                        ctx.case("coercion", &key, "viol", serde_json::json!({"class": "C08/coercion-strips-sign-exponent", "what": "text that auto-converts to a number coerces to a different number", "text": t, "from_string": format!("{:?}", fs), "coerced": format!("{:?}", co)}));
                    }
                }
                // P-level: integer literal text in range → exactly that Int
                if let Ok(w) = t.trim().parse::<i64>() {
                    if fs != Value::Int(w) {
                        ctx.case("from-string", &key, "viol", serde_json::json!({"class": "", "what": "integer text did not become that integer", "text": t, "got": format!("{:?}", fs)}));
                    }
                }
            }
            // ---- (d) end to end: extraction → arithmetic → aggregate → output
            _ => {
                let k = 2 + r.below(6);
                let vals: Vec<i64> = (0..k).map(|_| match r.below(5) { 0 => r.range(-9007199254740992 / 16, 9007199254740992 / 16), 1 => r.range(-5, 5), _ => r.range(-100000, 100000) }).collect();
                let style = r.below(3);
                let mut input = String::new();
                for v in &vals {
                    match style {
                        0 => input.push_str(&format!("{{\"v\":{}}}\n", v)),
                        1 => input.push_str(&format!("v={} other=x\n", v)),
                        _ => input.push_str(&format!("took v={} units\n", v)),
                    }
                }
                let extract = match style {
                    0 => "json",
                    1 => "logfmt",
                    _ => "parse \"v=* \" as v",
                };
                let q = format!("* | {} | sum(v) as s, min(v) as lo, max(v) as hi, count as c, sum(v * 2) as d", extract);
                let key = ckey(&q, input.as_bytes());
                let res = imp::run(&q, input.as_bytes(), "json", 10);
                let row = match canon::parse(String::from_utf8_lossy(&res.stdout).trim_end()) {
                    Ok(J::Arr(rows)) if rows.len() == 1 => rows[0].clone(),
                    _ => J::Null,
                };
                let get = |name: &str| match &row {
                    J::Obj(kvs) => kvs.iter().find(|kv| kv.0 == name).map(|kv| kv.1.clone()),
                    _ => None,
                };
                let sum: i128 = vals.iter().map(|v| *v as i128).sum();
                let ok = get("s") == Some(J::Int(sum as i64))
                    && get("lo") == Some(J::Int(*vals.iter().min().unwrap()))
                    && get("hi") == Some(J::Int(*vals.iter().max().unwrap()))
                    && get("c") == Some(J::Int(vals.len() as i64))
                    && get("d") == Some(J::Int((sum * 2) as i64));
                let info = serde_json::json!({"query": q, "input": input});
                if ok {
                    ctx.case("pipeline", &key, "pass", info);
                } else {
                    let class = if vals.iter().any(|v| *v < 0) && style != 0 { "C08/coercion-strips-sign-exponent" } else { "" };
                    ctx.case("pipeline", &key, "viol", serde_json::json!({"class": class, "what": "integers did not stay exact through extraction → arithmetic → aggregation → output", "values": vals, "got": format!("{:?}", row), "case": info}));
                }
            }
        }
    }

    // ---- (e) aggregates of integers whose total leaves the i64 range (or the 2^53 range of exact
    // doubles): the result may be a float, but it must be the true total up to double rounding —
    // "never a wrapped, saturated or sign-stripped value"
    let nb = ctx.budget(300, 20000);
    for _ in 0..nb {
        let mut r = ctx.rng.fork();
        let k = 2 + r.below(5);
        let big = [4611686018427387904i64, 4611686018427388928, 9223372036854775807, 4000000000000000000, 9000000000000000000, 9007199254740993, 1152921504606846976, 3];
        let sign = if r.chance(30) { -1i64 } else { 1 };
        let vals: Vec<i64> = (0..k).map(|_| { let v = *r.pick(&big); if r.chance(15) { -v } else { sign * v } }).collect();
        let style = r.below(3);
        let mut input = String::new();
        for (i, v) in vals.iter().enumerate() {
            match style {
                0 => input.push_str(&format!("{{\"v\":{},\"h\":\"{}\"}}\n", v, i % 2)),
                1 => input.push_str(&format!("v={} h={}\n", v, i % 2)),
                _ => input.push_str(&format!("took v={} units h={}\n", v, i % 2)),
            }
        }
        let extract = match style {
            0 => "json",
            1 => "logfmt",
            _ => "parse \"v=* \" as v",
        };
        let q = format!("* | {} | sum(v) as s, avg(v) as a, max(v) as hi, min(v) as lo", extract);
        let key = ckey(&q, input.as_bytes());
        let c = run_both(ctx, &q, input.as_bytes());
        let row = match canon::parse(String::from_utf8_lossy(&c.imp.stdout).trim_end()) {
            Ok(J::Arr(rows)) if rows.len() == 1 => rows[0].clone(),
            _ => J::Null,
        };
        let getf = |name: &str| match &row {
            J::Obj(kvs) => kvs.iter().find(|kv| kv.0 == name).and_then(|kv| match &kv.1 { J::Int(i) => Some(*i as f64), J::Float(f) => Some(*f), _ => None }),
            _ => None,
        };
        let total: i128 = vals.iter().map(|v| *v as i128).sum();
        // sums are accumulated in doubles: the error bound of a floating-point sum is relative to the
        // sum of the magnitudes (cancellation may lose small addends), not to the result
        let mag: f64 = vals.iter().map(|v| (*v as f64).abs()).sum();
        let close = |got: Option<f64>, want: f64| got.map(|g| (g - want).abs() <= 1e-9 * want.abs().max(1.0)).unwrap_or(false);
        let close_sum = |got: Option<f64>, want: f64, scale: f64| got.map(|g| (g - want).abs() <= 1e-9 * scale.max(1.0)).unwrap_or(false);
        let ok = close_sum(getf("s"), total as f64, mag)
            && close_sum(getf("a"), total as f64 / k as f64, mag / k as f64)
            && close(getf("hi"), *vals.iter().max().unwrap() as f64)
            && close(getf("lo"), *vals.iter().min().unwrap() as f64);
        let info = serde_json::json!({"query": q, "input": input, "true_total": total.to_string()});
        if !ok {
            ctx.case("pipeline-big", &key, "viol", serde_json::json!({"class": "", "what": "an aggregate of large integers is not the true value up to double rounding (wrapped, saturated or sign-stripped?)", "values": vals, "got": format!("{:?}", row), "case": info}));
            continue;
        }
        ctx.case("pipeline-big", &key, "pass", info.clone());
        match compare(&c, true) {
            F::Agree => ctx.case("pipeline-big-model", &key, "pass", info),
            F::Skip(w) => ctx.case("pipeline-big-model", "", "skip", serde_json::json!({"why": w})),
            F::Disagree(d) => ctx.case("pipeline-big-model", &key, "fdis", serde_json::json!({"what": d, "case": info})),
        }
    }

    // ---- (f) "text that auto-converts to a number N also coerces to N wherever a number is
    // expected … arithmetic": `a op b` with an operand given as numeric TEXT must equal `a op b`
    // with that operand given as the number — for every operator and on either side
    let nta = ctx.budget(300, 20000);
    for _ in 0..nta {
        let mut r = ctx.rng.fork();
        let nums = ["4", "10", "-3", "2.5", "-1e3", "0.125", "1,000", "7", "100", "-0.5", "3e2", "12"];
        let (a, b) = (*r.pick(&nums), *r.pick(&nums));
        let num_lit = |t: &str| -> String { let v: f64 = t.replace(',', "").parse().unwrap(); if v.fract() == 0.0 && v.abs() < 1e15 { format!("{}", v as i64) } else { format!("{}", v) } };
        let (ta, tb) = match r.below(3) { 0 => (true, false), 1 => (false, true), _ => (true, true) };
        let doc_text = format!("{{\"a\":{},\"b\":{}}}\n", if ta { format!("\"{}\"", a) } else { num_lit(a) }, if tb { format!("\"{}\"", b) } else { num_lit(b) });
        let doc_num = format!("{{\"a\":{},\"b\":{}}}\n", num_lit(a), num_lit(b));
        let q = "* | json | a + b as s | a - b as d | a * b as p | a / b as q | b - a as e | b / a as f | fields s, d, p, q, e, f";
        let key = format!("text-arith:{}:{}:{}{}", a, b, ta, tb);
        let rt = imp::run(q, doc_text.as_bytes(), "json", 10);
        let rn = imp::run(q, doc_num.as_bytes(), "json", 10);
        let info = serde_json::json!({"query": q, "with_text": doc_text, "with_numbers": doc_num});
        let (jt, jn) = (canon::normalized_lines(&rt.stdout), canon::normalized_lines(&rn.stdout));
        if jt.is_some() && jt == jn && rt.error_lines == rn.error_lines {
            ctx.case("text-arith", &key, "pass", info);
        } else {
            ctx.case("text-arith", &key, "viol", serde_json::json!({"class": "", "what": "arithmetic on numeric text differs from the same arithmetic on the numbers", "got_with_text": String::from_utf8_lossy(&rt.stdout), "got_with_numbers": String::from_utf8_lossy(&rn.stdout), "case": info}));
        }
    }

    // ---- (g) "two decimals in text output": the text of a double — in a plain record, after
    // arithmetic, in an aggregate table; default text mode, logfmt and format= — is the exact
    // binary64 value correctly rounded to two decimals, and `-o json` of the same run keeps the
    // double itself
    let ntr = ctx.budget(2400, 90000);
    for i in 0..ntr {
        let mut r = ctx.rng.fork();
        match i % 4 {
            0 | 1 => text_record_case(ctx, &mut r),
            2 => text_arith_case(ctx, &mut r),
            _ => text_agg_case(ctx, &mut r),
        }
    }

    // ---- soft-float and number formatting against the hardware / Rust's formatter (F-level)
    let nf = ctx.budget(3000, 300000);
    for _ in 0..nf {
        let mut r = ctx.rng.fork();
        let pickf = |r: &mut Rng| -> f64 {
            match r.below(6) {
                0 => *r.pick(&[0.0, -0.0, 1.0, -1.0, 0.5, 1.5, 2.5, 0.1, 1e300, -1e300, 5e-324, 9007199254740992.0, 9007199254740993.0, 9.223372036854775807e18, f64::INFINITY, f64::NEG_INFINITY, f64::NAN, 1e-7, 123456.789, 0.005, 0.015, 0.025, 1e21, 1e-5]),
                1 => r.range(-1000, 1000) as f64,
                2 => r.range(-100000, 100000) as f64 / 64.0,
                3 => f64::from_bits(r.next()),
                4 => r.range(-100000, 100000) as f64 / 1000.0,
                _ => (r.range(1, 999) as f64) * 10f64.powi(r.range(-30, 30) as i32),
            }
        };
        let (a, b) = (pickf(&mut r), pickf(&mut r));
        let op = *r.pick(&["add", "sub", "mul", "div", "floor", "ceil", "round", "abs", "fromfloat", "display", "display2", "toi64"]);
        let m = ctx.drv.ask(&format!("F64\t{}\t{:016x}\t{:016x}", op, a.to_bits(), b.to_bits()));
        let bits = |f: f64| format!("F{:016x}", enc::norm_bits(f));
        let want = match op {
            "add" => bits(a + b),
            "sub" => bits(a - b),
            "mul" => bits(a * b),
            "div" => bits(a / b),
            "floor" => bits(a.floor()),
            "ceil" => bits(a.ceil()),
            "round" => bits(a.round()),
            "abs" => bits(a.abs()),
            "toi64" => format!("I{}", a as i64),
            "fromfloat" => {
                let mut t = vec![];
                enc::value(&Value::from_float(a), &mut t);
                format!("VAL {}", t.join(" "))
            }
            "display" => format!("TEXT {}", enc::hex(&format!("{}", a))),
            _ => format!("TEXT {}", enc::hex(&format!("{:.2}", a))),
        };
        let key = format!("{}:{:016x}:{:016x}", op, a.to_bits(), b.to_bits());
        if m == want {
            ctx.case("f64-model", &key, "pass", serde_json::json!({"op": op, "a": a, "b": b}));
        } else {
            ctx.case("f64-model", &key, "fdis", serde_json::json!({"what": format!("{} {:e} {:e}: implementation {} model {}", op, a, b, want, m)}));
        }
    }
}
