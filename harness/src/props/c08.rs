//! C08: numbers are never silently corrupted.
//! P-level (real code only): a numeric literal keeps its value through extraction, coercion,
//! arithmetic, aggregation and output — judged against Rust's own correctly rounded parse of the
//! literal / exact i128 arithmetic.  F-level: from_string / coercion / soft-float / formatting of
//! the Lean model against the real code and the hardware.
use super::common::*;
use crate::canon::{self, J};
use crate::enc;
use crate::imp;
use crate::rng::Rng;
use crate::Ctx;
use ag::data::Value;

fn digits(r: &mut Rng, n: usize) -> String {
    let mut s = String::new();
    for i in 0..n {
        let d = if i == 0 && n > 1 { 1 + r.below(9) } else { r.below(10) };
        s.push((b'0' + d as u8) as char);
    }
    s
}

fn dg(r: &mut Rng, lo: usize, span: usize) -> String {
    let n = lo + r.below(span);
    digits(r, n)
}

/// a JSON number literal: integers around every boundary, fractions, exponents
fn json_number(r: &mut Rng) -> String {
    let neg = if r.chance(35) { "-" } else { "" };
    match r.below(10) {
        0 => format!("{}{}", neg, *r.pick(&["0", "1", "2147483647", "2147483648", "4294967296", "9007199254740991", "9007199254740992", "9007199254740993", "9223372036854775807", "9223372036854775808", "18446744073709551615", "18446744073709551616", "123456789012345678901234567890"])),
        1 => format!("{}{}", neg, dg(r, 1, 19)),
        2 => format!("{}{}.{}", neg, dg(r, 1, 6), dg(r, 1, 6)),
        3 => format!("{}{}e{}", neg, dg(r, 1, 3), r.range(-20, 20)),
        4 => format!("{}{}.{}e{}", neg, digits(r, 1), dg(r, 1, 14), r.range(-300, 300)),
        5 => format!("{}{}", neg, *r.pick(&["1e-300", "1e300", "5e-324", "1.7976931348623157e308", "2.2250738585072014e-308", "0.1", "0.30000000000000004", "1e22", "1e23", "123456789.123456789", "0.000000000000000000001"])),
        6 => format!("{}{}.0", neg, dg(r, 1, 10)),
        7 => format!("{}0.{}", neg, dg(r, 1, 17)),
        8 => format!("{}{}", neg, dg(r, 16, 4)),
        _ => format!("{}{}E+{}", neg, dg(r, 1, 2), r.range(0, 30)),
    }
}

/// text that may or may not look like a number (for from_string / coercion)
fn numeric_text(r: &mut Rng) -> String {
    // any of the forms below with blanks or tabs around it (column-aligned text, JSON strings)
    if r.chance(15) {
        let inner = numeric_text_plain(r);
        let pad = |r: &mut Rng| r.pick(&["", " ", "  ", "\t", " \t"]).to_string();
        return format!("{}{}{}", pad(r), inner, pad(r));
    }
    numeric_text_plain(r)
}

fn numeric_text_plain(r: &mut Rng) -> String {
    match r.below(16) {
        0 => format!("-{}", dg(r, 1, 5)),
        1 => format!("+{}", dg(r, 1, 5)),
        2 => format!("{}e{}", digits(r, 1), r.range(0, 6)),
        3 => format!("{}.{}", dg(r, 1, 3), dg(r, 1, 3)),
        4 => format!("-{}.{}", dg(r, 1, 3), dg(r, 1, 3)),
        5 => format!(" {} ", dg(r, 1, 4)),
        6 => format!("{},{}", dg(r, 1, 3), digits(r, 3)),
        7 => format!("{},{}.{}", dg(r, 1, 3), digits(r, 3), digits(r, 2)),
        8 => r.pick(&["inf", "-inf", "NaN", "nan", "infinity", "true", "false", "0x1f", "1_000", ".5", "5.", "-.5", "--1", "1e", "e5", "", " ", "١٢٣", "½", "1e999", "-0", "007", "9223372036854775808", "-9223372036854775809", "1.5e3", "2E2", "1e-2"]).to_string(),
        9 => format!("{}{}", dg(r, 1, 3), r.pick(&["ms", "%", "kb", " apples"])),
        10 => format!("${}", dg(r, 1, 3)),
        11 => format!("-{}e-{}", digits(r, 1), r.range(1, 5)),
        12 => dg(r, 18, 4),
        _ => dg(r, 1, 9),
    }
}

fn first_field(stdout: &[u8], key: &str) -> Option<J> {
    let lines = canon::normalized_lines(stdout)?;
    match lines.first()? {
        J::Obj(kvs) => kvs.iter().find(|kv| kv.0 == key).map(|kv| kv.1.clone()),
        _ => None,
    }
}

fn value_num(v: &Value) -> Option<f64> {
    match v {
        Value::Int(i) => Some(*i as f64),
        Value::Float(f) => Some(f.0),
        _ => None,
    }
}

pub fn check(ctx: &mut Ctx) {
    let n = ctx.budget(6000, 400000);
    for i in 0..n {
        let mut r = ctx.rng.fork();
        match i % 4 {
            // ---- (a) JSON number literal → `json` → -o json
            0 => {
                let lit = json_number(&mut r);
                let input = format!("{{\"v\":{}}}\n", lit).into_bytes();
                let res = imp::run("* | json", &input, "json", 10);
                let key = format!("json:{}", lit);
                let got = first_field(&res.stdout, "v");
                // expectation from the literal itself
                let as_int: Option<i64> = lit.parse::<i64>().ok();
                let as_f: f64 = lit.parse::<f64>().unwrap_or(f64::NAN);
                let ok = match (&got, as_int) {
                    (Some(J::Int(g)), Some(w)) => *g == w,
                    (Some(J::Int(g)), None) => as_f.fract() == 0.0 && as_f.abs() < 9.3e18 && (*g as f64) == as_f && format!("{}", g).trim_start_matches('-').len() <= 16,
                    (Some(J::Float(g)), None) => g.to_bits() == as_f.to_bits(),
                    (Some(J::Float(g)), Some(w)) => false && *g == w as f64,
                    (None, _) => !as_f.is_finite() || res.stdout.is_empty() && as_f.is_infinite(),
                    _ => false,
                };
                // a float whose value is integral prints as an integer ("integral results shown as integers"):
                // accept Int(g) for a non-integer literal only when the double is exactly that integer
                let ok = ok || matches!((&got, as_int), (Some(J::Int(g)), None) if as_f.fract() == 0.0 && as_f >= -9.223372036854775808e18 && as_f < 9.223372036854775808e18 && *g == as_f as i64);
                if ok {
                    ctx.case("json-literal", &key, "pass", serde_json::json!({"literal": lit}));
                } else {
                    let class = if lit.len() > 17 && matches!(got, Some(J::Float(_))) { "C08/serde-json-float-parse-imprecise" } else { "" };
                    ctx.case("json-literal", &key, "viol", serde_json::json!({"class": class, "what": "a JSON number did not keep its value", "literal": lit, "got": format!("{:?}", got), "expected_f64_bits": format!("{:016x}", as_f.to_bits())}));
                }
                // F-level through RUN
                let c = run_both(ctx, "* | json", &input);
                match compare(&c, true) {
                    F::Agree => ctx.case("json-literal-model", &key, "pass", serde_json::json!({"literal": lit})),
                    F::Skip(w) => ctx.case("json-literal-model", "", "skip", serde_json::json!({"why": w})),
                    F::Disagree(d) => {
                        // beyond 15 significant digits serde_json's default parser may be 1 ulp off the
                        // correctly rounded value the model defines: judged at P-level above
                        if lit.trim_start_matches('-').replace('.', "").split(|c| c == 'e' || c == 'E').next().unwrap_or("").trim_start_matches('0').len() > 15 {
                            ctx.case("json-literal-model", "", "skip", serde_json::json!({"why": "long mantissa (serde_json rounding)"}));
                        } else {
                            ctx.case("json-literal-model", &key, "fdis", serde_json::json!({"what": d, "literal": lit}));
                        }
                    }
                }
            }
            // ---- (b) from_string and (c) coercion agreement, model vs implementation and P-level
            1 | 2 => {
                let t = numeric_text(&mut r);
                let key = format!("text:{}", t);
                let fs = Value::from_string(t.as_str());
                let co: Result<f64, _> = (&Value::Str(t.clone())).try_into();
                // F-level
                let m = ctx.drv.ask(&format!("NUMSTR\t{}", enc::hex(&t)));
                let mut want = vec![];
                enc::value(&fs, &mut want);
                let want_co = match &co {
                    Ok(f) => format!("F{:016x}", enc::norm_bits(*f)),
                    Err(_) => "ERR ExpectedNumber".to_string(),
                };
                let expect = format!("FS {}\tCO {}", want.join(" "), want_co);
                if m.contains("SKIP") {
                    ctx.case("numstr-model", "", "skip", serde_json::json!({"why": "non-ascii digits"}));
                } else if m != expect {
                    ctx.case("numstr-model", &key, "fdis", serde_json::json!({"what": format!("from_string/coercion: implementation `{}` model `{}`", expect, m), "text": t}));
                } else {
                    ctx.case("numstr-model", &key, "pass", serde_json::json!({"text": t}));
                }
                // P-level: text that auto-converts to N also coerces to N
                if let Some(nv) = value_num(&fs) {
                    let same = matches!(co, Ok(c) if c.to_bits() == nv.to_bits() || (c == nv));
                    if same {
                        ctx.case("coercion", &key, "pass", serde_json::json!({"text": t, "value": nv}));
                    } else {
                        ctx.case("coercion", &key, "viol", serde_json::json!({"class": "C08/coercion-strips-sign-exponent", "what": "text that auto-converts to a number coerces to a different number", "text": t, "from_string": format!("{:?}", fs), "coerced": format!("{:?}", co)}));
                    }
                }
                // P-level: integer literal text in range → exactly that Int
                if let Ok(w) = t.trim().parse::<i64>() {
                    if fs != Value::Int(w) {
                        ctx.case("from-string", &key, "viol", serde_json::json!({"class": "", "what": "integer text did not become that integer", "text": t, "got": format!("{:?}", fs)}));
                    }
                }
            }
            // ---- (d) end to end: extraction → arithmetic → aggregate → output
            _ => {
                let k = 2 + r.below(6);
                let vals: Vec<i64> = (0..k).map(|_| match r.below(5) { 0 => r.range(-9007199254740992 / 16, 9007199254740992 / 16), 1 => r.range(-5, 5), _ => r.range(-100000, 100000) }).collect();
                let style = r.below(3);
                let mut input = String::new();
                for v in &vals {
                    match style {
                        0 => input.push_str(&format!("{{\"v\":{}}}\n", v)),
                        1 => input.push_str(&format!("v={} other=x\n", v)),
                        _ => input.push_str(&format!("took v={} units\n", v)),
                    }
                }
                let extract = match style {
                    0 => "json",
                    1 => "logfmt",
                    _ => "parse \"v=* \" as v",
                };
                let q = format!("* | {} | sum(v) as s, min(v) as lo, max(v) as hi, count as c, sum(v * 2) as d", extract);
                let key = ckey(&q, input.as_bytes());
                let res = imp::run(&q, input.as_bytes(), "json", 10);
                let row = match canon::parse(String::from_utf8_lossy(&res.stdout).trim_end()) {
                    Ok(J::Arr(rows)) if rows.len() == 1 => rows[0].clone(),
                    _ => J::Null,
                };
                let get = |name: &str| match &row {
                    J::Obj(kvs) => kvs.iter().find(|kv| kv.0 == name).map(|kv| kv.1.clone()),
                    _ => None,
                };
                let sum: i128 = vals.iter().map(|v| *v as i128).sum();
                let ok = get("s") == Some(J::Int(sum as i64))
                    && get("lo") == Some(J::Int(*vals.iter().min().unwrap()))
                    && get("hi") == Some(J::Int(*vals.iter().max().unwrap()))
                    && get("c") == Some(J::Int(vals.len() as i64))
                    && get("d") == Some(J::Int((sum * 2) as i64));
                let info = serde_json::json!({"query": q, "input": input});
                if ok {
                    ctx.case("pipeline", &key, "pass", info);
                } else {
                    let class = if vals.iter().any(|v| *v < 0) && style != 0 { "C08/coercion-strips-sign-exponent" } else { "" };
                    ctx.case("pipeline", &key, "viol", serde_json::json!({"class": class, "what": "integers did not stay exact through extraction → arithmetic → aggregation → output", "values": vals, "got": format!("{:?}", row), "case": info}));
                }
            }
        }
    }

    // ---- (e) aggregates of integers whose total leaves the i64 range (or the 2^53 range of exact
    // doubles): the result may be a float, but it must be the true total up to double rounding —
    // "never a wrapped, saturated or sign-stripped value"
    let nb = ctx.budget(300, 20000);
    for _ in 0..nb {
        let mut r = ctx.rng.fork();
        let k = 2 + r.below(5);
        let big = [4611686018427387904i64, 4611686018427388928, 9223372036854775807, 4000000000000000000, 9000000000000000000, 9007199254740993, 1152921504606846976, 3];
        let sign = if r.chance(30) { -1i64 } else { 1 };
        let vals: Vec<i64> = (0..k).map(|_| { let v = *r.pick(&big); if r.chance(15) { -v } else { sign * v } }).collect();
        let style = r.below(3);
        let mut input = String::new();
        for (i, v) in vals.iter().enumerate() {
            match style {
                0 => input.push_str(&format!("{{\"v\":{},\"h\":\"{}\"}}\n", v, i % 2)),
                1 => input.push_str(&format!("v={} h={}\n", v, i % 2)),
                _ => input.push_str(&format!("took v={} units h={}\n", v, i % 2)),
            }
        }
        let extract = match style {
            0 => "json",
            1 => "logfmt",
            _ => "parse \"v=* \" as v",
        };
        let q = format!("* | {} | sum(v) as s, avg(v) as a, max(v) as hi, min(v) as lo", extract);
        let key = ckey(&q, input.as_bytes());
        let c = run_both(ctx, &q, input.as_bytes());
        let row = match canon::parse(String::from_utf8_lossy(&c.imp.stdout).trim_end()) {
            Ok(J::Arr(rows)) if rows.len() == 1 => rows[0].clone(),
            _ => J::Null,
        };
        let getf = |name: &str| match &row {
            J::Obj(kvs) => kvs.iter().find(|kv| kv.0 == name).and_then(|kv| match &kv.1 { J::Int(i) => Some(*i as f64), J::Float(f) => Some(*f), _ => None }),
            _ => None,
        };
        let total: i128 = vals.iter().map(|v| *v as i128).sum();
        // sums are accumulated in doubles: the error bound of a floating-point sum is relative to the
        // sum of the magnitudes (cancellation may lose small addends), not to the result
        let mag: f64 = vals.iter().map(|v| (*v as f64).abs()).sum();
        let close = |got: Option<f64>, want: f64| got.map(|g| (g - want).abs() <= 1e-9 * want.abs().max(1.0)).unwrap_or(false);
        let close_sum = |got: Option<f64>, want: f64, scale: f64| got.map(|g| (g - want).abs() <= 1e-9 * scale.max(1.0)).unwrap_or(false);
        let ok = close_sum(getf("s"), total as f64, mag)
            && close_sum(getf("a"), total as f64 / k as f64, mag / k as f64)
            && close(getf("hi"), *vals.iter().max().unwrap() as f64)
            && close(getf("lo"), *vals.iter().min().unwrap() as f64);
        let info = serde_json::json!({"query": q, "input": input, "true_total": total.to_string()});
        if !ok {
            ctx.case("pipeline-big", &key, "viol", serde_json::json!({"class": "", "what": "an aggregate of large integers is not the true value up to double rounding (wrapped, saturated or sign-stripped?)", "values": vals, "got": format!("{:?}", row), "case": info}));
            continue;
        }
        ctx.case("pipeline-big", &key, "pass", info.clone());
        match compare(&c, true) {
            F::Agree => ctx.case("pipeline-big-model", &key, "pass", info),
            F::Skip(w) => ctx.case("pipeline-big-model", "", "skip", serde_json::json!({"why": w})),
            F::Disagree(d) => ctx.case("pipeline-big-model", &key, "fdis", serde_json::json!({"what": d, "case": info})),
        }
    }

    // ---- (f) "text that auto-converts to a number N also coerces to N wherever a number is
    // expected … arithmetic": `a op b` with an operand given as numeric TEXT must equal `a op b`
    // with that operand given as the number — for every operator and on either side
    let nta = ctx.budget(300, 20000);
    for _ in 0..nta {
        let mut r = ctx.rng.fork();
        let nums = ["4", "10", "-3", "2.5", "-1e3", "0.125", "1,000", "7", "100", "-0.5", "3e2", "12"];
        let (a, b) = (*r.pick(&nums), *r.pick(&nums));
        let num_lit = |t: &str| -> String { let v: f64 = t.replace(',', "").parse().unwrap(); if v.fract() == 0.0 && v.abs() < 1e15 { format!("{}", v as i64) } else { format!("{}", v) } };
        let (ta, tb) = match r.below(3) { 0 => (true, false), 1 => (false, true), _ => (true, true) };
        let doc_text = format!("{{\"a\":{},\"b\":{}}}\n", if ta { format!("\"{}\"", a) } else { num_lit(a) }, if tb { format!("\"{}\"", b) } else { num_lit(b) });
        let doc_num = format!("{{\"a\":{},\"b\":{}}}\n", num_lit(a), num_lit(b));
        let q = "* | json | a + b as s | a - b as d | a * b as p | a / b as q | b - a as e | b / a as f | fields s, d, p, q, e, f";
        let key = format!("text-arith:{}:{}:{}{}", a, b, ta, tb);
        let rt = imp::run(q, doc_text.as_bytes(), "json", 10);
        let rn = imp::run(q, doc_num.as_bytes(), "json", 10);
        let info = serde_json::json!({"query": q, "with_text": doc_text, "with_numbers": doc_num});
        let (jt, jn) = (canon::normalized_lines(&rt.stdout), canon::normalized_lines(&rn.stdout));
        if jt.is_some() && jt == jn && rt.error_lines == rn.error_lines {
            ctx.case("text-arith", &key, "pass", info);
        } else {
            ctx.case("text-arith", &key, "viol", serde_json::json!({"class": "", "what": "arithmetic on numeric text differs from the same arithmetic on the numbers", "got_with_text": String::from_utf8_lossy(&rt.stdout), "got_with_numbers": String::from_utf8_lossy(&rn.stdout), "case": info}));
        }
    }

    // ---- soft-float and number formatting against the hardware / Rust's formatter (F-level)
    let nf = ctx.budget(3000, 300000);
    for _ in 0..nf {
        let mut r = ctx.rng.fork();
        let pickf = |r: &mut Rng| -> f64 {
            match r.below(6) {
                0 => *r.pick(&[0.0, -0.0, 1.0, -1.0, 0.5, 1.5, 2.5, 0.1, 1e300, -1e300, 5e-324, 9007199254740992.0, 9007199254740993.0, 9.223372036854775807e18, f64::INFINITY, f64::NEG_INFINITY, f64::NAN, 1e-7, 123456.789, 0.005, 0.015, 0.025, 1e21, 1e-5]),
                1 => r.range(-1000, 1000) as f64,
                2 => r.range(-100000, 100000) as f64 / 64.0,
                3 => f64::from_bits(r.next()),
                4 => r.range(-100000, 100000) as f64 / 1000.0,
                _ => (r.range(1, 999) as f64) * 10f64.powi(r.range(-30, 30) as i32),
            }
        };
        let (a, b) = (pickf(&mut r), pickf(&mut r));
        let op = *r.pick(&["add", "sub", "mul", "div", "floor", "ceil", "round", "abs", "fromfloat", "display", "display2", "toi64"]);
        let m = ctx.drv.ask(&format!("F64\t{}\t{:016x}\t{:016x}", op, a.to_bits(), b.to_bits()));
        let bits = |f: f64| format!("F{:016x}", enc::norm_bits(f));
        let want = match op {
            "add" => bits(a + b),
            "sub" => bits(a - b),
            "mul" => bits(a * b),
            "div" => bits(a / b),
            "floor" => bits(a.floor()),
            "ceil" => bits(a.ceil()),
            "round" => bits(a.round()),
            "abs" => bits(a.abs()),
            "toi64" => format!("I{}", a as i64),
            "fromfloat" => {
                let mut t = vec![];
                enc::value(&Value::from_float(a), &mut t);
                format!("VAL {}", t.join(" "))
            }
            "display" => format!("TEXT {}", enc::hex(&format!("{}", a))),
            _ => format!("TEXT {}", enc::hex(&format!("{:.2}", a))),
        };
        let key = format!("{}:{:016x}:{:016x}", op, a.to_bits(), b.to_bits());
        if m == want {
            ctx.case("f64-model", &key, "pass", serde_json::json!({"op": op, "a": a, "b": b}));
        } else {
            ctx.case("f64-model", &key, "fdis", serde_json::json!({"what": format!("{} {:e} {:e}: implementation {} model {}", op, a, b, want, m)}));
        }
    }
}
