//! C19: tables fit the terminal and show all the data.
//!
//! F-level: the text of every `format_aggregate` / `format_record_as_columns` call on one
//! persistent `PrettyPrinter` (hook `ag::verif::Pretty`, so the column-width memory is exercised)
//! equals the Lean model's (`TABLE`) byte for byte, or both panic; the remembered widths agree.
//! P-level: the property's clauses judged on the implementation's text directly: no panic, `No data`,
//! header names every column in order, a separator line, one line per row, every cell at its column's
//! offset shown in full or cut with an ellipsis, ≤ h−1 lines, no line wider than the terminal.
use crate::enc;
use crate::imp;
use crate::rng::Rng;
use crate::Ctx;
use ag::data::{Aggregate, DisplayConfig, Record, Value};
use ag::verif::Pretty;
use std::collections::HashMap;
use std::panic::{catch_unwind, AssertUnwindSafe};

/* ---------- generators ---------- */

pub const WIDE: &[char] = &['日', '本', '語', '名', '前', '한', '글', '😀', '表'];
const MULTI: &[char] = &['é', 'ü', 'λ', 'ж', 'ß', 'ñ', '…', '→'];

pub fn is_wide(c: char) -> bool {
    WIDE.contains(&c)
}

pub fn display_width(s: &str) -> usize {
    s.chars().map(|c| if is_wide(c) { 2 } else { 1 }).sum()
}

fn text(r: &mut Rng, len: usize, flavour: usize) -> String {
    let ascii = b"abcdefghijklmnopqrstuvwxyzABCXYZ0123456789_-.:/";
    let mut s = String::new();
    for _ in 0..len {
        let c = match flavour {
            0 => ascii[r.below(ascii.len())] as char,
            1 => {
                if r.chance(15) {
                    ' '
                } else {
                    ascii[r.below(ascii.len())] as char
                }
            }
            2 => {
                if r.chance(30) {
                    *r.pick(MULTI)
                } else {
                    ascii[r.below(ascii.len())] as char
                }
            }
            _ => {
                if r.chance(30) {
                    *r.pick(WIDE)
                } else {
                    ascii[r.below(ascii.len())] as char
                }
            }
        };
        s.push(c);
    }
    s
}

#[derive(Clone, Copy, PartialEq)]
pub struct CellCfg {
    pub wide: bool,
    pub control: bool,
    pub long: bool,
    pub blanks: bool,
}

pub fn cell_string(r: &mut Rng, cfg: &CellCfg) -> String {
    let len = match r.below(20) {
        0 => 0,
        1..=10 => 1 + r.below(8),
        11..=15 => 9 + r.below(32),
        _ => {
            if cfg.long {
                41 + r.below(260)
            } else {
                9 + r.below(20)
            }
        }
    };
    let flavour = match r.below(10) {
        0..=4 => 0,
        5 | 6 => {
            if cfg.blanks {
                1
            } else {
                0
            }
        }
        7 | 8 => 2,
        _ => {
            if cfg.wide {
                3
            } else {
                2
            }
        }
    };
    let mut s = text(r, len, flavour);
    if cfg.blanks && r.chance(6) {
        s = format!(" {}", s);
    }
    if cfg.blanks && r.chance(4) {
        s = " ".repeat(r.below(4));
    }
    if cfg.control && r.chance(25) {
        let pos = r.below(s.chars().count() + 1);
        let mut t: String = s.chars().take(pos).collect();
        t.push_str(*r.pick(&["\n", "\r\n", "\t", "\r", "a\nb"]));
        t.extend(s.chars().skip(pos));
        s = t;
    }
    s
}

fn float_val(r: &mut Rng) -> f64 {
    match r.below(12) {
        0 => 0.0,
        1 => -0.0,
        2 => 0.005,
        3 => 0.015,
        4 => 2.675,
        5 => 1e10,
        6 => -123456.789,
        7 => 0.125,
        8 => 1e-7,
        9 => f64::from_bits(r.next() & 0x7fefffffffffffff).min(1e15),
        10 => (r.range(-100000, 100000) as f64) / 64.0,
        _ => (r.range(-1000000, 1000000) as f64) / 1000.0,
    }
}

pub fn cell_value(r: &mut Rng, cfg: &CellCfg, depth: usize) -> Value {
    match r.below(20) {
        0..=8 => Value::Str(cell_string(r, cfg)),
        9..=11 => Value::Int(match r.below(6) {
            0 => 0,
            1 => -1,
            2 => i64::MAX,
            3 => i64::MIN,
            4 => r.range(-1_000_000_000_000, 1_000_000_000_000),
            _ => r.range(0, 5000),
        }),
        12 | 13 => Value::Float(ordered_float::OrderedFloat(float_val(r))),
        14 => Value::Bool(r.chance(50)),
        15 => Value::None,
        16 => {
            let secs = r.range(-2_000_000_000, 4_000_000_000);
            let nanos = *r.pick(&[0u32, 0, 120_000_000, 123_456_000, 999_999_999, 1]);
            match chrono::DateTime::<chrono::Utc>::from_timestamp(secs, nanos) {
                Some(dt) => Value::DateTime(dt),
                None => Value::None,
            }
        }
        17 => {
            let ns = match r.below(5) {
                0 => 0,
                1 => r.range(-5_000_000_000, 5_000_000_000),
                2 => r.range(0, 3_000_000) * 1_000_000_007,
                3 => 1_209_600_000_000_000 + 2 * 86_400_000_000_000 + 5 * 3_600_000_000_000 + 232_000_000,
                _ => r.range(-1_000_000, 1_000_000) * 1000,
            };
            Value::Duration(chrono::Duration::nanoseconds(ns))
        }
        18 if depth > 0 => {
            let n = r.below(4);
            Value::Array((0..n).map(|_| cell_value(r, cfg, depth - 1)).collect())
        }
        19 if depth > 0 => {
            let n = r.below(4);
            let mut m = im::HashMap::new();
            for _ in 0..n {
                let k = r.pick(&["p", "q", "zz", "a b", "é"]).to_string();
                m.insert(k, cell_value(r, cfg, depth - 1));
            }
            Value::Obj(m)
        }
        _ => Value::Str(cell_string(r, cfg)),
    }
}

pub fn column_name(r: &mut Rng, cfg: &CellCfg) -> String {
    match r.below(16) {
        0 => "_count".into(),
        1 => "k".into(),
        2 => "status_code".into(),
        3 => "p50".into(),
        4 => "_timeslice".into(),
        5 => {
            let n = 20 + r.below(45);
            text(r, n, 0)
        }
        6 => {
            let n = 3 + r.below(10);
            text(r, n, 2)
        }
        7 => {
            let n = 2 + r.below(6);
            text(r, n, if cfg.wide { 3 } else { 2 })
        }
        8 => {
            if cfg.blanks {
                "my col".into()
            } else {
                "my_col".into()
            }
        }
        _ => {
            let n = 1 + r.below(9);
            text(r, n, 0)
        }
    }
}

#[derive(Clone)]
pub struct Table {
    pub columns: Vec<String>,
    pub rows: Vec<Vec<(String, Value)>>,
}

impl Table {
    pub fn to_aggregate(&self) -> Aggregate {
        Aggregate {
            columns: self.columns.clone(),
            data: self.rows.iter().map(|r| r.iter().cloned().collect::<HashMap<String, Value>>()).collect(),
        }
    }
    /// protocol text of one `AGG` call
    pub fn encode(&self) -> String {
        let mut out: Vec<String> = vec!["AGG".into(), format!("{}", self.columns.len())];
        for c in &self.columns {
            out.push(format!("S{}", enc::hex(c)));
        }
        out.push(format!("{}", self.rows.len()));
        for r in &self.rows {
            encode_row(r, &mut out);
        }
        out.join(" ")
    }
    pub fn to_json(&self) -> serde_json::Value {
        serde_json::json!({"columns": self.columns, "rows": self.rows.iter().map(|r| {
            r.iter().map(|(k, v)| serde_json::json!([k, v.render(&DisplayConfig { floating_points: 2 })])).collect::<Vec<_>>()
        }).collect::<Vec<_>>()})
    }
}

fn encode_row(r: &[(String, Value)], out: &mut Vec<String>) {
    // keys of a row are unique (it becomes a HashMap)
    let m: HashMap<&String, &Value> = r.iter().map(|(k, v)| (k, v)).collect();
    let mut kvs: Vec<_> = m.into_iter().collect();
    kvs.sort_by(|a, b| a.0.cmp(b.0));
    out.push(format!("O{}", kvs.len()));
    for (k, v) in kvs {
        out.push(format!("S{}", enc::hex(k)));
        enc::value(v, out);
    }
}

#[derive(Clone, Copy, PartialEq, Debug)]
pub enum Shape {
    /// distinct column names, every column occurs in some row, row keys ⊆ columns
    Regular,
    /// some column occurs in no row (not produced by any operator; both sides must panic alike)
    Uncovered,
    /// a column name listed twice (what `count(a), count(b)` produces)
    Duplicate,
}

pub fn gen_table(r: &mut Rng, cfg: &CellCfg, shape: Shape, max_cols: usize, max_rows: usize) -> Table {
    let ncols = match r.below(10) {
        0..=5 => 1 + r.below(5.min(max_cols)),
        6..=8 => 1 + r.below(12.min(max_cols)),
        _ => 1 + r.below(max_cols),
    };
    let mut columns: Vec<String> = vec![];
    while columns.len() < ncols {
        let c = column_name(r, cfg);
        if !columns.contains(&c) {
            columns.push(c);
        }
    }
    let nrows = match r.below(20) {
        0 => 0,
        1..=8 => 1 + r.below(5),
        9..=15 => 6 + r.below(25),
        _ => 31 + r.below(max_rows.saturating_sub(30).max(1)),
    }
    .min(max_rows);
    let sparse = r.chance(30);
    let mut rows = vec![];
    for _ in 0..nrows {
        let mut row = vec![];
        for c in &columns {
            if sparse && r.chance(25) {
                continue;
            }
            row.push((c.clone(), cell_value(r, cfg, 2)));
        }
        rows.push(row);
    }
    // make sure every column occurs somewhere
    if !rows.is_empty() {
        for c in &columns {
            if !rows.iter().any(|row| row.iter().any(|kv| &kv.0 == c)) {
                let i = r.below(rows.len());
                rows[i].push((c.clone(), cell_value(r, cfg, 1)));
            }
        }
    }
    match shape {
        Shape::Regular => {}
        Shape::Uncovered => {
            let pos = r.below(columns.len() + 1);
            columns.insert(pos, "ghost".into());
        }
        Shape::Duplicate => {
            let c = columns[r.below(columns.len())].clone();
            let pos = r.below(columns.len() + 1);
            columns.insert(pos, c);
        }
    }
    Table { columns, rows }
}

fn rename_columns(t: &mut Table, renames: &[(String, String)]) {
    let m: HashMap<&String, &String> = renames.iter().map(|(a, b)| (a, b)).collect();
    for c in t.columns.iter_mut() {
        if let Some(n) = m.get(c) {
            *c = (*n).clone();
        }
    }
    for row in t.rows.iter_mut() {
        for kv in row.iter_mut() {
            if let Some(n) = m.get(&kv.0) {
                kv.0 = (*n).clone();
            }
        }
    }
}

/// the first cell of every row is present and starts with a non-blank character
fn unblank_first(t: &mut Table) {
    let first = match t.columns.first() {
        Some(c) => c.clone(),
        None => return,
    };
    for row in t.rows.iter_mut() {
        let cfg = DisplayConfig { floating_points: 2 };
        match row.iter_mut().find(|kv| kv.0 == first) {
            Some(kv) => {
                let txt = kv.1.render(&cfg);
                if txt.chars().next().map(|c| c.is_whitespace()).unwrap_or(true) {
                    kv.1 = Value::Str(format!("v{}", txt.trim()));
                }
            }
            None => {}
        }
    }
}

/// frames of one query away from the known defect classes: short distinct ASCII column names,
/// first cells present and not blank; returns the tables and the number of column names ever used
pub fn clean_sequence(r: &mut Rng, cfg: &CellCfg, max_cols: usize, max_rows: usize, n: usize) -> (Vec<Table>, usize) {
    let mut t = gen_table(r, cfg, Shape::Regular, max_cols, max_rows);
    let mut used: Vec<String> = vec![];
    let short = |r: &mut Rng, used: &mut Vec<String>| loop {
        let n = 1 + r.below(6);
        let c = text(r, n, 0);
        if !used.contains(&c) {
            used.push(c.clone());
            return c;
        }
    };
    let renames: Vec<(String, String)> = t.columns.iter().map(|c| (c.clone(), short(r, &mut used))).collect();
    rename_columns(&mut t, &renames);
    let mut tables = vec![];
    for _ in 0..n {
        unblank_first(&mut t);
        tables.push(t.clone());
        t = mutate_table(r, cfg, &t, max_rows);
        let fresh: Vec<(String, String)> = t.columns.iter().filter(|c| !used.contains(c)).cloned().collect::<Vec<_>>().into_iter().map(|c| (c, short(r, &mut used))).collect();
        rename_columns(&mut t, &fresh);
    }
    (tables, used.len())
}

/// a later frame of the same query: rows come and go, values change, now and then a column too
pub fn mutate_table(r: &mut Rng, cfg: &CellCfg, t: &Table, max_rows: usize) -> Table {
    let mut t = t.clone();
    match r.below(10) {
        0 => t.rows.clear(),
        1 | 2 => {
            let keep = r.below(t.rows.len() + 1);
            t.rows.truncate(keep);
        }
        3 | 4 | 5 => {
            let add = 1 + r.below(6);
            for _ in 0..add {
                if t.rows.len() >= max_rows {
                    break;
                }
                let row = t.columns.iter().map(|c| (c.clone(), cell_value(r, cfg, 1))).collect();
                t.rows.push(row);
            }
        }
        6 => {
            if t.columns.len() > 1 {
                let i = r.below(t.columns.len());
                let c = t.columns.remove(i);
                for row in t.rows.iter_mut() {
                    row.retain(|kv| kv.0 != c);
                }
            }
        }
        7 => {
            let c = column_name(r, cfg);
            if !t.columns.contains(&c) {
                for row in t.rows.iter_mut() {
                    row.push((c.clone(), cell_value(r, cfg, 1)));
                }
                t.columns.push(c);
            }
        }
        _ => {}
    }
    for row in t.rows.iter_mut() {
        for kv in row.iter_mut() {
            if r.chance(20) {
                kv.1 = cell_value(r, cfg, 1);
            }
        }
    }
    // a table without rows keeps its columns (it prints `No data`)
    t
}

pub fn gen_size(r: &mut Rng) -> Option<(u16, u16)> {
    if r.chance(20) {
        return None;
    }
    let w = match r.below(10) {
        0 => *r.pick(&[1u16, 2, 3, 4, 5]),
        1 | 2 => 6 + r.below(20) as u16,
        3 | 4 => *r.pick(&[40u16, 60, 80, 100, 120, 132, 200, 250]),
        _ => 2 + r.below(249) as u16,
    };
    let h = match r.below(10) {
        0 => *r.pick(&[2u16, 2, 3, 4]),
        1 => 1,
        _ => 2 + r.below(59) as u16,
    };
    Some((w, h))
}

/* ---------- running both sides ---------- */

#[derive(Clone, Debug, PartialEq)]
pub enum CallOut {
    Text(String),
    Panic(String),
}

pub enum Call {
    Agg(Table),
    Rec(String, Vec<(String, Value)>),
}

impl Call {
    fn encode(&self) -> String {
        match self {
            Call::Agg(t) => t.encode(),
            Call::Rec(raw, data) => {
                let mut out: Vec<String> = vec!["REC".into(), format!("S{}", enc::hex(raw))];
                encode_row(data, &mut out);
                out.join(" ")
            }
        }
    }
    fn to_json(&self) -> serde_json::Value {
        match self {
            Call::Agg(t) => t.to_json(),
            Call::Rec(raw, data) => serde_json::json!({"raw": raw, "fields": data.iter().map(|(k, v)| serde_json::json!([k, v.render(&DisplayConfig { floating_points: 2 })])).collect::<Vec<_>>()}),
        }
    }
}

pub struct ImplCalls {
    pub outs: Vec<CallOut>,
    /// widths / order remembered after each successful call
    pub widths: Vec<Vec<(String, usize)>>,
    pub orders: Vec<Vec<String>>,
}

pub fn run_impl(size: Option<(u16, u16)>, bufs: (usize, usize), calls: &[Call]) -> ImplCalls {
    let mut p = Pretty::new(size, bufs.0, bufs.1);
    let mut res = ImplCalls { outs: vec![], widths: vec![], orders: vec![] };
    for c in calls {
        let r = catch_unwind(AssertUnwindSafe(|| match c {
            Call::Agg(t) => p.format_aggregate(&t.to_aggregate()),
            Call::Rec(raw, data) => p.format_record_as_columns(&Record { data: data.iter().cloned().collect(), raw: raw.clone() }),
        }));
        match r {
            Ok(s) => {
                res.outs.push(CallOut::Text(s));
                res.widths.push(p.column_widths());
                res.orders.push(p.column_order());
            }
            Err(_) => {
                res.outs.push(CallOut::Panic(imp::LAST_PANIC.lock().map(|g| g.clone()).unwrap_or_default()));
                break;
            }
        }
    }
    res
}

pub struct ModelCalls {
    pub outs: Vec<CallOut>,
    pub widths: Option<Vec<(String, usize)>>,
    pub order: Option<Vec<String>>,
    pub raw: String,
}

fn unhex_str(h: &str) -> String {
    String::from_utf8_lossy(&enc::unhex(h)).into_owned()
}

pub fn run_model(ctx: &mut Ctx, size: Option<(u16, u16)>, bufs: (usize, usize), calls: &[Call]) -> ModelCalls {
    let term = match size {
        None => "none".to_string(),
        Some((w, h)) => format!("{} {}", w, h),
    };
    let mut req = format!("TABLE\t{}\t{} {}", term, bufs.0, bufs.1);
    for c in calls {
        req.push('\t');
        req.push_str(&c.encode());
    }
    let raw = ctx.drv.ask(&req);
    let mut m = ModelCalls { outs: vec![], widths: None, order: None, raw: raw.clone() };
    let toks: Vec<&str> = raw.split(' ').collect();
    if toks.first() != Some(&"OK") {
        return m;
    }
    let mut i = 1;
    while i < toks.len() {
        let t = toks[i];
        if let Some(h) = t.strip_prefix('T') {
            m.outs.push(CallOut::Text(unhex_str(h)));
            i += 1;
        } else if let Some(h) = t.strip_prefix('P') {
            m.outs.push(CallOut::Panic(unhex_str(h)));
            i += 1;
        } else if t == "ST" {
            let n: usize = toks[i + 1].parse().unwrap_or(0);
            let mut ws = vec![];
            for j in 0..n {
                ws.push((unhex_str(&toks[i + 2 + 2 * j][1..]), toks[i + 3 + 2 * j].parse().unwrap_or(usize::MAX)));
            }
            i += 2 + 2 * n;
            m.widths = Some(ws);
            if toks.get(i) == Some(&"ORD") {
                let k: usize = toks[i + 1].parse().unwrap_or(0);
                m.order = Some((0..k).map(|j| unhex_str(&toks[i + 2 + j][1..])).collect());
                i += 2 + k;
            }
        } else {
            i += 1;
        }
    }
    m
}

/// F-level verdict for a call sequence: Ok(()) or the first disagreement
pub fn compare_calls(imp: &ImplCalls, model: &ModelCalls) -> Result<(), String> {
    if !model.raw.starts_with("OK") {
        return Err(format!("driver answered {}", clip(&model.raw, 200)));
    }
    if imp.outs.len() != model.outs.len() {
        return Err(format!("implementation completed {} calls, model {}", imp.outs.len(), model.outs.len()));
    }
    for (i, (a, b)) in imp.outs.iter().zip(model.outs.iter()).enumerate() {
        match (a, b) {
            (CallOut::Text(x), CallOut::Text(y)) => {
                if x != y {
                    return Err(format!("call {}: text differs: impl={:?} model={:?}", i, clip(x, 600), clip(y, 600)));
                }
            }
            (CallOut::Panic(_), CallOut::Panic(_)) => {}
            (CallOut::Panic(p), CallOut::Text(y)) => return Err(format!("call {}: implementation panicked ({}) but the model prints {:?}", i, clip(p, 200), clip(y, 200))),
            (CallOut::Text(x), CallOut::Panic(p)) => return Err(format!("call {}: model predicts a panic ({}) but the implementation prints {:?}", i, p, clip(x, 200))),
        }
    }
    if let (Some(mw), Some(iw)) = (&model.widths, imp.widths.last()) {
        if imp.outs.iter().all(|o| matches!(o, CallOut::Text(_))) {
            let mut mw = mw.clone();
            mw.sort();
            if &mw != iw {
                return Err(format!("remembered widths differ: impl={:?} model={:?}", iw, mw));
            }
            if let (Some(mo), Some(io)) = (&model.order, imp.orders.last()) {
                if mo != io {
                    return Err(format!("remembered column order differs: impl={:?} model={:?}", io, mo));
                }
            }
        }
    }
    Ok(())
}

pub fn clip(s: &str, n: usize) -> String {
    if s.chars().count() > n {
        format!("{}…", s.chars().take(n).collect::<String>())
    } else {
        s.to_string()
    }
}

/* ---------- P-level oracles ---------- */

/// classes listed with status "open" in /verif/known_findings.json (East-Asian wide characters are
/// counted as one cell; repairing that needs the `unicode-width` crate)
pub const OPEN_CLASSES: &[&str] = &["C19/wide-char-width"];

pub struct Viol {
    pub class: &'static str,
    pub what: String,
}

fn render(v: &Value) -> String {
    v.render(&DisplayConfig { floating_points: 2 })
}

fn has_control(s: &str) -> bool {
    s.chars().any(|c| (c as u32) < 32 || c as u32 == 127)
}

pub fn panic_class(msg: &str) -> &'static str {
    // classify by the text of the source line the panic names (robust against line shifts)
    let line_text = msg
        .split("printer.rs:")
        .nth(1)
        .and_then(|rest| rest.split(':').next())
        .and_then(|n| n.trim().parse::<usize>().ok())
        .and_then(|n| std::fs::read_to_string("/repo/src/printer.rs").ok().and_then(|src| src.lines().nth(n.saturating_sub(1)).map(|l| l.to_string())))
        .unwrap_or_default();
    if line_text.contains("limit - ELLIPSIS") {
        "C19/ellipsis-underflow"
    } else if line_text.contains("height as usize") {
        "C19/height-underflow"
    } else if line_text.contains("len() - i") || line_text.contains("remaining -=") || line_text.contains("assert!(self.fits") {
        "C19/duplicate-column-resize"
    } else if line_text.contains("column_widths[column_name]") || line_text.contains("column_widths.get(col).unwrap()") {
        "C19/column-without-width"
    } else {
        "C19/panic-other"
    }
}

/// the clauses of C19 for one aggregate call. `widths` = the printer's widths after the call.
pub fn judge_aggregate(t: &Table, size: Option<(u16, u16)>, out: &CallOut, widths: &[(String, usize)]) -> Vec<Viol> {
    let mut v = vec![];
    let text = match out {
        CallOut::Panic(p) => {
            v.push(Viol { class: panic_class(p), what: format!("format_aggregate panicked: {}", clip(p, 200)) });
            return v;
        }
        CallOut::Text(s) => s,
    };
    if t.rows.is_empty() {
        if text != "No data\n" {
            v.push(Viol { class: "C19/empty", what: format!("empty table printed as {:?}", clip(text, 80)) });
        }
        return v;
    }
    if !text.ends_with('\n') {
        v.push(Viol { class: "C19/shape", what: "output does not end with a newline".into() });
        return v;
    }
    let lines: Vec<&str> = text[..text.len() - 1].split('\n').collect();
    let total = 2 + t.rows.len();
    let expect_lines = match size {
        None => total,
        Some((_, h)) => total.min((h as usize).saturating_sub(1)).max(1),
    };
    if lines.len() != expect_lines {
        v.push(Viol {
            class: "C19/clip",
            what: format!("{} lines printed, expected {} (header + separator + {} rows, height {:?})", lines.len(), expect_lines, t.rows.len(), size.map(|s| s.1)),
        });
    }
    let wmap: HashMap<&str, usize> = widths.iter().map(|(k, w)| (k.as_str(), *w)).collect();
    let col_w: Vec<usize> = t.columns.iter().map(|c| *wmap.get(c.as_str()).unwrap_or(&0)).collect();
    if let Some((w, _)) = size {
        let sum: usize = col_w.iter().sum();
        if sum > w as usize {
            v.push(Viol { class: "C19/widths-exceed-terminal", what: format!("column widths sum to {} on a {}-column terminal", sum, w) });
        }
    }
    // header: every column name, in order, at its column's offset, cut like a cell when too long
    let cut = |txt: &str, w: usize| -> String {
        let n = txt.chars().count();
        if n <= w {
            format!("{}{}", txt, " ".repeat(w - n))
        } else if w < 2 {
            txt.chars().take(w).collect()
        } else {
            format!("{}… ", txt.chars().take(w - 2).collect::<String>())
        }
    };
    let mut header = String::new();
    for (c, w) in t.columns.iter().zip(col_w.iter()) {
        header.push_str(&cut(c, *w));
    }
    if !lines.is_empty() && size.map(|s| s.1 >= 2).unwrap_or(true) {
        let want = header.trim_end_matches(|c: char| c.is_whitespace());
        if lines[0] != want {
            let class = if lines[0].chars().count() > want.chars().count() { "C19/header-not-truncated" } else { "C19/header" };
            v.push(Viol { class, what: format!("header {:?} is not the column names at their offsets {:?}", clip(lines[0], 200), clip(want, 200)) });
        }
    }
    // separator: dashes, as long as the table is wide (the sum of the column widths)
    if lines.len() >= 2 && !(lines[1].chars().all(|c| c == '-') && lines[1].chars().count() == col_w.iter().sum::<usize>()) {
        let class = if lines[1].chars().all(|c| c == '-') { "C19/separator-byte-length" } else { "C19/separator" };
        v.push(Viol { class, what: format!("second line is not a separator of {} dashes: {:?}", col_w.iter().sum::<usize>(), clip(lines[1], 120)) });
    }
    // body: each cell at its offset, in full when it fits, else cut to width-2 + "… "
    for (ri, row) in t.rows.iter().enumerate() {
        let li = ri + 2;
        if li >= lines.len() {
            break;
        }
        let m: HashMap<&str, &Value> = row.iter().map(|(k, v)| (k.as_str(), v)).collect();
        let mut expect = String::new();
        for (c, w) in t.columns.iter().zip(col_w.iter()) {
            let txt = m.get(c.as_str()).map(|v| render(v)).unwrap_or_else(|| "None".to_string());
            let n = txt.chars().count();
            if n <= *w {
                expect.push_str(&txt);
                expect.push_str(&" ".repeat(w - n));
            } else {
                if *w < 2 {
                    // no room for the ellipsis: cut to the column
                    let keep: String = txt.chars().take(*w).collect();
                    expect.push_str(&keep);
                } else {
                    let keep: String = txt.chars().take(w - 2).collect();
                    expect.push_str(&keep);
                    expect.push_str("… ");
                }
            }
        }
        let want = expect.trim_end_matches(|c: char| c.is_whitespace());
        if lines[li] != want {
            let class = if lines[li] == want.trim_start() && want.starts_with(|c: char| c.is_whitespace()) {
                "C19/leading-blank-cell-shifts-row"
            } else {
                "C19/cell-offsets"
            };
            v.push(Viol { class, what: format!("row {}: printed {:?}, cells at their offsets give {:?}", ri, clip(lines[li], 200), clip(want, 200)) });
            break;
        }
    }
    // width
    if let Some((w, _)) = size {
        for (i, l) in lines.iter().enumerate() {
            let n = l.chars().count();
            if n > w as usize {
                let class = match i {
                    0 => "C19/header-not-truncated",
                    1 => {
                        if lines[0].chars().count() > w as usize {
                            "C19/header-not-truncated"
                        } else {
                            "C19/separator-byte-length"
                        }
                    }
                    _ => "C19/body-line-too-wide",
                };
                v.push(Viol { class, what: format!("line {} has {} characters on a {}-column terminal: {:?}", i, n, w, clip(l, 120)) });
                break;
            }
        }
        if v.is_empty() {
            for (i, l) in lines.iter().enumerate() {
                let n = display_width(l);
                if n > w as usize {
                    v.push(Viol { class: "C19/wide-char-width", what: format!("line {} is {} cells wide (wide characters) on a {}-column terminal", i, n, w) });
                    break;
                }
            }
        }
    }
    v
}

/// record output: every field as `[k=v]`, in the printer's column order
pub fn judge_record(data: &[(String, Value)], raw: &str, out: &CallOut, order: &[String], prev_order: &[String], size: Option<(u16, u16)>) -> Vec<Viol> {
    let mut v = vec![];
    let text = match out {
        CallOut::Panic(p) => {
            v.push(Viol { class: panic_class(p), what: format!("format_record_as_columns panicked: {}", clip(p, 200)) });
            return v;
        }
        CallOut::Text(s) => s,
    };
    if data.is_empty() {
        // nothing to show: the property speaks of the fields only (the code prints the raw line
        // while no column is known, and a blank line afterwards)
        let _ = raw;
        return v;
    }
    let m: HashMap<&str, &Value> = data.iter().map(|(k, v)| (k.as_str(), v)).collect();
    let mut pos = 0usize;
    for c in order {
        if let Some(val) = m.get(c.as_str()) {
            let cell = format!("[{}={}]", c, render(val));
            match text[pos..].find(&cell) {
                Some(p) => pos += p + cell.len(),
                None => {
                    // the very first / last cell may have lost blanks to trim()
                    let tc = cell.trim();
                    match text[pos..].find(tc) {
                        Some(p) if !tc.is_empty() => pos += p + tc.len(),
                        _ => {
                            v.push(Viol { class: "C19/record-field-missing", what: format!("field {:?} is not shown as {:?} (in column order) in {:?}", c, clip(&cell, 80), clip(text, 200)) });
                            return v;
                        }
                    }
                }
            }
        }
    }
    for (k, _) in data {
        if !order.contains(k) {
            v.push(Viol { class: "C19/record-field-missing", what: format!("field {:?} has no column", k) });
        }
    }
    // stable order: the previous order is a prefix, unless the terminal overflowed and the layout was reset
    let stable = order.len() >= prev_order.len() && order[..prev_order.len()] == prev_order[..];
    if !stable {
        let mut keys: Vec<String> = data.iter().map(|kv| kv.0.clone()).collect();
        keys.sort();
        keys.dedup();
        let reset = size.is_some() && order == &keys[..];
        if !reset {
            v.push(Viol { class: "C19/record-order", what: format!("column order changed from {:?} to {:?} without an overflow reset", prev_order, order) });
        }
    }
    v
}

/* ---------- the check ---------- */

fn calls_json(calls: &[Call]) -> serde_json::Value {
    serde_json::Value::Array(calls.iter().map(|c| c.to_json()).collect())
}

fn req_of(size: Option<(u16, u16)>, bufs: (usize, usize), calls: &[Call]) -> String {
    let term = match size {
        None => "none".to_string(),
        Some((w, h)) => format!("{} {}", w, h),
    };
    let mut req = format!("TABLE\t{}\t{} {}", term, bufs.0, bufs.1);
    for c in calls {
        req.push('\t');
        req.push_str(&c.encode());
    }
    req
}

struct Case {
    family: &'static str,
    size: Option<(u16, u16)>,
    bufs: (usize, usize),
    calls: Vec<Call>,
    judge: bool,
}

fn gen_case(r: &mut Rng, thorough: bool) -> Case {
    let max_rows = if thorough { 200 } else { 200 };
    let kind = r.below(100);
    let production = (4usize, 8usize);
    if kind < 40 {
        // aggregate frames of one query on one printer, away from the known defect classes:
        // short ASCII column names, a terminal of at least 8 cells per column ever seen, no blank
        // first cell, no wide characters.  Every clause of the property is judged.
        let cfg = CellCfg { wide: false, control: false, long: r.chance(60), blanks: r.chance(50) };
        let n = 1 + r.below(4);
        let (tables, used) = clean_sequence(r, &cfg, 30, max_rows, n);
        let calls: Vec<Call> = tables.into_iter().map(Call::Agg).collect();
        let size = match gen_size(r) {
            None => None,
            Some((w, h)) => Some((w.max(8 * used as u16), h.max(2))),
        };
        Case { family: "agg", size, bufs: production, calls, judge: true }
    } else if kind < 55 {
        // the same without those precautions
        let cfg = CellCfg { wide: r.chance(25), control: false, long: r.chance(60), blanks: r.chance(50) };
        let t0 = gen_table(r, &cfg, Shape::Regular, 30, max_rows);
        let mut calls = vec![];
        let n = 1 + r.below(4);
        let mut t = t0;
        for _ in 0..n {
            calls.push(Call::Agg(t.clone()));
            t = mutate_table(r, &cfg, &t, max_rows);
        }
        Case { family: if cfg.wide { "agg-any-wide" } else { "agg-any" }, size: gen_size(r), bufs: production, calls, judge: true }
    } else if kind < 65 {
        // narrow terminals against many columns: where the width allocation breaks
        let cfg = CellCfg { wide: false, control: false, long: false, blanks: false };
        let t = gen_table(r, &cfg, Shape::Regular, 30, 12);
        let nc = t.columns.len() as u16;
        let w = match r.below(4) {
            0 => nc.saturating_sub(1).max(1),
            1 => 2 * nc - 1,
            2 => 2 * nc,
            _ => 1 + r.below(3 * nc as usize) as u16,
        };
        let t2 = mutate_table(r, &cfg, &t, 12);
        Case { family: "agg-narrow", size: Some((w, 2 + r.below(30) as u16)), bufs: production, calls: vec![Call::Agg(t), Call::Agg(t2)], judge: true }
    } else if kind < 72 {
        // other buffer configurations (the unit tests' 1/4, 2/4) and degenerate ones: F-level only
        let cfg = CellCfg { wide: r.chance(20), control: r.chance(50), long: r.chance(50), blanks: true };
        let t = gen_table(r, &cfg, Shape::Regular, 12, 40);
        let t2 = mutate_table(r, &cfg, &t, 40);
        let bufs = *r.pick(&[(1usize, 4usize), (2, 4), (0, 0), (0, 1), (3, 1), (4, 8)]);
        Case { family: "agg-config", size: gen_size(r), bufs, calls: vec![Call::Agg(t), Call::Agg(t2)], judge: false }
    } else if kind < 77 {
        let cfg = CellCfg { wide: false, control: false, long: r.chance(40), blanks: false };
        let t = gen_table(r, &cfg, Shape::Uncovered, 8, 10);
        Case { family: "agg-uncovered-column", size: gen_size(r), bufs: production, calls: vec![Call::Agg(t)], judge: false }
    } else if kind < 82 {
        let cfg = CellCfg { wide: false, control: false, long: r.chance(40), blanks: false };
        let t = gen_table(r, &cfg, Shape::Duplicate, 8, 10);
        Case { family: "agg-duplicate-column", size: gen_size(r), bufs: production, calls: vec![Call::Agg(t)], judge: false }
    } else {
        // record stream on one printer
        let cfg = CellCfg { wide: r.chance(15), control: false, long: r.chance(40), blanks: r.chance(30) };
        let nkeys = 1 + r.below(8);
        let mut keys: Vec<String> = vec![];
        while keys.len() < nkeys {
            let c = column_name(r, &cfg);
            if !keys.contains(&c) && !c.contains(' ') {
                keys.push(c);
            }
        }
        let n = 1 + r.below(12);
        let mut calls = vec![];
        for _ in 0..n {
            let mut data = vec![];
            for k in &keys {
                if r.chance(75) {
                    data.push((k.clone(), cell_value(r, &cfg, 2)));
                }
            }
            if r.chance(5) {
                data.clear();
            }
            calls.push(Call::Rec(format!("raw line {}  ", r.below(100)), data));
        }
        let bufs = if r.chance(80) { production } else { (1, 4) };
        Case { family: "record", size: gen_size(r), bufs, calls, judge: true }
    }
}

fn fixed_cases() -> Vec<Case> {
    let s = |x: &str| Value::Str(x.to_string());
    let row = |kv: &[(&str, Value)]| kv.iter().map(|(k, v)| (k.to_string(), v.clone())).collect::<Vec<_>>();
    let cols = |c: &[&str]| c.iter().map(|x| x.to_string()).collect::<Vec<_>>();
    vec![
        // the two unit tests of printer.rs
        Case {
            family: "fixed",
            size: Some((100, 10)),
            bufs: (2, 4),
            calls: vec![Call::Agg(Table {
                columns: cols(&["kc1", "kc2", "count"]),
                rows: vec![row(&[("kc1", s("k1")), ("kc2", s("k2")), ("count", Value::Int(100))]), row(&[("kc1", s("k300")), ("kc2", s("k40000")), ("count", Value::Int(500))])],
            })],
            judge: true,
        },
        // witness: 3 columns on a 2-column terminal
        Case {
            family: "fixed",
            size: Some((2, 10)),
            bufs: (4, 8),
            calls: vec![Call::Agg(Table { columns: cols(&["a", "b", "c"]), rows: vec![row(&[("a", Value::Int(1)), ("b", Value::Int(2)), ("c", Value::Int(3))])] })],
            judge: true,
        },
        // witness: 2 columns, 3 cells wide: a share of 1 cell
        Case {
            family: "fixed",
            size: Some((3, 10)),
            bufs: (4, 8),
            calls: vec![Call::Agg(Table { columns: cols(&["k", "_count"]), rows: vec![row(&[("k", s("alpha")), ("_count", Value::Int(12))])] })],
            judge: true,
        },
        // witness: long column name on a narrow terminal
        Case {
            family: "fixed",
            size: Some((12, 10)),
            bufs: (4, 8),
            calls: vec![Call::Agg(Table { columns: cols(&["a_rather_long_column_name", "_count"]), rows: vec![row(&[("a_rather_long_column_name", s("x")), ("_count", Value::Int(1))])] })],
            judge: true,
        },
        // witness: empty first cell
        Case {
            family: "fixed",
            size: Some((80, 10)),
            bufs: (4, 8),
            calls: vec![Call::Agg(Table { columns: cols(&["k", "_count"]), rows: vec![row(&[("k", s("")), ("_count", Value::Int(7))]), row(&[("k", s("a")), ("_count", Value::Int(3))])] })],
            judge: true,
        },
        // witness of the open finding C19/wide-char-width: 12 wide characters are 24 cells on a 20-column terminal
        Case {
            family: "fixed",
            size: Some((20, 10)),
            bufs: (4, 8),
            calls: vec![Call::Agg(Table { columns: cols(&["k"]), rows: vec![row(&[("k", s("日本語日本語日本語日本語"))])] })],
            judge: true,
        },
        // witness: multi-byte column name makes the separator longer than the table
        Case {
            family: "fixed",
            size: Some((20, 10)),
            bufs: (4, 8),
            calls: vec![Call::Agg(Table { columns: cols(&["größe_ñandú", "_count"]), rows: vec![row(&[("größe_ñandú", s("abcdefghijklmnopqrstuvwxyz")), ("_count", Value::Int(1))])] })],
            judge: true,
        },
    ]
}

fn run_case(ctx: &mut Ctx, idx: usize, case: &Case) {
    let imp_res = run_impl(case.size, case.bufs, &case.calls);
    let model = run_model(ctx, case.size, case.bufs, &case.calls);
    let key = format!("{}:{}", case.family, idx);
    let info = serde_json::json!({"size": case.size, "bufs": [case.bufs.0, case.bufs.1], "calls": calls_json(&case.calls),
        "request": if case.calls.iter().map(|c| c.encode().len()).sum::<usize>() < 4000 { req_of(case.size, case.bufs, &case.calls) } else { String::new() }});
    if model.raw.starts_with("SKIP") {
        ctx.case(case.family, "", "skip", serde_json::json!({"why": model.raw.clone(), "case": info}));
        return;
    }
    // P-level
    let mut viols: Vec<Viol> = vec![];
    if case.judge {
        let mut prev_order: Vec<String> = vec![];
        for (i, c) in case.calls.iter().enumerate() {
            if i >= imp_res.outs.len() {
                break;
            }
            let empty_w: Vec<(String, usize)> = vec![];
            let empty_o: Vec<String> = vec![];
            let widths = imp_res.widths.get(i).unwrap_or(&empty_w);
            let order = imp_res.orders.get(i).unwrap_or(&empty_o);
            let vs = match c {
                Call::Agg(t) => {
                    if t.rows.iter().any(|r| r.iter().any(|kv| has_control(&render(&kv.1)))) {
                        vec![]
                    } else {
                        judge_aggregate(t, case.size, &imp_res.outs[i], widths)
                    }
                }
                Call::Rec(raw, data) => {
                    let v = judge_record(data, raw, &imp_res.outs[i], order, &prev_order, case.size);
                    prev_order = order.clone();
                    v
                }
            };
            if !vs.is_empty() {
                viols = vs;
                break;
            }
        }
    }
    // F-level
    let f = compare_calls(&imp_res, &model);
    // a failure of the property's own oracle on the real code is the stronger report: it comes
    // first (unless AGVERIF_F_FIRST asks for the model comparison to be judged first)
    let f_first = std::env::var("AGVERIF_F_FIRST").is_ok();
    if let (Err(d), true) = (&f, f_first || viols.is_empty()) {
        ctx.case(case.family, &key, "fdis", serde_json::json!({"what": d, "case": info}));
        return;
    }
    if let Some(v) = viols.into_iter().next() {
        // reproduced witnesses of findings listed as open in /verif/known_findings.json
        let verdict = if OPEN_CLASSES.contains(&v.class) { "known" } else { "viol" };
        ctx.case(case.family, &key, verdict, serde_json::json!({"class": v.class, "what": v.what, "case": info}));
        return;
    }
    ctx.case(case.family, &key, "pass", serde_json::json!({"size": case.size, "calls": case.calls.len(),
        "columns": match &case.calls[0] { Call::Agg(t) => t.columns.len(), Call::Rec(_, d) => d.len() },
        "rows": match &case.calls[0] { Call::Agg(t) => t.rows.len(), Call::Rec(..) => 1 }}));
}

pub fn check(ctx: &mut Ctx) {
    if ctx.shard == 0 {
        for (i, c) in fixed_cases().iter().enumerate() {
            run_case(ctx, i, c);
        }
        // format_with_ellipsis on its own
        for (inp, limit) in [("abcde", 4usize), ("abcde", 10), ("abcde", 5), ("ab", 1), ("a", 0), ("", 0), ("日本語テキスト", 4), ("é", 1)] {
            let r = catch_unwind(|| ag::verif::format_with_ellipsis(inp, limit));
            let n = inp.chars().count();
            let want: Option<String> = if n <= limit {
                Some(format!("{}{}", inp, " ".repeat(limit - n)))
            } else if limit < 2 {
                Some(inp.chars().take(limit).collect())
            } else {
                Some(format!("{}… ", inp.chars().take(limit.saturating_sub(2)).collect::<String>()))
            };
            let key = format!("ellipsis:{}:{}", inp, limit);
            match r {
                Ok(s) if Some(&s) == want.as_ref() && s.chars().count() == limit => ctx.case("ellipsis", &key, "pass", serde_json::json!({"inp": inp, "limit": limit})),
                Ok(s) => ctx.case("ellipsis", &key, "viol", serde_json::json!({"class": "C19/ellipsis", "what": format!("format_with_ellipsis({:?},{}) = {:?}", inp, limit, s)})),
                Err(_) => ctx.case("ellipsis", &key, "viol", serde_json::json!({"class": "C19/ellipsis-underflow", "what": format!("format_with_ellipsis({:?}, {}) panics: a cell longer than a column narrower than 2", inp, limit), "inp": inp, "limit": limit})),
            }
        }
    }
    let n = ctx.budget(3000, 60000);
    let thorough = ctx.thorough();
    for i in 0..n {
        let mut r = ctx.rng.fork();
        let case = gen_case(&mut r, thorough);
        run_case(ctx, ctx.shard * 1_000_000 + i, &case);
    }
}
