//! C07: parse and split extract exactly the delimited text.
//!
//! F-level (model vs implementation, verdict `fdis`):
//!   split        `split_with_delimiters` (hook `ag::verif::verif_split`) = model `SPLIT`
//!   split-e2e    `* | split on "<sep>"`, `* | json | split(f) on "<sep>" as g` through RUN
//!   parse-e2e    `* | parse "p0*p1*…" [from f] as … [nodrop] [noconvert]` through RUN
//!   parse-regex  `* | parse regex "…"` through RUN (the model answers SKIP)
//! P-level (implementation vs the property text, verdict `viol`; no model, no regex crate):
//!   split-spec   C07/split-token-empty-or-untrimmed, C07/split-order,
//!                C07/split-differs-from-plain-split, C07/split-quoted-token
//!   parse-spec   C07/parse-match-differs-from-spec, C07/parse-noconvert-not-text,
//!                C07/parse-reconstruct, C07/parse-bound-text-has-newline,
//!                C07/parse-not-leftmost-shortest, C07/parse-convert, C07/parse-nodrop,
//!                C07/parse-frame, C07/parse-order, C07/parse-field-count
//!   parse-regex-spec  C07/parse-regex-named-groups
//!   any panic / hang  C07/crash   (the empty separator: rejected at compile time since the repair;
//!                     checked last on shard 0, a hang there is C07/split-empty-separator-hangs)
use super::common::*;
use super::kwgen::{self, Kind, Passes};
use crate::canon::{self, J};
use crate::enc;
use crate::imp;
use crate::rng::Rng;
use crate::Ctx;
use serde_json::json;
use std::time::Duration;

fn crash_of(run: &imp::ImplRun) -> Option<String> {
    if run.hung {
        Some("hung (no result within the time limit)".into())
    } else {
        run.panicked.clone()
    }
}

/* ------------------------------------------------------------------------------------------ */
/* split: the function                                                                         */
/* ------------------------------------------------------------------------------------------ */

const SEP_CHARS: &[char] = &[' ', ',', ';', '-', '.', 'a', 'é', '→', '\u{2003}', '\t', ':', '|', 'x', '='];

fn gen_sep(r: &mut Rng) -> String {
    match r.below(10) {
        0..=2 => (*r.pick(&[" ", ",", ";", "|", "\t", "é", "→", "\u{2003}", "a", "."])).to_string(),
        3..=4 => (*r.pick(&["::", ", ", "--", "=>", "ab", "aa", "é→", "  ", "..", "→ "])).to_string(),
        5 => (*r.pick(&[" - ", "...", "aba", "→→→", " | ", "\u{2003}é ", "xax"])).to_string(),
        6 if r.chance(20) => (*r.pick(&["\"", "'", "\",", "a'"])).to_string(),
        _ => {
            let n = 1 + r.below(3);
            (0..n).map(|_| *r.pick(SEP_CHARS)).collect()
        }
    }
}

fn plain_token(r: &mut Rng) -> String {
    let n = 1 + r.below(5);
    (0..n)
        .map(|_| match r.below(100) {
            0..=69 => *r.pick(kwgen::ALNUM),
            70..=79 => *r.pick(&['7', '.', '-', 'e', '5']),
            80..=89 => *r.pick(SEP_CHARS),
            90..=93 => '\\',
            _ => *r.pick(&['é', '日', '_', '/', '\u{00A0}']),
        })
        .collect()
}

fn pad(r: &mut Rng) -> &'static str {
    match r.below(10) {
        0 => " ",
        1 => "\t",
        2 => "  ",
        3 => "\u{2003}",
        _ => "",
    }
}

fn gen_split_text(r: &mut Rng, sep: &str) -> String {
    let quotes = r.chance(60);
    let n = r.below(8);
    let mut out = String::new();
    if r.chance(15) {
        out.push_str(sep);
    }
    for i in 0..n {
        if i > 0 {
            out.push_str(pad(r));
            out.push_str(sep);
            if r.chance(10) {
                out.push_str(sep);
            }
            out.push_str(pad(r));
        }
        let kind = if quotes { r.below(12) } else { r.below(5) };
        match kind {
            0..=3 => out.push_str(&plain_token(r)),
            4 => {} // empty piece
            5 | 6 => {
                // quoted, possibly with the separator, an escaped quote, the other quote inside
                let q = if r.chance(65) { '"' } else { '\'' };
                out.push(q);
                let m = r.below(4);
                for j in 0..m {
                    if j > 0 {
                        out.push_str(if r.chance(60) { sep } else { " " });
                    }
                    out.push_str(&plain_token(r));
                    if r.chance(15) {
                        out.push('\\');
                        out.push(q);
                    }
                    if r.chance(10) {
                        out.push(if q == '"' { '\'' } else { '"' });
                    }
                }
                out.push(q);
            }
            7 => {
                // unterminated quote
                out.push(if r.chance(50) { '"' } else { '\'' });
                out.push_str(&plain_token(r));
            }
            8 | 9 => {
                // quote character in the middle / at the end of a token
                out.push_str(&plain_token(r));
                out.push(if r.chance(50) { '"' } else { '\'' });
                if r.chance(70) {
                    out.push_str(&plain_token(r));
                }
            }
            10 => {
                // padding before a quoted token
                out.push_str(" \"");
                out.push_str(&plain_token(r));
                out.push('"');
            }
            _ => {
                // closing quote directly followed by text
                out.push('"');
                out.push_str(&plain_token(r));
                out.push('"');
                out.push_str(&plain_token(r));
            }
        }
    }
    if r.chance(15) {
        out.push_str(sep);
    }
    if r.chance(10) {
        out.push_str(pad(r));
    }
    kwgen::truncate_chars(&out, 60)
}

/// the hook on a watchdog thread: Ok(tokens) | Err(panic message or "hung")
fn impl_split(text: &str, sep: &str) -> Result<Vec<String>, String> {
    assert!(!sep.is_empty(), "the empty separator must never reach the hook (known hang)");
    let (t, s) = (text.to_string(), sep.to_string());
    let (tx, rx) = std::sync::mpsc::channel();
    std::thread::spawn(move || {
        let r = std::panic::catch_unwind(move || ag::verif::verif_split(&t, &s));
        let _ = tx.send(r);
    });
    match rx.recv_timeout(Duration::from_secs(5)) {
        Ok(Ok(v)) => Ok(v),
        Ok(Err(_)) => Err(imp::LAST_PANIC.lock().map(|g| g.clone()).unwrap_or_default()),
        Err(_) => Err("hung (no result within 5 s)".into()),
    }
}

/// P-level reading of `split`: returns (class, what) of the first broken clause
fn split_oracle(text: &str, sep: &str, toks: &[String]) -> Option<(&'static str, String)> {
    // every token non-empty and trimmed
    for t in toks {
        if t.is_empty() || t.trim() != t {
            return Some(("C07/split-token-empty-or-untrimmed", format!("token {:?}", t)));
        }
    }
    // in input order, non-overlapping
    let mut from = 0usize;
    for t in toks {
        match text[from..].find(t.as_str()) {
            Some(i) => from += i + t.len(),
            None => return Some(("C07/split-order", format!("token {:?} does not occur after the previous tokens", t))),
        }
    }
    let has_quote = text.contains('"') || text.contains('\'');
    if !has_quote {
        let want: Vec<String> = text.split(sep).map(|p| p.trim().to_string()).filter(|p| !p.is_empty()).collect();
        if want != toks {
            return Some(("C07/split-differs-from-plain-split", format!("without quote characters the tokens must be {:?}", want)));
        }
        return None;
    }
    // quoted token at a certain token boundary: the first quote character of the text, when the
    // text before it is a sequence of complete pieces (ends right after a separator, or is empty)
    if sep.contains('"') || sep.contains('\'') {
        return None;
    }
    let p = text.find(|c| c == '"' || c == '\'').unwrap();
    let prefix = &text[..p];
    let mut i = 0usize;
    let mut before = 0usize; // tokens the prefix contributes
    let mut boundary = p == 0;
    while i < prefix.len() {
        match prefix[i..].find(sep) {
            Some(j) => {
                if !prefix[i..i + j].trim().is_empty() {
                    before += 1;
                }
                i += j + sep.len();
                boundary = i == p;
            }
            None => {
                boundary = false;
                break;
            }
        }
    }
    if !boundary {
        return None;
    }
    let q = text[p..].chars().next().unwrap();
    let body = &text[p + 1..];
    // first closing quote not preceded by a backslash
    let mut prev: Option<char> = Some(q);
    let mut close: Option<usize> = None;
    for (bi, c) in body.char_indices() {
        if c == q && prev != Some('\\') {
            close = Some(bi);
            break;
        }
        prev = Some(c);
    }
    if let Some(ci) = close {
        let inner = body[..ci].trim();
        if !inner.is_empty() && toks.get(before).map(|s| s.as_str()) != Some(inner) {
            return Some(("C07/split-quoted-token", format!("the quoted token {:?} must be token #{} (whole, without its quotes), got {:?}", inner, before, toks.get(before))));
        }
    }
    None
}

fn split_case(ctx: &mut Ctx, ps: &mut Passes) {
    let mut r = ctx.rng.fork();
    let sep = gen_sep(&mut r);
    let text = gen_split_text(&mut r, &sep);
    let key = format!("{}:{}", enc::hex(&sep), enc::hex(&text));
    let info = || json!({"sep": sep, "sep_hex": enc::hex(&sep), "text": text, "text_hex": enc::hex(&text)});
    let toks = match impl_split(&text, &sep) {
        Ok(t) => t,
        Err(p) => {
            ctx.case("split", &key, "viol", json!({"class": "C07/crash", "what": "split_with_delimiters panicked or hung", "panic": p, "case": info()}));
            return;
        }
    };
    // F-level
    let req = format!("SPLIT\t{}\t{}", enc::hex(&sep), enc::hex(&text));
    let model = ctx.drv.ask(&req);
    let mut t = vec!["TOKS".to_string(), format!("{}", toks.len())];
    t.extend(toks.iter().map(|x| format!("S{}", enc::hex(x))));
    let got = t.join(" ");
    if model.starts_with("SKIP") {
        ctx.case("split", "", "skip", json!({"why": kwgen::skip_why(&model)}));
    } else if model == got {
        ps.pass(ctx, "split", &key, || json!({"tokens": toks, "case": info()}));
    } else {
        ctx.case("split", &key, "fdis", json!({"what": "token lists differ", "request": req, "impl": got, "model": model,
            "impl_tokens": toks, "model_tokens": kwgen::answer_strings(&model), "case": info()}));
    }
    // P-level
    ctx.count(if text.contains('"') || text.contains('\'') { "split:text-with-quotes" } else { "split:text-without-quotes" });
    match split_oracle(&text, &sep, &toks) {
        None => ps.pass(ctx, "split-spec", &key, || json!({"tokens": toks, "case": info()})),
        Some((class, what)) => ctx.case("split-spec", &key, "viol", json!({"class": class, "what": what, "tokens": toks, "case": info()})),
    }
}

/* ------------------------------------------------------------------------------------------ */
/* split: end to end                                                                           */
/* ------------------------------------------------------------------------------------------ */

fn f_level(ctx: &mut Ctx, ps: &mut Passes, family: &str, query: &str, input: &[u8]) -> RunCmp {
    let c = run_both(ctx, query, input);
    let key = ckey(query, input);
    if let Some(p) = crash_of(&c.imp) {
        ctx.case(family, &key, "viol", json!({"class": "C07/crash", "what": "the implementation panicked or hung", "panic": p, "case": case_info(query, input)}));
        return c;
    }
    match compare(&c, true) {
        F::Agree => ps.pass(ctx, family, &key, || case_info(query, input)),
        F::Skip(w) => ctx.case(family, "", "skip", json!({"why": kwgen::skip_why(&w)})),
        F::Disagree(d) => ctx.case(family, &key, "fdis", json!({"what": d, "case": case_info(query, input)})),
    }
    c
}

fn split_e2e_case(ctx: &mut Ctx, ps: &mut Passes) {
    let mut r = ctx.rng.fork();
    let sep = gen_sep(&mut r);
    let n = 1 + r.below(5);
    if r.chance(50) {
        let q = format!("* | split on {}", kwgen::quote_any(&mut r, &sep));
        let mut input = vec![];
        let mut texts: Vec<String> = vec![];
        for i in 0..n {
            // a third of the lines do not contain the separator at all (one token — which may be quoted)
            let t = if r.chance(30) {
                (*r.pick(&["\"hello world\"", "'single quoted'", "\"\"", "plain", "  padded", "\"GET /x\" 200", "'a' 'b'", "\"esc \\\" aped\""])).to_string()
            } else {
                gen_split_text(&mut r, &sep).replace('\n', " ")
            };
            let t = if t.contains(&sep) && r.chance(0) { t } else { t };
            input.extend(t.as_bytes());
            texts.push(t);
            if i + 1 < n || r.chance(85) {
                input.extend(if r.chance(8) { &b"\r\n"[..] } else { &b"\n"[..] });
            }
        }
        let c = f_level(ctx, ps, "split-e2e", &q, &input);
        // P-level: the operator's tokens are those of the tokenizer (judged on its own by
        // `split-spec`), each converted like any extracted text — whether or not the separator
        // occurs in the line
        // (only for lines without trailing blanks: how much of a raw line's tail reaches the
        // tokenizer is the reader's business, C15/C12)
        if c.imp.compiled && c.imp.panicked.is_none() && !c.imp.hung && texts.iter().all(|t| t.as_str() == t.trim_end()) {
            let rows = crate::canon::normalized_lines(&c.imp.stdout).unwrap_or_default();
            let mut want_rows: Vec<crate::canon::J> = vec![];
            for t in &texts {
                let line = t.trim_end_matches(|ch| ch == '\r');
                if let Ok(toks) = impl_split(line.trim_end(), &sep) {
                    let vals: Vec<crate::canon::J> = toks.iter().map(|x| crate::canon::normalize(&crate::canon::parse(&serde_json::to_string(&ag::data::Value::from_string(x.as_str())).unwrap()).unwrap())).collect();
                    want_rows.push(crate::canon::J::Arr(vals));
                }
            }
            let got: Vec<crate::canon::J> = rows.iter().filter_map(|row| match row { crate::canon::J::Obj(kvs) => kvs.iter().find(|kv| kv.0 == "_split").map(|kv| kv.1.clone()), _ => None }).collect();
            let key = ckey(&q, &input);
            if got.len() == want_rows.len() && got != want_rows {
                ctx.case("split-e2e-spec", &key, "viol", json!({"class": "C07/split-operator-differs-from-tokenizer", "what": "the `split` operator's array is not the tokenizer's tokens for that line", "got": format!("{:?}", got), "expected": format!("{:?}", want_rows), "case": case_info(&q, &input)}));
            } else if got.len() == want_rows.len() {
                ps.pass(ctx, "split-e2e-spec", &key, || case_info(&q, &input));
            }
        }
    } else {
        let dst = match r.below(10) {
            0..=5 => " as g",
            6 => " as k",
            7 => " as o.p",
            _ => "",
        };
        let q = format!("* | json | split(f) on {}{}", kwgen::quote_any(&mut r, &sep), dst);
        let mut input = vec![];
        for i in 0..n {
            let f = match r.below(12) {
                0 => "7".to_string(),
                1 => "null".to_string(),
                _ => serde_json::to_string(&gen_split_text(&mut r, &sep)).unwrap(),
            };
            let mut members = vec![format!("\"id\":{}", i)];
            if !r.chance(6) {
                members.push(format!("\"f\":{}", f));
            }
            if r.chance(50) {
                members.push("\"k\":\"old\"".to_string());
            }
            if r.chance(50) {
                members.push("\"o\":{\"p\":1,\"z\":2}".to_string());
            }
            input.extend(format!("{{{}}}\n", members.join(",")).into_bytes());
        }
        f_level(ctx, ps, "split-e2e", &q, &input);
    }
}

/* ------------------------------------------------------------------------------------------ */
/* parse: wildcard patterns                                                                    */
/* ------------------------------------------------------------------------------------------ */

fn gen_literal(r: &mut Rng) -> String {
    let n = match r.below(10) {
        0..=3 => 1,
        4..=6 => 2,
        7 => 3,
        8 => 4,
        _ => 5 + r.below(2),
    };
    let mut s = String::new();
    for _ in 0..n {
        match r.below(100) {
            0..=44 => s.push(*r.pick(kwgen::ALNUM)),
            45..=59 => s.push(*r.pick(&['=', ':', ',', '/', '_'])),
            60..=71 => s.push(' '),
            72..=89 => {
                let c = *r.pick(kwgen::META);
                s.push(if c == '*' { '+' } else { c })
            }
            90..=92 => s.push('"'),
            93..=94 => s.push('\''),
            95..=96 => s.push_str("\\\""),
            _ => s.push('\t'),
        }
    }
    kwgen::truncate_chars(&s, 6)
}

/// the pattern text (as the keyword sees it, after query-level unescaping) with `nw` wildcards
fn gen_pattern(r: &mut Rng) -> (String, usize) {
    let nw = match r.below(10) {
        0..=2 => 1,
        3..=5 => 2,
        6..=7 => 3,
        _ => 4 + r.below(5),
    };
    let mut text = String::new();
    for i in 0..=nw {
        let ends = i == 0 || i == nw;
        let empty = if ends { r.chance(35) } else { r.chance(8) };
        if !empty {
            text.push_str(&gen_literal(r));
        }
        if i < nw {
            text.push('*');
        }
    }
    if r.chance(3) {
        text.push(*r.pick(kwgen::CASED));
    }
    (text, nw)
}

fn gen_value(r: &mut Rng, from: bool) -> String {
    match r.below(16) {
        0 => String::new(),
        1 | 2 => format!("{}", r.range(-20, 500)),
        3 => (*r.pick(&["1e3", "3.50", "007", "-0", "1.0", "9223372036854775808", ".5", "NaN", "inf", "0x1f", "1_0"])).to_string(),
        4 => (*r.pick(&["true", "false", "TRUE", "True"])).to_string(),
        5 => format!(" {} ", r.range(0, 99)),
        6 => (*r.pick(&["x y", "GET", "abc", "a=b", "a*b", "q\"t", "it's", "12ms", "a\tb"])).to_string(),
        7 if from => format!("up{}down", "\n"),
        8 => kwgen::junk(r, 6),
        _ => {
            let n = 1 + r.below(4);
            (0..n).map(|_| *r.pick(kwgen::ALNUM)).collect()
        }
    }
}

/// a line (or field value) around the pattern's literals
fn gen_parse_line(r: &mut Rng, pattern: &str, from: bool) -> String {
    let lits = kwgen::pieces(Kind::Wild, pattern);
    let mut out = String::new();
    if r.chance(12) {
        out.push_str(*r.pick(&[" ", "\t", "  ", "\u{00A0}"]));
    }
    if r.chance(40) {
        out.push_str(&kwgen::junk(r, 4));
    }
    let mode = r.below(100);
    let bad = r.below(lits.len());
    for (i, l) in lits.iter().enumerate() {
        if i > 0 {
            out.push_str(&gen_value(r, from));
        }
        match mode {
            0..=69 => out.push_str(&kwgen::variant(r, l, from)),
            70..=84 if i == bad => out.push_str(&kwgen::damaged(r, l)),
            85..=89 if i == bad => {}
            90..=94 => {
                // the literal twice: the shortest gap has to stop at the first one
                out.push_str(&kwgen::variant(r, l, false));
                if r.chance(50) {
                    out.push_str(&kwgen::variant(r, l, false));
                }
            }
            _ => out.push_str(&kwgen::variant(r, l, false)),
        }
    }
    if r.chance(40) {
        out.push_str(&kwgen::junk(r, 4));
    }
    if r.chance(10) {
        out.push_str(*r.pick(&[" ", "\t", "\u{2003}"]));
    }
    let out = if from { out } else { out.replace('\n', " ") };
    kwgen::truncate_chars(&out, 80)
}

const FIELD_NAMES: &[&str] = &["a", "b", "c", "d", "e", "f", "g", "h", "k", "n", "x", "v1", "_f"];

struct ParseCase {
    pattern: String,
    fields: Vec<String>,
    from: bool,
    nodrop: bool,
    noconvert: bool,
    wrong_count: bool,
    from_first: bool,
    as_spacing: bool,
}

impl ParseCase {
    fn query(&self, r_quote: &str, force_noconvert: bool) -> String {
        let mut q = String::from(if self.from { "* | json | parse " } else { "* | parse " });
        q.push_str(r_quote);
        if self.from && self.from_first {
            q.push_str(" from msg");
        }
        q.push_str(" as ");
        q.push_str(&self.fields.join(if self.as_spacing { ", " } else { "," }));
        if self.from && !self.from_first {
            q.push_str(" from msg");
        }
        if self.nodrop {
            q.push_str(" nodrop");
        }
        if self.noconvert || force_noconvert {
            q.push_str(" noconvert");
        }
        q
    }
}

#[derive(Clone, Copy)]
enum Item {
    Lit(char),
    Txt(char),
}

/// does `lit0 + text1 + lit1 + …` occur in `line` (literals up to ASCII case / whitespace class)?
fn reconstruct_occurs(pattern: &str, texts: &[String], line: &str) -> bool {
    let lits = kwgen::pieces(Kind::Wild, pattern);
    let mut seq: Vec<Item> = vec![];
    for (i, l) in lits.iter().enumerate() {
        if i > 0 {
            match texts.get(i - 1) {
                Some(t) => seq.extend(t.chars().map(Item::Txt)),
                None => return false,
            }
        }
        seq.extend(l.chars().map(Item::Lit));
    }
    let l: Vec<char> = line.chars().collect();
    if seq.len() > l.len() {
        return false;
    }
    (0..=l.len() - seq.len()).any(|p| {
        seq.iter().zip(&l[p..]).all(|(it, c)| match it {
            Item::Lit(k) => kwgen::ch_match(*k, *c),
            Item::Txt(t) => t == c,
        })
    })
}

fn get<'a>(row: &'a [(String, J)], k: &str) -> Option<&'a J> {
    row.iter().find(|kv| kv.0 == k).map(|kv| &kv.1)
}

/// `Value::from_string(text)` as `-o json` prints it
fn converted(text: &str) -> Option<J> {
    let v = ag::data::Value::from_string(text);
    let s = serde_json::to_string(&v).ok()?;
    canon::parse(&s).ok().map(|j| canon::normalize(&j))
}

fn j_eq(a: &J, b: &J) -> bool {
    match (a, b) {
        (J::Float(x), J::Float(y)) => enc::norm_bits(*x) == enc::norm_bits(*y),
        _ => a == b,
    }
}

struct InRow {
    /// the text `parse` reads (None: not a string / absent — nothing is demanded of that row)
    text: Option<String>,
    /// the fields the row has before `parse` (normalised)
    fields: Vec<(String, J)>,
    /// shown in reports
    raw: String,
}

/// first violated clause of the parse oracle: (class, what)
fn parse_oracle(pc: &ParseCase, rows_in: &[InRow], out_nc: &[Vec<(String, J)>], out_main: Option<&[Vec<(String, J)>]>, stats: &mut Vec<bool>) -> Option<(&'static str, String)> {
    // pair the output rows with the input rows
    let mut pairs: Vec<(usize, usize)> = vec![]; // (input index, output index)
    if pc.from {
        let mut last: i64 = -1;
        for (oi, row) in out_nc.iter().enumerate() {
            let id = match get(row, "id") {
                Some(J::Int(i)) => *i,
                _ => return Some(("C07/parse-frame", format!("output row {} lost its id field", oi))),
            };
            if id <= last {
                return Some(("C07/parse-order", format!("output row with id {} comes after id {}", id, last)));
            }
            last = id;
            if id < 0 || id as usize >= rows_in.len() {
                return Some(("C07/parse-frame", format!("output row with unknown id {}", id)));
            }
            pairs.push((id as usize, oi));
        }
    } else {
        let expected: Vec<usize> = rows_in
            .iter()
            .enumerate()
            .filter(|(_, ir)| pc.nodrop || kwgen::kw_spec(Kind::Wild, &pc.pattern, ir.text.as_ref().unwrap().trim()))
            .map(|(i, _)| i)
            .collect();
        if expected.len() != out_nc.len() {
            return Some(("C07/parse-match-differs-from-spec", format!("{} row(s) come out, the literal segments occur in order in {} line(s)", out_nc.len(), expected.len())));
        }
        pairs = expected.into_iter().enumerate().map(|(oi, ii)| (ii, oi)).collect();
    }
    if out_nc.len() > rows_in.len() {
        return Some(("C07/parse-order", "more rows out than in".into()));
    }
    // presence (from: by id)
    if pc.from {
        for (ii, ir) in rows_in.iter().enumerate() {
            if let Some(t) = &ir.text {
                let want = pc.nodrop || kwgen::kw_spec(Kind::Wild, &pc.pattern, t.trim());
                let have = pairs.iter().any(|p| p.0 == ii);
                if want != have {
                    return Some(("C07/parse-match-differs-from-spec", format!("row {} ({:?}) {} but the literal segments {} in order in the trimmed text",
                        ii, t, if have { "survives" } else { "is dropped" }, if want { "occur" } else { "do not occur" })));
                }
            }
        }
    }
    for (ii, oi) in &pairs {
        let ir = &rows_in[*ii];
        let row = &out_nc[*oi];
        let text = match &ir.text {
            Some(t) => t.trim().to_string(),
            None => continue,
        };
        let caps = kwgen::kw_caps(Kind::Wild, &pc.pattern, &text);
        stats.push(caps.is_some());
        match caps {
            None => {
                // only nodrop keeps it: existing fields untouched, absent ones null
                if !pc.nodrop {
                    return Some(("C07/parse-match-differs-from-spec", format!("row {} ({:?}) survives but the literal segments do not occur in order", ii, ir.raw)));
                }
                for (k, v) in &ir.fields {
                    if get(row, k) != Some(v) {
                        return Some(("C07/parse-nodrop", format!("non-matching row {}: existing field {} changed from {:?} to {:?}", ii, k, v, get(row, k))));
                    }
                }
                for f in &pc.fields {
                    if get(&ir.fields, f).is_none() && get(row, f) != Some(&J::Null) {
                        return Some(("C07/parse-nodrop", format!("non-matching row {}: absent field {} must be null, got {:?}", ii, f, get(row, f))));
                    }
                }
                for (k, _) in row {
                    if get(&ir.fields, k).is_none() && !pc.fields.contains(k) {
                        return Some(("C07/parse-frame", format!("row {}: unnamed field {} appeared", ii, k)));
                    }
                }
            }
            Some((_, want)) => {
                let mut texts: Vec<String> = vec![];
                for f in &pc.fields {
                    match get(row, f) {
                        Some(J::Str(s)) => texts.push(s.clone()),
                        other => return Some(("C07/parse-noconvert-not-text", format!("row {}: field {} is {:?} under noconvert", ii, f, other))),
                    }
                }
                if let Some(t) = texts.iter().find(|t| t.contains('\n')) {
                    return Some(("C07/parse-bound-text-has-newline", format!("row {}: bound text {:?}", ii, t)));
                }
                if !reconstruct_occurs(&pc.pattern, &texts, &text) {
                    return Some(("C07/parse-reconstruct", format!("row {}: substituting {:?} into the pattern does not give a part of {:?}", ii, texts, text)));
                }
                if texts != want {
                    return Some(("C07/parse-not-leftmost-shortest", format!("row {} ({:?}): bound {:?}, leftmost match with shortest gaps binds {:?}", ii, text, texts, want)));
                }
                // frame
                for (k, v) in &ir.fields {
                    if !pc.fields.contains(k) && get(row, k) != Some(v) {
                        return Some(("C07/parse-frame", format!("row {}: untouched field {} changed from {:?} to {:?}", ii, k, v, get(row, k))));
                    }
                }
                for (k, _) in row {
                    if get(&ir.fields, k).is_none() && !pc.fields.contains(k) {
                        return Some(("C07/parse-frame", format!("row {}: unnamed field {} appeared", ii, k)));
                    }
                }
            }
        }
    }
    // conversion: the main run against the noconvert run
    if let Some(main) = out_main {
        if main.len() != out_nc.len() {
            return Some(("C07/parse-convert", format!("{} rows with conversion, {} with noconvert", main.len(), out_nc.len())));
        }
        for (ri, (m, n)) in main.iter().zip(out_nc.iter()).enumerate() {
            let keys_m: Vec<&String> = m.iter().map(|kv| &kv.0).collect();
            let keys_n: Vec<&String> = n.iter().map(|kv| &kv.0).collect();
            if keys_m != keys_n {
                return Some(("C07/parse-convert", format!("output row {}: fields {:?} with conversion, {:?} with noconvert", ri, keys_m, keys_n)));
            }
            for (k, v) in n {
                let got = get(m, k).unwrap();
                if pc.fields.contains(k) {
                    // a bound field: text -> from_string(text); null (nodrop) and a pre-existing
                    // value of a non-matching row stay
                    let was_bound = match (pc.from, get(n, "id")) {
                        (true, Some(J::Int(id))) => rows_in
                            .get(*id as usize)
                            .and_then(|ir| ir.text.as_ref())
                            .map(|t| kwgen::kw_spec(Kind::Wild, &pc.pattern, t.trim()))
                            .unwrap_or(false),
                        _ => matches!(v, J::Str(_)),
                    };
                    if was_bound {
                        if let J::Str(t) = v {
                            let want = converted(t);
                            if want.as_ref().map(|w| j_eq(w, got)) != Some(true) {
                                return Some(("C07/parse-convert", format!("output row {}: field {} bound to text {:?} shows as {:?}, from_string gives {:?}", ri, k, t, got, want)));
                            }
                            continue;
                        }
                    }
                }
                if !j_eq(v, got) {
                    return Some(("C07/parse-convert", format!("output row {}: field {} is {:?} with conversion, {:?} with noconvert", ri, k, got, v)));
                }
            }
        }
    }
    None
}

fn parse_case(ctx: &mut Ctx, ps: &mut Passes) {
    let mut r = ctx.rng.fork();
    let (pattern, nw) = gen_pattern(&mut r);
    let from = r.chance(30);
    let mut names: Vec<&str> = FIELD_NAMES.to_vec();
    r.shuffle(&mut names);
    let wrong_count = r.chance(5);
    let nf = if wrong_count {
        if nw > 1 && r.chance(50) {
            nw - 1
        } else {
            nw + 1
        }
    } else {
        nw
    };
    let pc = ParseCase {
        pattern: pattern.clone(),
        fields: names[..nf].iter().map(|s| s.to_string()).collect(),
        from,
        nodrop: r.chance(30),
        noconvert: r.chance(30),
        wrong_count,
        from_first: r.chance(50),
        as_spacing: r.chance(50),
    };
    let quoted = kwgen::quote_any(&mut r, &pattern);
    let q = pc.query(&quoted, false);
    let q_nc = pc.query(&quoted, true);

    // input
    let n = 1 + r.below(8);
    let bad_utf8 = r.chance(3);
    let mut input: Vec<u8> = vec![];
    let mut rows_in: Vec<InRow> = vec![];
    for i in 0..n {
        let text = gen_parse_line(&mut r, &pattern, from);
        if from {
            let mut members: Vec<(String, String)> = vec![("id".into(), format!("{}", i))];
            let msg_json = match r.below(20) {
                0 => Some("17".to_string()),
                1 => Some("null".to_string()),
                2 => None,
                _ => Some(serde_json::to_string(&text).unwrap()),
            };
            let is_str = msg_json.as_ref().map(|m| m.starts_with('"')).unwrap_or(false);
            if let Some(m) = &msg_json {
                members.push(("msg".into(), m.clone()));
            }
            // pre-existing fields, some of them named like the fields to bind
            for f in pc.fields.iter().take(2) {
                if r.chance(35) {
                    members.push((f.clone(), (*r.pick(&["\"old\"", "5", "null", "true", "[1,2]"])).to_string()));
                }
            }
            if r.chance(50) {
                members.push(("zz".into(), "\"keep\"".into()));
            }
            let line = format!("{{{}}}", members.iter().map(|(k, v)| format!("{}:{}", serde_json::to_string(k).unwrap(), v)).collect::<Vec<_>>().join(","));
            let fields = match canon::parse(&line).map(|j| canon::normalize(&j)) {
                Ok(J::Obj(kvs)) => kvs,
                _ => vec![],
            };
            rows_in.push(InRow { text: if is_str { Some(text) } else { None }, fields, raw: line.clone() });
            input.extend(line.into_bytes());
            input.push(b'\n');
        } else {
            let term = if i + 1 == n && r.chance(15) {
                ""
            } else if r.chance(8) {
                "\r\n"
            } else {
                "\n"
            };
            let full = format!("{}{}", text, term);
            if full.is_empty() {
                // no bytes at all: not a line
                continue;
            }
            input.extend(full.as_bytes());
            if bad_utf8 && r.chance(40) {
                let at = input.len() - term.len();
                input.insert(at, 0xff);
            }
            rows_in.push(InRow { text: Some(full.clone()), fields: vec![], raw: full });
        }
    }
    let key = ckey(&q, &input);

    // F-level (and crash) on the query as written
    let c = f_level(ctx, ps, "parse-e2e", &q, &input);
    if crash_of(&c.imp).is_some() {
        return;
    }
    if pc.wrong_count {
        if c.imp.compiled {
            ctx.case("parse-spec", &key, "viol", json!({"class": "C07/parse-field-count", "what": format!("{} wildcard(s) but {} field name(s): must be rejected", nw, nf), "case": case_info(&q, &input)}));
        } else {
            ps.pass(ctx, "parse-spec", &key, || json!({"rejected": c.imp.compile_err, "query": q}));
        }
        return;
    }
    if !c.imp.compiled {
        ctx.case("parse-spec", &key, "viol", json!({"class": "C07/parse-rejected", "what": "a well-formed parse query is rejected", "compile_err": c.imp.compile_err,
            "diags": c.imp.diags.iter().map(|d| d.0.clone()).collect::<Vec<_>>(), "case": case_info(&q, &input)}));
        return;
    }
    if std::str::from_utf8(&input).is_err() {
        ctx.case("parse-spec", "", "skip", json!({"why": "input with invalid UTF-8 (crash and model comparison only)"}));
        return;
    }
    if kwgen::has_nonascii_cased(&pattern) || rows_in.iter().any(|ir| ir.text.as_ref().map(|t| kwgen::has_nonascii_cased(t)).unwrap_or(false)) {
        ctx.case("parse-spec", "", "skip", json!({"why": "cased non-ASCII letter (the oracle is ASCII-case only)"}));
        return;
    }
    // the texts: the same query with noconvert
    let nc_run;
    let nc_stdout: &[u8] = if pc.noconvert {
        &c.imp.stdout
    } else {
        nc_run = imp::run(&q_nc, &input, "json", 10);
        if let Some(p) = crash_of(&nc_run) {
            ctx.case("parse-spec", &key, "viol", json!({"class": "C07/crash", "what": "the implementation panicked or hung", "panic": p, "case": case_info(&q_nc, &input)}));
            return;
        }
        &nc_run.stdout
    };
    let out_nc = match record_lines(nc_stdout) {
        Some(x) => x,
        None => {
            ctx.case("parse-spec", &key, "viol", json!({"class": "C07/parse-frame", "what": "output is not a sequence of JSON objects", "case": case_info(&q_nc, &input)}));
            return;
        }
    };
    let out_main = if pc.noconvert { None } else { record_lines(&c.imp.stdout) };
    let mut stats = vec![];
    let verdict = parse_oracle(&pc, &rows_in, &out_nc, out_main.as_deref(), &mut stats);
    for m in &stats {
        ctx.count(if *m { "parse-spec:row-checked-matching" } else { "parse-spec:row-checked-nonmatching-kept" });
    }
    ctx.count(&format!("parse-spec:rows-in={} rows-out", if out_nc.len() == rows_in.len() { "all" } else if out_nc.is_empty() { "no" } else { "some" }));
    match verdict {
        None => ps.pass(ctx, "parse-spec", &key, || json!({"pattern": pattern, "rows_out": out_nc.len(), "case": case_info(&q, &input)})),
        Some((class, what)) => {
            // minimal witness: the first single line on which the clause already fails
            let mut single: Option<serde_json::Value> = None;
            if !pc.from {
                for ir in &rows_in {
                    let one = ir.raw.as_bytes();
                    let r1 = imp::run(&q_nc, one, "json", 10);
                    let m1 = if pc.noconvert { None } else { Some(imp::run(&q, one, "json", 10)) };
                    if let Some(o1) = record_lines(&r1.stdout) {
                        let om = m1.as_ref().and_then(|m| record_lines(&m.stdout));
                        let one_in = [InRow { text: ir.text.clone(), fields: vec![], raw: ir.raw.clone() }];
                        if let Some((c1, w1)) = parse_oracle(&pc, &one_in, &o1, om.as_deref(), &mut vec![]) {
                            single = Some(json!({"class": c1, "what": w1, "line": ir.raw, "line_hex": enc::hex(&ir.raw), "output_noconvert": String::from_utf8_lossy(&r1.stdout)}));
                            break;
                        }
                    }
                }
            }
            ctx.case("parse-spec", &key, "viol", json!({"class": class, "what": what, "pattern": pattern, "pattern_hex": enc::hex(&pattern), "single_line_witness": single,
                "query_noconvert": q_nc, "output_noconvert": String::from_utf8_lossy(nc_stdout), "output": String::from_utf8_lossy(&c.imp.stdout), "case": case_info(&q, &input)}));
        }
    }
}

/* ------------------------------------------------------------------------------------------ */
/* parse regex                                                                                 */
/* ------------------------------------------------------------------------------------------ */

#[derive(Clone)]
enum G {
    Num(String),
    Word(String),
    /// optional group: literal prefix, name
    Opt(String, String),
}

fn regex_case(ctx: &mut Ctx, ps: &mut Passes) {
    let mut r = ctx.rng.fork();
    let ng = 1 + r.below(4);
    let mut names: Vec<&str> = vec!["a", "b", "c", "dd", "e_1", "k"];
    r.shuffle(&mut names);
    // regex text and, per group, how a line spells it
    // every group gets its own separator: two optional groups in a row stay unambiguous
    let mut seps = vec!["=", ": ", " - ", "/", "#", "@", ", ", "\\.", "\\[", "\\|"];
    r.shuffle(&mut seps);
    let mut re = String::new();
    let mut groups: Vec<(G, String)> = vec![]; // (group, literal text before it in a line)
    for i in 0..ng {
        let sep = if i == 0 { "" } else { seps[i] };
        let lit: String = sep.replace('\\', "");
        let name = names[i].to_string();
        match r.below(10) {
            0..=3 => {
                re.push_str(sep);
                re.push_str(&format!("(?P<{}>[0-9]+)", name));
                groups.push((G::Num(name), lit));
            }
            4..=6 => {
                re.push_str(sep);
                re.push_str(&format!("(?P<{}>[b-h]+)", name));
                groups.push((G::Word(name), lit));
            }
            _ if i > 0 => {
                re.push_str(&format!("(?:{}(?P<{}>[0-9]+))?", sep, name));
                groups.push((G::Opt(lit.clone(), name), String::new()));
            }
            _ => {
                re.push_str(&format!("(?P<{}>[0-9]+)", name));
                groups.push((G::Num(name), lit));
            }
        }
    }
    let nodrop = r.chance(30);
    let noconvert = r.chance(40);
    let q = format!("* | parse regex {}{}{}", kwgen::quote(&re, if r.chance(70) { '"' } else { '\'' }), if nodrop { " nodrop" } else { "" }, if noconvert { " noconvert" } else { "" });
    let all_names: Vec<String> = groups
        .iter()
        .map(|g| match &g.0 {
            G::Num(n) | G::Word(n) | G::Opt(_, n) => n.clone(),
        })
        .collect();
    let n = 1 + r.below(6);
    let mut input = String::new();
    let mut expected: Vec<Vec<(String, J)>> = vec![];
    // characters outside every class of the regex AS WRITTEN — among them the upper-case forms of
    // the word class's letters: the user's regex is case-sensitive unless it says otherwise
    let outside = ['X', 'Y', 'Z', ' ', ';', '!', 'Q', 'B', 'D', 'G', 'H'];
    for _ in 0..n {
        let mut line = String::new();
        let np = r.below(4);
        for _ in 0..np {
            line.push(*r.pick(&outside));
        }
        let broken = r.chance(25);
        let break_at = r.below(groups.len());
        let mut row: Vec<(String, J)> = vec![];
        let mut matched = true;
        for (gi, (g, lit)) in groups.iter().enumerate() {
            let digits = |r: &mut Rng| -> String {
                let n = 1 + r.below(5);
                (0..n).map(|_| (b'0' + r.below(10) as u8) as char).collect()
            };
            match g {
                G::Num(name) | G::Word(name) => {
                    if broken && gi == break_at {
                        // the mandatory group is missing: no match at all (the prefix has no
                        // character of any class, so no later start can succeed)
                        matched = false;
                        line.push_str(lit);
                        line.push('Z');
                        break;
                    }
                    line.push_str(lit);
                    let v = if matches!(g, G::Num(_)) {
                        digits(&mut r)
                    } else {
                        let n = 1 + r.below(4);
                        (0..n).map(|_| *r.pick(&['b', 'c', 'd', 'g', 'h'])).collect()
                    };
                    line.push_str(&v);
                    let j = if noconvert || matches!(g, G::Word(_)) { J::Str(v) } else { J::Int(v.parse::<i64>().unwrap()) };
                    row.push((name.clone(), j));
                }
                G::Opt(pre, name) => {
                    if r.chance(50) {
                        let v = digits(&mut r);
                        line.push_str(pre);
                        line.push_str(&v);
                        let j = if noconvert { J::Str(v) } else { J::Int(v.parse::<i64>().unwrap()) };
                        row.push((name.clone(), j));
                    } else {
                        row.push((name.clone(), J::Null));
                    }
                }
            }
        }
        // a mandatory group right after an absent optional one would need the separator that
        // belongs to it: keep the construction simple — the separator is part of the mandatory
        // group's own literal, so nothing else is needed here
        let ns = r.below(3);
        for _ in 0..ns {
            line.push(*r.pick(&outside[..4]));
        }
        input.push_str(&line);
        input.push('\n');
        if matched {
            row.sort_by(|a, b| a.0.cmp(&b.0));
            expected.push(row);
        } else if nodrop {
            let mut row: Vec<(String, J)> = all_names.iter().map(|n| (n.clone(), J::Null)).collect();
            row.sort_by(|a, b| a.0.cmp(&b.0));
            expected.push(row);
        }
    }
    let inb = input.as_bytes();
    let key = ckey(&q, inb);
    let c = f_level(ctx, ps, "parse-regex", &q, inb);
    if crash_of(&c.imp).is_some() {
        return;
    }
    if !c.imp.compiled {
        ctx.case("parse-regex-spec", &key, "viol", json!({"class": "C07/parse-rejected", "what": "a well-formed parse regex query is rejected", "compile_err": c.imp.compile_err, "case": case_info(&q, inb)}));
        return;
    }
    match record_lines(&c.imp.stdout) {
        Some(rows) if rows == expected => ps.pass(ctx, "parse-regex-spec", &key, || json!({"regex": re, "rows": rows.len(), "case": case_info(&q, inb)})),
        other => ctx.case("parse-regex-spec", &key, "viol", json!({"class": "C07/parse-regex-named-groups", "what": "the rows must bind exactly the named groups of the first match (unmatched optional group = null)",
            "regex": re, "expected": format!("{:?}", expected), "got": format!("{:?}", other), "output": String::from_utf8_lossy(&c.imp.stdout), "case": case_info(&q, inb)})),
    }
}

/* ------------------------------------------------------------------------------------------ */

/// The empty separator.  `split_with_delimiters(_, "")` never returns (by design the function is
/// unchanged; the model's SPLIT answers HANG); since the repair of the finding the operator
/// rejects `on ""` when the query is compiled.  A hang here is a regression of that repair.
fn empty_separator_witness(ctx: &mut Ctx, ps: &mut Passes) {
    // pure model sanity: the function-level model still predicts non-termination
    let model = ctx.drv.ask(&format!("SPLIT\t\t{}", enc::hexb(b"a b\n")));
    if model.starts_with("HANG") {
        ps.pass(ctx, "split-empty-sep", "model-function", || json!({"request": "SPLIT with empty separator", "model": model}));
    } else {
        ctx.case("split-empty-sep", "model-function", "fdis", json!({"what": "the model of split_with_delimiters no longer predicts non-termination for the empty separator", "model": model}));
    }
    let cases: [(&str, &[u8]); 2] = [("* | split on \"\"", b"a b\n"), ("* | json | split(f) on \"\" as g", b"{\"f\":\"x\"}\n")];
    for (query, input) in cases {
        // never more than 3 s on a hang, and never a second run of a query that hangs
        let probe = imp::run(query, input, "json", 3);
        if probe.hung {
            ctx.case("split-empty-sep", query, "viol", json!({"class": "C07/split-empty-separator-hangs", "what": format!("`{}` never terminates (regression of a repaired finding)", query),
                "query": query, "input": String::from_utf8_lossy(input)}));
            continue;
        }
        if let Some(p) = &probe.panicked {
            ctx.case("split-empty-sep", query, "viol", json!({"class": "C07/crash", "what": "the implementation panicked", "panic": p, "query": query, "input": String::from_utf8_lossy(input)}));
            continue;
        }
        let c = run_both(ctx, query, input);
        match compare(&c, true) {
            F::Agree if !c.imp.compiled => ps.pass(ctx, "split-empty-sep", query, || json!({"query": query, "rejected": c.imp.compile_err, "model": c.model})),
            F::Agree => ctx.case("split-empty-sep", query, "viol", json!({"class": "C07/split-empty-separator-accepted", "what": "the empty separator is accepted (and the model agrees)",
                "query": query, "stdout": String::from_utf8_lossy(&c.imp.stdout), "model": c.model})),
            F::Skip(w) => ctx.case("split-empty-sep", "", "skip", json!({"why": kwgen::skip_why(&w)})),
            F::Disagree(d) => ctx.case("split-empty-sep", query, "fdis", json!({"what": d, "query": query, "input": String::from_utf8_lossy(input), "model": c.model})),
        }
    }
}

pub fn check(ctx: &mut Ctx) {
    let mut ps = Passes::new();
    let n = ctx.budget(3200, 160000);
    for _ in 0..n {
        split_case(ctx, &mut ps);
    }
    let n = ctx.budget(400, 20000);
    for _ in 0..n {
        split_e2e_case(ctx, &mut ps);
    }
    let n = ctx.budget(1000, 50000);
    for _ in 0..n {
        parse_case(ctx, &mut ps);
    }
    let n = ctx.budget(250, 12500);
    for _ in 0..n {
        regex_case(ctx, &mut ps);
    }
    // the known hang: exactly one witness, the very last thing shard 0 does
    if ctx.shard == 0 {
        empty_separator_witness(ctx, &mut ps);
    }
}
