//! C06: json and logfmt extraction is faithful to the input data.
//!
//! P-level (real code only): the implementation's `-o json` output is parsed back (order-preserving
//! reader) and compared with the INPUT document under ≃ (key order, last duplicate wins, integer
//! literals inside i64 exactly, other numbers as the same double — Rust's own parse of the input
//! literal against Rust's parse of the output literal, as bits); lines that are not JSON are dropped
//! one by one with one `error:` line each; non-object roots leave the row as it was.  logfmt: one
//! field per pair, quoted values unescaped, bare keys None, text converted (`Value::from_string`).
//! F-level: the same runs against the Lean model (`RUN`), plus component ties `JSONPARSE` against
//! `ParseJson::process` (typed values) and `LOGFMT` against the `logfmt` crate itself.
use super::common::*;
use crate::canon::{self, J};
use crate::enc;
use crate::imp;
use crate::rng::Rng;
use crate::Ctx;
use ag::data::{Record, Value};
use ag::operator::parse::ParseJson;
use ag::operator::UnaryPreAggFunction;

/* ------------------------------------------------------------------ documents */

#[derive(Clone, Debug)]
pub enum Doc {
    Null,
    Bool(bool),
    Num(String),
    Str(String),
    Arr(Vec<Doc>),
    Obj(Vec<(String, Doc)>),
}

const CHAR_POOL: &[char] = &[
    'a', 'b', 'Z', '0', '7', ' ', '_', '-', '.', ',', ':', '=', '{', '}', '[', ']', '/', '"', '\\', '\u{8}', '\u{c}', '\n', '\r',
    '\t', '\u{0}', '\u{1}', '\u{1f}', '\u{7f}', '\u{80}', 'é', 'ß', '\u{3a9}', '日', '本', '\u{2028}', '\u{2029}', '\u{feff}',
    '\u{ffff}', '\u{fffd}', '\u{d7ff}', '\u{e000}', '😀', '𝄞', '\u{10ffff}', '\u{10000}', '\'', '<', '&', '%',
];

pub fn gen_string(r: &mut Rng) -> String {
    match r.below(12) {
        0 => String::new(),
        1 => (*r.pick(&["alpha", "GET", "x y", "42", "-5", "1e3", "true", "null", " 7 ", "0x1f", "a.b", "a=b c=d"])).to_string(),
        _ => {
            let n = 1 + r.below(7);
            (0..n).map(|_| *r.pick(CHAR_POOL)).collect()
        }
    }
}

fn hex4(r: &mut Rng, n: u32) -> String {
    if r.chance(50) {
        format!("\\u{:04x}", n)
    } else {
        format!("\\u{:04X}", n)
    }
}

/// one character in one of its JSON spellings
fn spell_char(r: &mut Rng, c: char, out: &mut String) {
    let n = c as u32;
    let raw_ok = n >= 0x20 && c != '"' && c != '\\';
    let short = match c {
        '"' => Some("\\\""),
        '\\' => Some("\\\\"),
        '/' => Some("\\/"),
        '\u{8}' => Some("\\b"),
        '\u{c}' => Some("\\f"),
        '\n' => Some("\\n"),
        '\r' => Some("\\r"),
        '\t' => Some("\\t"),
        _ => None,
    };
    let pick = r.below(10);
    if raw_ok && pick < 7 {
        out.push(c);
    } else if short.is_some() && pick < 9 {
        out.push_str(short.unwrap());
    } else if n < 0x10000 {
        out.push_str(&hex4(r, n));
    } else {
        let v = n - 0x10000;
        out.push_str(&hex4(r, 0xD800 + (v >> 10)));
        out.push_str(&hex4(r, 0xDC00 + (v & 0x3ff)));
    }
}

pub fn spell_string(r: &mut Rng, s: &str) -> String {
    let mut out = String::from("\"");
    for c in s.chars() {
        spell_char(r, c, &mut out);
    }
    out.push('"');
    out
}

/// integer literals inside i64
pub fn int_literal(r: &mut Rng) -> String {
    let edges: [i64; 22] = [
        0,
        1,
        -1,
        2147483647,
        2147483648,
        -2147483648,
        -2147483649,
        4294967295,
        4294967296,
        9007199254740991,
        9007199254740992,
        9007199254740993,
        -9007199254740991,
        -9007199254740992,
        -9007199254740993,
        9223372036854775807,
        9223372036854775806,
        -9223372036854775808,
        -9223372036854775807,
        1000000000000000000,
        123456789012345678,
        -42,
    ];
    match r.below(6) {
        0 | 1 => format!("{}", r.pick(&edges)),
        2 => format!("{}", r.range(-1000, 1000)),
        3 => format!("{}", r.next() as i64),
        4 => format!("{}", (r.next() >> r.below(60)) as i64),
        _ => (*r.pick(&["-0", "0", "10", "100"])).to_string(),
    }
}

/// the numbers `Value::from_float` used to corrupt (0 < x < 2.2e-16 ↦ 0, |x| ≥ 2^63 ↦ i64::MAX/MIN; class
/// C06/float-to-int-corruption, repaired by /repo 6cfc8ab): no longer excluded from any generator
pub fn hazard_value(_x: f64) -> bool {
    false
}

/// fraction / exponent literal inside the class where serde_json (without `float_roundtrip`) and a
/// correctly rounded parser agree: ≤ 15 significant digits, |decimal exponent of the last digit| ≤ 22
pub fn safe_frac_literal(r: &mut Rng) -> String {
    loop {
        let nd = 1 + r.below(15);
        let mut digits: String = (0..nd).map(|_| (b'0' + r.below(10) as u8) as char).collect();
        if digits.len() > 1 && digits.starts_with('0') {
            digits.replace_range(0..1, "1");
        }
        let fd = r.below(nd.min(8) + 1).min(nd - 1 + 1);
        let (ip, fp) = if fd >= digits.len() { ("0".to_string(), digits.clone()) } else { (digits[..digits.len() - fd].to_string(), digits[digits.len() - fd..].to_string()) };
        let fd = fp.len() as i64;
        let mut s = ip.clone();
        if !fp.is_empty() {
            s.push('.');
            s.push_str(&fp);
        }
        let mut exp = 0i64;
        let with_exp = r.chance(35) || fp.is_empty();
        if with_exp {
            exp = r.range(-22 + fd, 22 + fd).clamp(-22, 22);
            if (exp - fd).abs() > 22 {
                continue;
            }
            s.push(*r.pick(&['e', 'E']));
            if exp >= 0 && r.chance(40) {
                s.push('+');
            }
            if r.chance(10) {
                s.push('0');
            }
            s.push_str(&format!("{}", exp));
        }
        let _ = exp;
        if r.chance(30) {
            s.insert(0, '-');
        }
        // leading zeros are not JSON
        let body = s.trim_start_matches('-');
        if body.len() > 1 && body.starts_with('0') && !body.starts_with("0.") && !body.starts_with("0e") && !body.starts_with("0E") {
            continue;
        }
        let v: f64 = match s.parse() {
            Ok(v) => v,
            Err(_) => continue,
        };
        if hazard_value(v) || !v.is_finite() {
            continue;
        }
        return s;
    }
}

/// any finite-double literal (P-level only): long mantissas, big exponents, subnormal neighbourhood
pub fn wide_literal(r: &mut Rng) -> String {
    loop {
        let s = match r.below(9) {
            0 => format!("{}.{}e{}", r.range(0, 9), r.next() % 100000000000000000, r.range(-300, 300)),
            1 => format!("{}e{}", r.next() % 1000000000000000000, r.range(-320, 290)),
            2 => format!("0.{}{}", "0".repeat(r.below(12)), r.next()),
            3 => format!("{}.{}", r.next() % 100000, r.next()),
            4 => (*r.pick(&[
                "0.1",
                "0.30000000000000004",
                "1.7976931348623157e308",
                "2.2250738585072014e-308",
                "4.9e-324",
                "5e-324",
                "123456789012345678.9",
                "0.000001",
                "1.0000000000000002",
                "9007199254740993.5",
                "8.41e21",
                "2.2250738585072011e-308",
                "1.00000000000000011102230246251565404236316680908203125",
                "1.00000000000000011102230246251565404236316680908203124",
                "1.00000000000000011102230246251565404236316680908203126",
                "17976931348623157e292",
                "6.02214076e23",
                "1e23",
                "9.5e-5",
                "3.4028234663852886e38",
            ]))
            .to_string(),
            5 => {
                // the shortest repr of a random double
                let bits = r.next();
                let f = f64::from_bits(bits);
                if !f.is_finite() {
                    continue;
                }
                format!("{:e}", f)
            }
            6 => {
                let f = f64::from_bits(r.next());
                if !f.is_finite() || f.abs() > 1e18 || f.abs() < 1e-6 {
                    continue;
                }
                format!("{}", f)
            }
            7 => (*r.pick(&["9223372036854775808", "-9223372036854775809", "18446744073709551615", "18446744073709551616", "123456789012345678901234567890", "1e19", "1e-300", "2.5e-17", "1e300", "-1e19"])).to_string(),
            _ => format!("{}{}.{}", r.range(1, 9), r.next(), r.next()),
        };
        let s = if r.chance(20) && !s.starts_with('-') { format!("-{}", s) } else { s };
        let v: f64 = match s.parse() {
            Ok(v) => v,
            Err(_) => continue,
        };
        if !v.is_finite() || hazard_value(v) {
            continue;
        }
        // integer literals inside i64 belong to the other family
        if !s.contains('.') && !s.contains('e') && !s.contains('E') && s.parse::<i64>().is_ok() {
            continue;
        }
        // Rust's `{:e}` may print `1e5` without a dot: still fine JSON
        return s;
    }
}

pub const KEY_POOL: &[&str] = &["a", "b", "k", "n", "arr", "o", "x y", "", "é", "a.b", "K", "_1", "日本", "q\"k", "back\\slash", "tab\t", "😀", "id", "inner", "msg"];
pub const IDENT_KEYS: &[&str] = &["a", "b", "k", "n", "arr", "o", "k1", "_x", "val", "items"];

pub struct DocCfg<'a> {
    pub keys: &'a [&'a str],
    pub wide_numbers: bool,
}

pub fn gen_scalar(r: &mut Rng, cfg: &DocCfg) -> Doc {
    match r.below(10) {
        0 => Doc::Null,
        1 => Doc::Bool(r.chance(50)),
        2 | 3 => Doc::Num(int_literal(r)),
        4 | 5 => Doc::Num(if cfg.wide_numbers { wide_literal(r) } else { safe_frac_literal(r) }),
        _ => Doc::Str(gen_string(r)),
    }
}

pub fn gen_doc(r: &mut Rng, depth: usize, cfg: &DocCfg) -> Doc {
    if depth == 0 || r.chance(45) {
        return gen_scalar(r, cfg);
    }
    let n = r.below(5);
    if r.chance(50) {
        Doc::Arr((0..n).map(|_| gen_doc(r, depth - 1, cfg)).collect())
    } else {
        gen_obj(r, depth - 1, n, cfg)
    }
}

pub fn gen_obj(r: &mut Rng, depth: usize, n: usize, cfg: &DocCfg) -> Doc {
    Doc::Obj((0..n).map(|_| (r.pick(cfg.keys).to_string(), gen_doc(r, depth, cfg))).collect())
}

/// a chain `depth` levels deep (arrays and objects alternating at random) around a leaf
pub fn gen_chain(r: &mut Rng, depth: usize, cfg: &DocCfg) -> Doc {
    let mut d = gen_scalar(r, cfg);
    for _ in 0..depth {
        d = if r.chance(50) {
            let mut v = vec![d];
            if r.chance(30) {
                v.insert(0, gen_scalar(r, cfg));
            }
            Doc::Arr(v)
        } else {
            let mut v = vec![(r.pick(cfg.keys).to_string(), d)];
            if r.chance(30) {
                v.push((r.pick(cfg.keys).to_string(), gen_scalar(r, cfg)));
            }
            Doc::Obj(v)
        };
    }
    d
}

fn ws(r: &mut Rng, out: &mut String, loose: bool) {
    if loose && r.chance(25) {
        out.push_str(*r.pick(&[" ", "  ", "\t", " \t ", "\r"]));
    }
}

pub fn print_doc(r: &mut Rng, d: &Doc, loose: bool, out: &mut String) {
    match d {
        Doc::Null => out.push_str("null"),
        Doc::Bool(b) => out.push_str(if *b { "true" } else { "false" }),
        Doc::Num(s) => out.push_str(s),
        Doc::Str(s) => out.push_str(&spell_string(r, s)),
        Doc::Arr(v) => {
            out.push('[');
            ws(r, out, loose);
            for (i, x) in v.iter().enumerate() {
                if i > 0 {
                    out.push(',');
                    ws(r, out, loose);
                }
                print_doc(r, x, loose, out);
                ws(r, out, loose);
            }
            out.push(']');
        }
        Doc::Obj(kvs) => {
            out.push('{');
            ws(r, out, loose);
            for (i, (k, x)) in kvs.iter().enumerate() {
                if i > 0 {
                    out.push(',');
                    ws(r, out, loose);
                }
                out.push_str(&spell_string(r, k));
                ws(r, out, loose);
                out.push(':');
                ws(r, out, loose);
                print_doc(r, x, loose, out);
                ws(r, out, loose);
            }
            out.push('}');
        }
    }
}

pub fn doc_text(r: &mut Rng, d: &Doc) -> String {
    let mut s = String::new();
    let loose = r.chance(40);
    ws(r, &mut s, loose);
    print_doc(r, d, loose, &mut s);
    ws(r, &mut s, loose);
    s
}

/// the ≃-normal form of a document: last duplicate wins, keys sorted, integer literals inside i64 as
/// integers, every other number as the double Rust's parser reads
pub fn expect(d: &Doc) -> J {
    match d {
        Doc::Null => J::Null,
        Doc::Bool(b) => J::Bool(*b),
        Doc::Num(s) => {
            let is_int = !s.contains('.') && !s.contains('e') && !s.contains('E');
            if is_int {
                if let Ok(i) = s.parse::<i64>() {
                    return J::Int(i);
                }
            }
            J::Float(s.parse::<f64>().unwrap_or(f64::NAN))
        }
        Doc::Str(s) => J::Str(s.clone()),
        Doc::Arr(v) => J::Arr(v.iter().map(expect).collect()),
        Doc::Obj(kvs) => {
            let mut m: std::collections::BTreeMap<String, J> = Default::default();
            for (k, v) in kvs {
                m.insert(k.clone(), expect(v));
            }
            J::Obj(m.into_iter().collect())
        }
    }
}

/// compare an expected tree with what the implementation printed; Err = (path, class, what)
pub fn same(exp: &J, got: &J, path: &str) -> Result<(), (String, &'static str, String)> {
    let bad = |class: &'static str, what: String| Err((path.to_string(), class, what));
    match (exp, got) {
        (J::Null, J::Null) => Ok(()),
        (J::Bool(a), J::Bool(b)) if a == b => Ok(()),
        (J::Str(a), J::Str(b)) if a == b => Ok(()),
        (J::Int(a), J::Int(b)) => {
            if a == b {
                Ok(())
            } else {
                bad("C06/integer-changed", format!("integer {} came back as {}", a, b))
            }
        }
        (J::Int(a), J::Float(y)) => bad("C06/integer-changed", format!("integer {} came back as the double {:e}", a, y)),
        (J::Float(x), J::Float(y)) => {
            if enc::norm_bits(*x) == enc::norm_bits(*y) || (*x == 0.0 && *y == 0.0) {
                Ok(())
            } else if (*x - *y).abs() <= 8.0 * f64::EPSILON * x.abs() {
                bad("C06/json-float-parse-not-correctly-rounded", format!("double {:e} (bits {:016x}) came back as {:e} (bits {:016x})", x, x.to_bits(), y, y.to_bits()))
            } else {
                bad("C06/float-changed", format!("double {:e} came back as {:e}", x, y))
            }
        }
        (J::Float(x), J::Int(i)) => {
            // `x.0 ↔ x`: an integral double may be shown as the integer it is
            let exact = x.fract() == 0.0 && x.abs() < 1.0e30 && (*x as i128) == (*i as i128);
            if exact {
                Ok(())
            } else if x.fract() != 0.0 && x.abs() < 1.0 || x.abs() >= 9.2e18 {
                bad("C06/float-to-int-corruption", format!("double {:e} came back as the integer {}", x, i))
            } else if (*i as f64 - *x).abs() <= 1.0 && x.abs() > 9.0e15 {
                bad("C06/json-float-parse-not-correctly-rounded", format!("double {:e} came back as the integer {}", x, i))
            } else {
                bad("C06/float-changed", format!("double {:e} came back as the integer {}", x, i))
            }
        }
        (J::Arr(a), J::Arr(b)) => {
            if a.len() != b.len() {
                return bad("C06/array-length", format!("array of {} came back with {} elements", a.len(), b.len()));
            }
            for (i, (x, y)) in a.iter().zip(b.iter()).enumerate() {
                same(x, y, &format!("{}[{}]", path, i))?;
            }
            Ok(())
        }
        (J::Obj(a), J::Obj(b)) => {
            let ka: Vec<&String> = a.iter().map(|kv| &kv.0).collect();
            let kb: Vec<&String> = b.iter().map(|kv| &kv.0).collect();
            if ka != kb {
                return bad("C06/member-set", format!("members {:?} came back as {:?}", ka, kb));
            }
            for ((k, x), (_, y)) in a.iter().zip(b.iter()) {
                same(x, y, &format!("{}.{}", path, k))?;
            }
            Ok(())
        }
        (e, g) => bad("C06/value-changed", format!("{:?} came back as {:?}", e, g)),
    }
}

/* ------------------------------------------------------------------ P-level oracle on a run */

pub struct Line {
    pub bytes: Vec<u8>,
    /// the row the property demands (normalised object), or None = dropped with one error line
    pub exp: Option<J>,
}

fn input_of(lines: &[Line], r: &mut Rng) -> Vec<u8> {
    let mut out = vec![];
    for (i, l) in lines.iter().enumerate() {
        out.extend(&l.bytes);
        if i + 1 < lines.len() || l.bytes.is_empty() || r.chance(80) {
            out.push(b'\n');
        }
    }
    out
}

/// returns Err((class, what)) when the property fails on the real output
fn oracle(run: &imp::ImplRun, lines: &[Line]) -> Result<(), (String, String)> {
    if let Some(p) = &run.panicked {
        return Err(("C06/panic".into(), format!("the run panicked: {}", p)));
    }
    if run.hung || !run.compiled {
        return Err(("C06/run".into(), "the run hung or the query was rejected".into()));
    }
    let text = String::from_utf8_lossy(&run.stdout).to_string();
    let outs: Vec<&str> = text.split('\n').filter(|l| !l.is_empty()).collect();
    let want: Vec<&J> = lines.iter().filter_map(|l| l.exp.as_ref()).collect();
    let dropped = lines.iter().filter(|l| l.exp.is_none()).count();
    if outs.len() != want.len() {
        return Err(("C06/row-count".into(), format!("{} input lines should give {} rows, got {} ({} lines are not JSON and must be dropped one by one)", lines.len(), want.len(), outs.len(), dropped)));
    }
    for (i, (o, w)) in outs.iter().zip(want.iter()).enumerate() {
        let got = match canon::parse(o) {
            Ok(j) => canon::normalize(&j),
            Err(e) => return Err(("C06/output-not-json".into(), format!("output line {} does not parse: {}", i, e))),
        };
        if let Err((path, class, what)) = same(w, &got, "$") {
            return Err((class.to_string(), format!("row {} at {}: {}", i, path, what)));
        }
    }
    if run.error_lines != dropped {
        return Err(("C06/error-lines".into(), format!("{} lines are not extractable, {} `error:` lines were written", dropped, run.error_lines)));
    }
    Ok(())
}

fn report(ctx: &mut Ctx, family: &str, q: &str, input: &[u8], lines: &[Line], flevel: bool) {
    let key = ckey(q, input);
    let mut info = case_info(q, input);
    if flevel {
        let c = run_both(ctx, q, input);
        let p = oracle(&c.imp, lines);
        let f = compare(&c, true);
        match (&p, &f) {
            (Err((class, what)), _) => {
                info["class"] = serde_json::json!(class);
                info["what"] = serde_json::json!(what);
                info["got"] = serde_json::json!(String::from_utf8_lossy(&c.imp.stdout));
                ctx.case(family, &key, "viol", info)
            }
            (Ok(()), F::Agree) => ctx.case(family, &key, "pass", info),
            (Ok(()), F::Skip(w)) => ctx.case(family, "", "skip", serde_json::json!({"why": w.split(':').next().unwrap_or(""), "case": info})),
            (Ok(()), F::Disagree(d)) => ctx.case(family, &key, "fdis", serde_json::json!({"what": d, "case": info})),
        }
    } else {
        let run = imp::run(q, input, "json", 10);
        match oracle(&run, lines) {
            Ok(()) => ctx.case(family, &key, "pass", info),
            Err((class, what)) => {
                info["class"] = serde_json::json!(class);
                info["what"] = serde_json::json!(what);
                info["got"] = serde_json::json!(String::from_utf8_lossy(&run.stdout));
                ctx.case(family, &key, "viol", info)
            }
        }
    }
}

/* ------------------------------------------------------------------ families */

fn junk(r: &mut Rng) -> Vec<u8> {
    // long rejected text, ASCII or not (whatever is done with a rejected line — quoting it in a
    // message, say — must not depend on its length or on where its characters' bytes fall): a
    // prefix of 0–3 bytes shifts every later character boundary
    if r.chance(18) {
        let unit = *r.pick(&["é", "€", "語", "😀", "z", "ß", "a€", "\u{301}e"]);
        let mut t = "x".repeat(r.below(4));
        let n = 40 + r.below(700);
        for _ in 0..n {
            t.push_str(unit);
        }
        let mut b = t.into_bytes();
        if r.chance(20) {
            // … or not valid UTF-8 at all
            b.extend(std::iter::repeat(0xFFu8).take(100 + r.below(300)));
        }
        if r.chance(30) {
            // a truncated document
            let mut d = b"{\"k\":\"".to_vec();
            d.extend(b);
            return d;
        }
        return b;
    }
    match r.below(14) {
        0 => b"not json at all".to_vec(),
        1 => b"{\"k\": \"a\", \"n\": ".to_vec(),
        2 => vec![0xff, 0xfe, b'{', b'}', 0x80],
        3 => b"".to_vec(),
        4 => b"{\"k\":\"a\"} trailing".to_vec(),
        5 => b"{\"a\":01}".to_vec(),
        6 => b"{\"a\":\"raw\tcontrol\"}".to_vec(),
        7 => b"{\"a\":\"\\ud800\"}".to_vec(),
        8 => b"{'a':1}".to_vec(),
        9 => b"{\"a\":1,}".to_vec(),
        10 => b"{\"a\":.5}".to_vec(),
        11 => b"{\"a\":1e999}".to_vec(),
        12 => b"{\"a\":\"\\x41\"}".to_vec(),
        _ => b"{\"a\":+1}".to_vec(),
    }
}

fn root_line(r: &mut Rng, depth: usize, cfg: &DocCfg) -> Line {
    match r.below(20) {
        0 => Line { bytes: junk(r), exp: None },
        1 => {
            // non-object root: the row passes through with no fields
            let d = if r.chance(50) { Doc::Arr(vec![gen_scalar(r, cfg), gen_scalar(r, cfg)]) } else { gen_scalar(r, cfg) };
            Line { bytes: doc_text(r, &d).into_bytes(), exp: Some(J::Obj(vec![])) }
        }
        _ => {
            let n = r.below(6);
            let d = gen_obj(r, depth, n, cfg);
            Line { bytes: doc_text(r, &d).into_bytes(), exp: Some(expect(&d)) }
        }
    }
}

fn fam_json_doc(ctx: &mut Ctx, r: &mut Rng, depth: usize) {
    let cfg = DocCfg { keys: KEY_POOL, wide_numbers: false };
    let n = 1 + r.below(4);
    let lines: Vec<Line> = (0..n).map(|_| root_line(r, depth, &cfg)).collect();
    let input = input_of(&lines, r);
    report(ctx, "json-doc", "* | json", &input, &lines, true);
}

fn fam_deep(ctx: &mut Ctx, r: &mut Rng, max_depth: usize) {
    let cfg = DocCfg { keys: KEY_POOL, wide_numbers: false };
    let depth = 1 + r.below(max_depth);
    let d = Doc::Obj(vec![("d".to_string(), gen_chain(r, depth.saturating_sub(1), &cfg))]);
    let lines = vec![Line { bytes: doc_text(r, &d).into_bytes(), exp: Some(expect(&d)) }];
    let input = input_of(&lines, r);
    report(ctx, "json-deep", "* | json", &input, &lines, true);
}

/// literals that are the shortest round-trip text of a double (what other JSON writers emit)
fn shortest_literal(r: &mut Rng) -> String {
    loop {
        let f = f64::from_bits(r.next());
        if !f.is_finite() || hazard_value(f) || f.fract() == 0.0 {
            continue;
        }
        let s = if f.abs() < 1e16 && f.abs() > 1e-5 && r.chance(50) { format!("{}", f) } else { format!("{:e}", f) };
        if s.contains('.') || s.contains('e') {
            return s;
        }
    }
}

fn fam_num_shortest(ctx: &mut Ctx, r: &mut Rng) {
    let n = 1 + r.below(4);
    let d = Doc::Obj((0..n).map(|i| (format!("v{}", i), Doc::Num(shortest_literal(r)))).collect());
    let lines = vec![Line { bytes: doc_text(r, &d).into_bytes(), exp: Some(expect(&d)) }];
    let input = input_of(&lines, r);
    report(ctx, "json-num-shortest", "* | json", &input, &lines, true);
}

fn fam_num_wide(ctx: &mut Ctx, r: &mut Rng) {
    let cfg = DocCfg { keys: IDENT_KEYS, wide_numbers: true };
    let d = Doc::Obj((0..1 + r.below(4)).map(|i| (format!("v{}", i), if r.chance(80) { Doc::Num(wide_literal(r)) } else { gen_doc(r, 2, &cfg) })).collect());
    let lines = vec![Line { bytes: doc_text(r, &d).into_bytes(), exp: Some(expect(&d)) }];
    let input = input_of(&lines, r);
    report(ctx, "json-num-wide", "* | json", &input, &lines, true);
}

/// `json from f`: the text comes from a string field of the row
fn fam_json_from(ctx: &mut Ctx, r: &mut Rng, depth: usize) {
    let cfg = DocCfg { keys: KEY_POOL, wide_numbers: false };
    let n = 1 + r.below(3);
    let mut lines = vec![];
    for i in 0..n {
        let mut outer: Vec<(String, Doc)> = vec![("id".to_string(), Doc::Num(format!("{}", i)))];
        let exp;
        match r.below(12) {
            0 => {
                // field absent
                exp = None;
            }
            1 => {
                outer.push(("inner".into(), if r.chance(50) { Doc::Num("5".into()) } else { Doc::Null }));
                exp = None;
            }
            2 => {
                outer.push(("inner".into(), Doc::Str(String::from_utf8_lossy(&junk(r)).to_string())));
                exp = None;
            }
            3 => {
                let d = Doc::Arr(vec![gen_scalar(r, &cfg)]);
                let t = doc_text(r, &d);
                outer.push(("inner".into(), Doc::Str(t)));
                exp = Some(expect(&Doc::Obj(outer.clone())));
            }
            _ => {
                let k = r.below(5);
                let d = gen_obj(r, depth, k, &cfg);
                let t = doc_text(r, &d);
                outer.push(("inner".into(), Doc::Str(t)));
                let mut all = outer.clone();
                if let Doc::Obj(kvs) = &d {
                    all.extend(kvs.iter().cloned());
                }
                exp = Some(expect(&Doc::Obj(all)));
            }
        }
        let od = Doc::Obj(outer);
        lines.push(Line { bytes: doc_text(r, &od).into_bytes(), exp });
    }
    let input = input_of(&lines, r);
    report(ctx, "json-from", "* | json | json from inner", &input, &lines, true);
}

/* nested access */

#[derive(Clone, Debug)]
enum Step {
    Key(String),
    Idx(i64),
}

fn lookup<'a>(d: &'a Doc, path: &[Step]) -> Option<&'a Doc> {
    let mut cur = d;
    for s in path {
        match (s, cur) {
            (Step::Key(k), Doc::Obj(kvs)) => cur = &kvs.iter().rev().find(|kv| &kv.0 == k)?.1,
            (Step::Idx(i), Doc::Arr(v)) => {
                let len = v.len() as i64;
                let real = if *i < 0 { len + *i } else { *i };
                if real < 0 || real >= len {
                    return None;
                }
                cur = &v[real as usize];
            }
            _ => return None,
        }
    }
    Some(cur)
}

fn path_text(path: &[Step]) -> String {
    let mut s = String::new();
    for (i, st) in path.iter().enumerate() {
        match st {
            Step::Key(k) => {
                let bare = k.chars().all(|c| c.is_ascii_alphanumeric() || c == '_') && !k.is_empty() && !k.chars().next().unwrap().is_ascii_digit();
                if i > 0 {
                    s.push('.');
                }
                if bare {
                    s.push_str(k);
                } else {
                    s.push_str(&format!("[\"{}\"]", k));
                }
            }
            Step::Idx(i) => s.push_str(&format!("[{}]", i)),
        }
    }
    s
}

fn fam_access(ctx: &mut Ctx, r: &mut Rng, depth: usize) {
    let keys: Vec<&str> = IDENT_KEYS.iter().cloned().chain(["x y"]).collect();
    let cfg = DocCfg { keys: &keys, wide_numbers: false };
    // a document with some structure guaranteed
    let mut members: Vec<(String, Doc)> = vec![];
    for _ in 0..2 + r.below(3) {
        let k = r.pick(&keys).to_string();
        let v = if r.chance(70) {
            if r.chance(50) {
                {
                    let k = r.below(4);
                    Doc::Arr((0..k).map(|_| gen_doc(r, depth, &cfg)).collect())
                }
            } else {
                {
                    let k = 1 + r.below(3);
                    gen_obj(r, depth, k, &cfg)
                }
            }
        } else {
            gen_scalar(r, &cfg)
        };
        members.push((k, v));
    }
    members.retain(|kv| kv.0 != "r");
    let root = Doc::Obj(members);
    // walk down a random existing path, then maybe perturb it
    let mut path: Vec<Step> = vec![];
    let mut cur = &root;
    loop {
        match cur {
            Doc::Obj(kvs) if !kvs.is_empty() && (path.is_empty() || r.chance(75)) => {
                let k = &kvs[r.below(kvs.len())].0;
                path.push(Step::Key(k.clone()));
            }
            Doc::Arr(v) if !v.is_empty() && r.chance(80) => {
                let i = r.below(v.len()) as i64;
                path.push(Step::Idx(if r.chance(40) { i - v.len() as i64 } else { i }));
            }
            _ => break,
        }
        cur = match lookup(&root, &path) {
            Some(c) => c,
            None => break,
        };
    }
    match r.below(10) {
        0 => path.push(Step::Idx(r.range(0, 5))),
        1 => path.push(Step::Idx(-r.range(1, 6))),
        2 => path.push(Step::Key("missing".into())),
        3 => {
            if let Some(Step::Idx(i)) = path.last().cloned() {
                let n = path.len();
                path[n - 1] = Step::Idx(if i < 0 { i - r.range(1, 4) } else { i + r.range(1, 4) });
            }
        }
        _ => {}
    }
    if path.is_empty() {
        path.push(Step::Key("missing".into()));
    }
    let q = format!("* | json | {} as r", path_text(&path));
    let exp = lookup(&root, &path).map(|v| {
        let mut all = match &root {
            Doc::Obj(kvs) => kvs.clone(),
            _ => vec![],
        };
        all.push(("r".to_string(), v.clone()));
        expect(&Doc::Obj(all))
    });
    let lines = vec![Line { bytes: doc_text(r, &root).into_bytes(), exp }];
    let input = input_of(&lines, r);
    report(ctx, "access", &q, &input, &lines, true);
}

/* component tie: JSONPARSE vs ParseJson::process */

fn value_tokens(v: &Value) -> String {
    let mut t = vec![];
    enc::value(v, &mut t);
    t.join(" ")
}

fn impl_parse_json(text: &str) -> Result<Option<String>, String> {
    let t = text.to_string();
    let r = std::panic::catch_unwind(move || ParseJson::new(None).process(Record::new(t)));
    match r {
        Err(_) => Err("panic".into()),
        Ok(Err(_)) => Ok(None),
        Ok(Ok(None)) => Ok(None),
        Ok(Ok(Some(rec))) => {
            let m: im::HashMap<String, Value> = rec.data.into_iter().collect();
            Ok(Some(value_tokens(&Value::Obj(m))))
        }
    }
}

fn fam_jsonparse(ctx: &mut Ctx, r: &mut Rng, depth: usize) {
    let cfg = DocCfg { keys: KEY_POOL, wide_numbers: r.chance(50) };
    let (text, is_obj) = match r.below(12) {
        0 => (String::from_utf8_lossy(&junk(r)).to_string(), false),
        1 => {
            let d = gen_doc(r, depth, &cfg);
            let o = matches!(d, Doc::Obj(_));
            (doc_text(r, &d), o)
        }
        _ => {
            let k = r.below(6);
            let d = gen_obj(r, depth, k, &cfg);
            (doc_text(r, &d), true)
        }
    };
    let model = ctx.drv.ask(&format!("JSONPARSE\t{}", enc::hex(&text)));
    let imp = impl_parse_json(&text);
    let key = ckey("JSONPARSE", text.as_bytes());
    let info = serde_json::json!({"text": text, "model": head(&model)});
    // the operator keeps the row unchanged for non-object roots: compare only object roots and errors
    let verdict = match (&imp, model.as_str()) {
        (Err(p), _) => Some(format!("implementation panicked: {}", p)),
        (Ok(None), "ERR") => None,
        (Ok(None), m) => Some(format!("implementation rejects the text, model says {}", head(m))),
        (Ok(Some(_)), "ERR") => Some("model rejects the text, implementation accepts it".to_string()),
        (Ok(Some(t)), m) => {
            let mv = m.strip_prefix("VAL ").unwrap_or(m);
            if is_obj || mv.starts_with('O') {
                if t == mv {
                    None
                } else {
                    Some(format!("typed values differ: impl={} model={}", clip(t), clip(mv)))
                }
            } else if t == "O0" {
                None
            } else {
                Some(format!("non-object root should leave the row empty, impl={}", clip(t)))
            }
        }
    };
    match verdict {
        None => ctx.case("jsonparse", &key, "pass", info),
        Some(w) => ctx.case("jsonparse", &key, "fdis", serde_json::json!({"what": w, "case": info})),
    }
}

/// serde_json's recursion limit
fn fam_depth_limit(ctx: &mut Ctx) {
    for depth in [1usize, 2, 100, 126, 127, 128, 129, 200] {
        for kind in 0..2 {
            let mut s = String::from("{\"d\":");
            for _ in 0..depth - 1 {
                s.push_str(if kind == 0 { "[" } else { "{\"a\":" });
            }
            s.push('1');
            for _ in 0..depth - 1 {
                s.push(if kind == 0 { ']' } else { '}' });
            }
            s.push('}');
            let model = ctx.drv.ask(&format!("JSONPARSE\t{}", enc::hex(&s)));
            let imp = impl_parse_json(&s);
            let info = serde_json::json!({"depth": depth, "kind": kind, "model": head(&model)});
            let ok = match (&imp, model.as_str()) {
                (Ok(None), "ERR") => true,
                (Ok(Some(t)), m) => m.strip_prefix("VAL ") == Some(t.as_str()),
                _ => false,
            };
            if ok {
                ctx.case("depth-limit", &format!("{}-{}", depth, kind), "pass", info)
            } else {
                ctx.case("depth-limit", &format!("{}-{}", depth, kind), "fdis", serde_json::json!({"what": format!("nesting depth {}: impl={:?}", depth, imp.as_ref().map(|o| o.as_ref().map(|s| head(s)))), "case": info}))
            }
        }
    }
}

/* ------------------------------------------------------------------ logfmt */

const LF_KEYS: &[&str] = &["a", "b", "k", "msg", "level", "ts", "user.id", "x-y", "é", "日本", "K", "n", "took", "path"];

fn lf_value(r: &mut Rng) -> String {
    match r.below(14) {
        0 => "42".into(),
        1 => "-5".into(),
        2 => "1.5".into(),
        3 => "true".into(),
        4 => "false".into(),
        5 => "1e3".into(),
        6 => " 7 ".into(),
        7 => "hello world".into(),
        8 => "say \"hi\" now".into(),
        9 => "a=b".into(),
        10 => "tab\there".into(),
        11 => "héllo 日本 😀".into(),
        12 => format!("{}", r.range(-100000, 100000)),
        _ => (*r.pick(&["x", "GET", "/index.html", "200", "0.25", "007", "+3", "1,000", "NaN", "inf", "0x1f", "\"", "\"\"", "q\"", "it's"])).to_string(),
    }
}

fn lf_print_value(r: &mut Rng, v: &str) -> String {
    let need = v.is_empty() || v.contains(' ') || v.contains('"') || v.contains('=');
    if need || r.chance(20) {
        format!("\"{}\"", v.replace('"', "\\\""))
    } else {
        v.to_string()
    }
}

/// well-formed line: (text, pairs).  Empty values only in the last position, no backslashes.
fn lf_wellformed(r: &mut Rng) -> (String, Vec<(String, Option<String>)>) {
    let n = r.below(6);
    let mut pairs: Vec<(String, Option<String>)> = vec![];
    let mut text = String::new();
    if r.chance(10) {
        text.push(' ');
    }
    for i in 0..n {
        let k = r.pick(LF_KEYS).to_string();
        let v = match r.below(8) {
            0 => None,
            1 if i + 1 == n => Some(String::new()),
            _ => Some(lf_value(r)),
        };
        if i > 0 {
            text.push_str(if r.chance(15) { "  " } else { " " });
        }
        text.push_str(&k);
        if let Some(v) = &v {
            text.push('=');
            if v.is_empty() && r.chance(50) {
                // `key=` at the end of the line
            } else {
                text.push_str(&lf_print_value(r, v));
            }
        }
        pairs.push((k, v));
    }
    (text, pairs)
}

fn lf_garbage(r: &mut Rng) -> String {
    let atoms = [
        "a=1", "b", "c=", "=x", "==", "d=\"q z\"", "e=\"un closed", "\"quoted key\"=v", "f=\"a\\\\\"", "g=\"a\\nb\"", "h=a\\b", "i=\"\"", "j=\"\" k=2", "=", "\"", "\\", "\t", "l=\tx",
        "m =n", "o= p", "é=ü", "😀", "a=1=2", "k=\"v\"w", "r=\"a\\\"b\"", "s=\"\\\"", " ", "t='x y'",
    ];
    let n = 1 + r.below(6);
    let mut s = String::new();
    for i in 0..n {
        if i > 0 {
            s.push_str(*r.pick(&[" ", " ", "  ", ""]));
        }
        s.push_str(*r.pick(&atoms));
    }
    s
}

fn value_to_j(v: &Value) -> J {
    canon::normalize(&canon::parse(&serde_json::to_string(v).unwrap()).unwrap())
}

fn fam_logfmt(ctx: &mut Ctx, r: &mut Rng, from: bool) {
    let n = 1 + r.below(3);
    let mut lines = vec![];
    for i in 0..n {
        let (text, pairs) = lf_wellformed(r);
        // text taken from a field may end in blanks or a line break (a JSON string keeps them): the
        // pairs are those of the same text as a line, where trailing whitespace does not count
        let text = if from && r.chance(35) { format!("{}{}", text, r.pick(&[" ", "  ", "\n", " \n", "\r\n", " \r\n", "\t"])) } else { text };
        let mut m: std::collections::BTreeMap<String, J> = Default::default();
        if from {
            m.insert("id".into(), J::Int(i as i64));
            m.insert("msg".into(), J::Str(text.clone()));
        }
        let mut pairs = pairs;
        if pairs.is_empty() {
            // the crate reports one valueless pair with the empty key for an empty message
            pairs.push((String::new(), None));
        }
        for (k, v) in &pairs {
            let j = match v {
                None => J::Null,
                Some(t) => value_to_j(&Value::from_string(t.as_str())),
            };
            m.insert(k.clone(), j);
        }
        let bytes = if from { format!("{{\"id\":{},\"msg\":{}}}", i, serde_json::to_string(&text).unwrap()).into_bytes() } else { text.clone().into_bytes() };
        lines.push(Line { bytes, exp: Some(J::Obj(m.into_iter().collect())) });
    }
    let input = input_of(&lines, r);
    if from {
        report(ctx, "logfmt-from", "* | json | logfmt from msg", &input, &lines, true);
    } else {
        report(ctx, "logfmt-line", "* | logfmt", &input, &lines, true);
    }
}

/// extraction from a column of an aggregate table: `… | count by doc | sort by doc | json from doc`
/// — every member of every row's document must come out, whatever the other rows hold
fn fam_from_after_agg(ctx: &mut Ctx, r: &mut Rng) {
    let n = 2 + r.below(4);
    let names = ["a", "b", "c", "dd", "é", "x y"];
    let logfmt = r.chance(40);
    let mut docs: Vec<(String, Vec<(String, J)>)> = vec![];
    for i in 0..n {
        // documents with DIFFERENT member sets; the i-th always has a member the earlier ones lack
        let mut members: Vec<(String, J)> = vec![("m0".to_string(), J::Int(i as i64))];
        for (j, nm) in names.iter().enumerate() {
            if j == i || r.chance(35) {
                if logfmt && nm.contains(' ') {
                    continue;
                }
                members.push((nm.to_string(), match r.below(3) { 0 => J::Int(r.range(-9, 99)), 1 => J::Str(format!("v{}", j)), _ => J::Bool(r.chance(50)) }));
            }
        }
        let text = if logfmt {
            members.iter().map(|(k, v)| format!("{}={}", k, match v { J::Int(i) => format!("{}", i), J::Str(s) => s.clone(), J::Bool(b) => format!("{}", b), _ => "x".into() })).collect::<Vec<_>>().join(" ")
        } else {
            format!("{{{}}}", members.iter().map(|(k, v)| format!("{}:{}", serde_json::to_string(k).unwrap(), match v { J::Int(i) => format!("{}", i), J::Str(s) => serde_json::to_string(s).unwrap(), J::Bool(b) => format!("{}", b), _ => "null".into() })).collect::<Vec<_>>().join(","))
        };
        docs.push((text, members));
    }
    let input: Vec<u8> = docs.iter().map(|d| format!("{}\n", d.0)).collect::<String>().into_bytes();
    let q = format!("* | parse \"*\" as doc noconvert | count by doc | sort by doc | {} from doc", if logfmt { "logfmt" } else { "json" });
    let key = ckey(&q, &input);
    let run = imp::run(&q, &input, "json", 10);
    let info = serde_json::json!({"query": q, "input": String::from_utf8_lossy(&input)});
    let rows = match canon::parse(String::from_utf8_lossy(&run.stdout).trim_end()) {
        Ok(J::Arr(rows)) => rows,
        _ => vec![],
    };
    let mut problem: Option<String> = None;
    if rows.len() != docs.len() {
        problem = Some(format!("{} rows for {} distinct documents", rows.len(), docs.len()));
    }
    for (text, members) in &docs {
        let row = rows.iter().find(|row| matches!(row, J::Obj(kvs) if kvs.iter().any(|kv| kv.0 == "doc" && kv.1 == J::Str(text.clone()))));
        match row {
            Some(J::Obj(kvs)) => {
                for (k, v) in members {
                    let got = kvs.iter().find(|kv| &kv.0 == k).map(|kv| canon::normalize(&kv.1));
                    if got != Some(canon::normalize(v)) {
                        problem = Some(format!("document {} : member {:?} should be {:?}, the row has {:?}", text, k, v, got));
                    }
                }
            }
            _ => problem = Some(format!("no row for document {}", text)),
        }
    }
    match problem {
        Some(w) => ctx.case("from-after-agg", &key, "viol", serde_json::json!({"class": "C06/member-missing-after-aggregate", "what": w, "got": String::from_utf8_lossy(&run.stdout), "case": info})),
        None => {
            ctx.case("from-after-agg", &key, "pass", info.clone());
            let c = run_both(ctx, &q, &input);
            match compare(&c, true) {
                F::Disagree(d) => ctx.case("from-after-agg-model", &key, "fdis", serde_json::json!({"what": d, "case": info})),
                F::Agree => ctx.case("from-after-agg-model", &key, "pass", info),
                F::Skip(w) => ctx.case("from-after-agg-model", "", "skip", serde_json::json!({"why": w.split(':').next().unwrap_or("").to_string()})),
            }
        }
    }
}

/// arbitrary lines: model vs the crate (pairs), and model vs implementation end to end
fn fam_logfmt_garbage(ctx: &mut Ctx, r: &mut Rng) {
    let text = if r.chance(70) { lf_garbage(r) } else { lf_wellformed(r).0 };
    let key = ckey("LOGFMT", text.as_bytes());
    let t2 = text.clone();
    let crate_pairs = std::panic::catch_unwind(move || logfmt::parse(&t2));
    let model = ctx.drv.ask(&format!("LOGFMT\t{}", enc::hex(&text)));
    let info = serde_json::json!({"text": text});
    match crate_pairs {
        Err(_) => {
            ctx.case("logfmt-crate", &key, "fdis", serde_json::json!({"what": "logfmt::parse panicked", "case": info}));
        }
        Ok(ps) => {
            let mut toks = vec!["PAIRS".to_string(), format!("{}", ps.len())];
            for p in &ps {
                toks.push(format!("S{}", enc::hex(&p.key)));
                toks.push(match &p.val {
                    None => "N".into(),
                    Some(v) => format!("S{}", enc::hex(v)),
                });
            }
            let want = toks.join(" ");
            if want == model {
                ctx.case("logfmt-crate", &key, "pass", info);
            } else {
                ctx.case("logfmt-crate", &key, "fdis", serde_json::json!({"what": format!("pairs differ: crate={} model={}", clip(&want), clip(&model)), "case": info}));
            }
        }
    }
    // end to end (F-level only: what garbage means is not the property's business)
    if !text.contains('\n') {
        let input = format!("{}\n", text).into_bytes();
        let c = run_both(ctx, "* | logfmt", &input);
        let info = case_info("* | logfmt", &input);
        match compare(&c, true) {
            F::Agree => ctx.case("logfmt-any", &key, "pass", info),
            F::Skip(w) => ctx.case("logfmt-any", "", "skip", serde_json::json!({"why": w, "case": info})),
            F::Disagree(d) => ctx.case("logfmt-any", &key, "fdis", serde_json::json!({"what": d, "case": info})),
        }
    }
}

/* ------------------------------------------------------------------ hazards (known classes) */

fn fam_hazards(ctx: &mut Ctx) {
    // doubles that `Value::from_float` turns into a different integer (C08's defect, seen through C06)
    let lits = ["1e-300", "2.5e-17", "1e300", "9223372036854775808", "1e19", "-1e19", "18446744073709551615", "1.5e-16"];
    for lit in lits {
        let d = Doc::Obj(vec![("v".into(), Doc::Num(lit.to_string()))]);
        let text = format!("{{\"v\":{}}}\n", lit);
        let lines = vec![Line { bytes: text.trim_end().as_bytes().to_vec(), exp: Some(expect(&d)) }];
        report(ctx, "hazard-float-to-int", "* | json", text.as_bytes(), &lines, false);
    }
    // logfmt: an empty value that is not the last pair disappears; backslash before the closing quote
    let cases: [(&str, &[(&str, Option<&str>)]); 4] = [
        ("a= b=2", &[("a", Some("")), ("b", Some("2"))]),
        ("a=\"\" b=2", &[("a", Some("")), ("b", Some("2"))]),
        ("p=\"c:\\\\\" q=1", &[("p", Some("c:\\")), ("q", Some("1"))]),
        ("v=1e300", &[("v", Some("1e300"))]),
    ];
    for (text, pairs) in cases {
        let mut m: std::collections::BTreeMap<String, J> = Default::default();
        for (k, v) in pairs {
            m.insert(k.to_string(), match v {
                None => J::Null,
                Some(t) => {
                    if *t == "1e300" {
                        J::Float(1e300)
                    } else {
                        value_to_j(&Value::from_string(*t))
                    }
                }
            });
        }
        let lines = vec![Line { bytes: text.as_bytes().to_vec(), exp: Some(J::Obj(m.into_iter().collect())) }];
        let input = format!("{}\n", text).into_bytes();
        let run = imp::run("* | logfmt", &input, "json", 10);
        let key = ckey("* | logfmt", &input);
        let mut info = case_info("* | logfmt", &input);
        match oracle(&run, &lines) {
            Ok(()) => ctx.case("hazard-logfmt", &key, "pass", info),
            Err((class, what)) => {
                let class = if text.starts_with("a=") {
                    "C06/logfmt-empty-value-dropped".to_string()
                } else if text.starts_with("p=") {
                    "C06/logfmt-backslash-before-quote".to_string()
                } else {
                    class
                };
                let open = class.starts_with("C06/logfmt-");
                info["class"] = serde_json::json!(class);
                info["what"] = serde_json::json!(what);
                info["got"] = serde_json::json!(String::from_utf8_lossy(&run.stdout));
                // the two logfmt classes are listed as open findings (third-party `logfmt` crate)
                ctx.case("hazard-logfmt", &key, if open { "known" } else { "viol" }, info)
            }
        }
    }
}

pub fn check(ctx: &mut Ctx) {
    let thorough = ctx.thorough();
    let depth = if thorough { 6 } else { 4 };
    if ctx.shard == 0 {
        fam_hazards(ctx);
        fam_depth_limit(ctx);
    }
    let n = ctx.budget(24000, 400000);
    for i in 0..n {
        let mut r = ctx.rng.fork();
        match i % 16 {
            0 | 1 | 2 => fam_json_doc(ctx, &mut r, depth),
            3 => fam_deep(ctx, &mut r, if thorough { 100 } else { 6 }),
            4 | 5 => fam_json_from(ctx, &mut r, depth.min(3)),
            6 | 7 => fam_access(ctx, &mut r, 2),
            8 | 9 => fam_jsonparse(ctx, &mut r, depth),
            10 => {
                if i % 32 == 10 {
                    fam_num_wide(ctx, &mut r)
                } else {
                    fam_num_shortest(ctx, &mut r)
                }
            }
            11 | 12 => fam_logfmt(ctx, &mut r, false),
            13 => fam_logfmt(ctx, &mut r, true),
            14 if i % 64 == 14 => fam_from_after_agg(ctx, &mut r),
            _ => fam_logfmt_garbage(ctx, &mut r),
        }
    }
}
