//! C10: limit keeps exactly the first or the last N rows.
//! P-level: exhaustive (N, length, position) grid judged against take/drop directly.
//! F-level: the same runs against the Lean model.
use super::common::*;
use crate::canon::{self, J};
use crate::imp;
use crate::Ctx;

fn input(len: usize) -> Vec<u8> {
    let mut s = String::new();
    for i in 0..len {
        // n runs against the id order so that "sorted by n" differs from arrival order
        s.push_str(&format!("{{\"id\":{},\"n\":{}}}\n", i, (i * 7 + 3) % 11));
    }
    s.into_bytes()
}

fn ids_of_records(stdout: &[u8]) -> Option<Vec<i64>> {
    let text = String::from_utf8_lossy(stdout);
    let mut v = vec![];
    for l in text.lines().filter(|l| !l.is_empty()) {
        match canon::parse(l).ok()? {
            J::Obj(kvs) => match kvs.iter().find(|kv| kv.0 == "id")?.1 {
                J::Int(i) => v.push(i),
                _ => return None,
            },
            _ => return None,
        }
    }
    Some(v)
}

fn ids_of_table(stdout: &[u8]) -> Option<Vec<i64>> {
    let text = String::from_utf8_lossy(stdout);
    match canon::parse(text.trim_end()).ok()? {
        J::Arr(rows) => {
            let mut v = vec![];
            for r in rows {
                match r {
                    J::Obj(kvs) => match kvs.iter().find(|kv| kv.0 == "id")?.1 {
                        J::Int(i) => v.push(i),
                        _ => return None,
                    },
                    _ => return None,
                }
            }
            Some(v)
        }
        _ => None,
    }
}

fn lim(ids: &[i64], n: i64) -> Vec<i64> {
    if n > 0 {
        ids.iter().take(n as usize).cloned().collect()
    } else {
        let k = (-n) as usize;
        ids[ids.len().saturating_sub(k)..].to_vec()
    }
}

pub fn check(ctx: &mut Ctx) {
    let (max_n, max_len): (i64, usize) = if ctx.thorough() { (14, 18) } else { (9, 11) };
    let mut grid: Vec<(String, i64, i64, usize)> = vec![];
    for pos in ["first", "after-where", "after-agg", "after-sort", "chained", "after-sort-chained"] {
        for n in -max_n..=max_n {
            if n == 0 {
                continue;
            }
            for len in 0..=max_len {
                if pos == "chained" || pos == "after-sort-chained" {
                    for m in [-3i64, -1, 2, 5] {
                        grid.push((pos.to_string(), n, m, len));
                    }
                } else {
                    grid.push((pos.to_string(), n, 0, len));
                }
            }
        }
    }
    if ctx.thorough() {
        for (n, len) in [(1000i64, 20000usize), (-1000, 20000), (15000, 12000), (-15000, 12000), (1, 100000), (-1, 100000), (99999, 100000)] {
            grid.push(("first".into(), n, 0, len));
        }
    }
    for (i, (pos, n, m, len)) in grid.iter().enumerate() {
        if i % ctx.nshards != ctx.shard {
            continue;
        }
        let (n, m, len) = (*n, *m, *len);
        let inp = input(len);
        let all: Vec<i64> = (0..len as i64).collect();
        let mut by_n_desc = all.clone();
        // stable sort by n descending, ties by remaining columns ascending (id)
        by_n_desc.sort_by(|a, b| {
            let na = (*a as usize * 7 + 3) % 11;
            let nb = (*b as usize * 7 + 3) % 11;
            nb.cmp(&na).then(a.cmp(b))
        });
        let (query, expected, table): (String, Vec<i64>, bool) = match pos.as_str() {
            "first" => (format!("* | json | limit {}", n), lim(&all, n), false),
            "after-where" => {
                let kept: Vec<i64> = all.iter().cloned().filter(|i| i % 3 != 1).collect();
                (format!("* | json | where id - (id / 3 - (id / 3 - floor(id / 3))) * 3 != 1 | limit {}", n), lim(&kept, n), false)
            }
            "after-agg" => (format!("* | json | count by id | limit {}", n), lim(&all, n), true),
            "after-sort" => (format!("* | json | sort by n desc | limit {}", n), lim(&by_n_desc, n), true),
            "chained" => (format!("* | json | limit {} | limit {}", n, m), lim(&lim(&all, n), m), false),
            _ => (format!("* | json | sort by n desc | limit {} | limit {}", n, m), lim(&lim(&by_n_desc, n), m), true),
        };
        let key = format!("{}:{}:{}:{}", pos, n, m, len);
        let c = run_both(ctx, &query, &inp);
        let info = serde_json::json!({"query": query, "rows": len, "n": n, "m": m, "position": pos});
        // P-level
        let got = if c.imp.panicked.is_some() || c.imp.hung || !c.imp.compiled {
            None
        } else if table {
            ids_of_table(&c.imp.stdout)
        } else {
            ids_of_records(&c.imp.stdout)
        };
        if got.as_ref() != Some(&expected) {
            let class = if pos.starts_with("after-sort") { "C10/limit-after-raw-sort" } else { "" };
            ctx.case(
                pos,
                &key,
                "viol",
                serde_json::json!({"class": class, "what": "rows passed by limit differ from the first/last N of the rows reaching it",
                  "expected_ids": expected, "got_ids": got, "panic": c.imp.panicked, "hung": c.imp.hung, "compiled": c.imp.compiled,
                  "case": info, "input_hex": crate::enc::hexb(&inp)}),
            );
            continue;
        }
        // F-level
        match compare(&c, true) {
            F::Agree => ctx.case(pos, &key, "pass", info),
            F::Skip(w) => ctx.case(pos, "", "skip", serde_json::json!({"why": w, "case": info})),
            F::Disagree(d) => ctx.case(pos, &key, "fdis", serde_json::json!({"what": d, "case": info})),
        }
    }
    // "after an aggregation the limit applies to the ordered table" — also when further stages
    // follow the limit: `agg | limit N | S` = `agg | sort by <aggregate columns> desc | limit N | S`
    let nl = ctx.budget(200, 5000);
    for _ in 0..nl {
        let mut r = ctx.rng.fork();
        let nrows = 4 + r.below(30);
        let input = agg_docs(&mut r, nrows);
        let (aggs, cols): (&str, Vec<&str>) = r.pick(&[("count", vec!["_count"]), ("count, sum(n)", vec!["_count", "_sum"]), ("sum(n) as s", vec!["s"])]).clone();
        let agg = format!("{} by {}", aggs, r.pick(&["k", "k, m", "m"]));
        let nlim = *r.pick(&[1i64, 2, 3, 5, -1, -2, -3]);
        let after = *r.pick(&["", " | fields k", " | where 1 == 1", " | limit 2", " | fields except k", " | total(n) as t", " | sort by k", " | count"]);
        let tail = format!(" | limit {}{}", nlim, after);
        let key = ckey(&format!("{}{}", agg, tail), &input);
        match implicit_sort_equiv("* | json", &agg, &cols, false, &tail, &input) {
            None => ctx.case("limit-after-agg-then-stage", &key, "pass", serde_json::json!({"query": format!("* | json | {}{}", agg, tail)})),
            Some((q1, q2, o1, o2)) => ctx.case("limit-after-agg-then-stage", &key, "viol", serde_json::json!({"class": "", "what": "a limit directly after an aggregation does not cut the ordered table (the result differs from the same query with the implicit sort written out)",
                "query": q1, "query_with_explicit_sort": q2, "got": o1, "expected": o2, "input": String::from_utf8_lossy(&input)})),
        }
        let q1 = format!("* | json | {}{}", agg, tail);
        let c = run_both(ctx, &q1, &input);
        match compare(&c, true) {
            F::Disagree(d) => ctx.case("model", &key, "fdis", serde_json::json!({"what": d, "query": q1, "input": String::from_utf8_lossy(&input)})),
            F::Agree => ctx.case("model", &key, "pass", serde_json::json!({"query": q1})),
            F::Skip(w) => ctx.case("model", "", "skip", serde_json::json!({"why": w.split(':').next().unwrap_or("").to_string()})),
        }
    }
    // `Q | sort by k | limit N` = the first (last) N rows of `Q | sort by k`, in particular when rows
    // with equal sort keys straddle the cut (their order is decided by the other columns)
    let nt = ctx.budget(160, 4000);
    for _ in 0..nt {
        let mut r = ctx.rng.fork();
        let nrows = 2 + r.below(14);
        let mut input = String::new();
        for i in 0..nrows {
            // few distinct keys, other columns in an order unrelated to arrival
            input.push_str(&format!("{{\"k\":{},\"v\":\"{}\",\"w\":{}}}\n", r.below(3), r.pick(&["q", "a", "c", "b", "z", "m"]), (i * 7 + 3) % 5));
        }
        let dir = *r.pick(&["", " desc", " asc"]);
        let keys = *r.pick(&["k", "k", "w", "k, w"]);
        let nlim = *r.pick(&[1i64, 2, 3, 4, 5, 7, -1, -2, -3, -5]);
        let base = format!("* | json | sort by {}{}", keys, dir);
        let q = format!("{} | limit {}", base, nlim);
        let key = ckey(&q, input.as_bytes());
        let all = imp::run(&base, input.as_bytes(), "json", 10);
        let cut = imp::run(&q, input.as_bytes(), "json", 10);
        let rows_of = |b: &[u8]| -> Option<Vec<crate::canon::J>> {
            match crate::canon::parse(String::from_utf8_lossy(b).trim_end()) {
                Ok(crate::canon::J::Arr(rows)) => Some(rows.iter().map(crate::canon::normalize).collect()),
                _ => None,
            }
        };
        let info = serde_json::json!({"query": q, "input": input});
        match (rows_of(&all.stdout), rows_of(&cut.stdout)) {
            (Some(a), Some(c)) => {
                let n = nlim.unsigned_abs() as usize;
                let want: Vec<crate::canon::J> = if nlim > 0 { a.iter().take(n).cloned().collect() } else { a.iter().skip(a.len().saturating_sub(n)).cloned().collect() };
                if c == want {
                    ctx.case("limit-after-sort", &key, "pass", info.clone());
                } else {
                    ctx.case("limit-after-sort", &key, "viol", serde_json::json!({"class": "", "what": "a limit after a sort is not the first/last N rows of the sorted table", "sorted_table": String::from_utf8_lossy(&all.stdout), "got": String::from_utf8_lossy(&cut.stdout), "case": info}));
                    continue;
                }
            }
            _ => {
                ctx.case("limit-after-sort", "", "skip", serde_json::json!({"why": "output is not a table"}));
                continue;
            }
        }
        let c = run_both(ctx, &q, input.as_bytes());
        match compare(&c, true) {
            F::Disagree(d) => ctx.case("model", &key, "fdis", serde_json::json!({"what": d, "case": info})),
            F::Agree => ctx.case("model", &key, "pass", info),
            F::Skip(w) => ctx.case("model", "", "skip", serde_json::json!({"why": w.split(':').next().unwrap_or("").to_string()})),
        }
    }
    // a limit on a LIVE table: on a terminal the post-aggregate stages run again for every frame
    // (a fresh table each time); the last frame must be the limit applied to the final table — the
    // same rows a non-terminal run prints — for head and tail limits, also when |N| exceeds the
    // number of groups
    let nlive = ctx.budget(96, 2400);
    for _ in 0..nlive {
        let mut r = ctx.rng.fork();
        let nrows = 3 + r.below(18);
        let input = agg_docs(&mut r, nrows);
        let nlim = *r.pick(&[1i64, 2, 3, 5, 8, -1, -2, -3, -5, -8]);
        let q = match r.below(4) {
            0 => format!("* | json | count by k | limit {}", nlim),
            1 => format!("* | json | count, sum(n) by k | sort by k | limit {}", nlim),
            2 => format!("* | json | sum(n) as s by k, m | limit {}", nlim),
            _ => format!("* | json | count by k | limit {} | limit {}", nlim, if nlim > 0 { -2 } else { 2 }),
        };
        let key = ckey(&q, &input);
        let plain = super::c16::run_pipeline(&q, &input, None, false, 1, 100, vec![]);
        let live = super::c16::run_pipeline(&q, &input, Some((40, 160)), true, r.next(), *r.pick(&[100usize, 100, 60, 30]), vec![]);
        let info = serde_json::json!({"query": q, "input": String::from_utf8_lossy(&input)});
        if !plain.compiled || !live.compiled || plain.panicked.is_some() || live.panicked.is_some() || plain.hung || live.hung {
            ctx.case("limit-on-live-table", &key, "viol", serde_json::json!({"class": "", "what": "run did not complete", "panic": live.panicked.or(plain.panicked), "case": info}));
            continue;
        }
        let frames = super::c16::split_frames(&String::from_utf8_lossy(&live.bytes));
        let last = frames.last().cloned().unwrap_or_default();
        let plain_text = String::from_utf8_lossy(&plain.bytes).to_string();
        match super::c16::frame_vs_plain(&last, &plain_text, 160, 40, true) {
            None => ctx.case("limit-on-live-table", &key, "pass", serde_json::json!({"query": q, "frames": frames.len()})),
            Some(why) => ctx.case("limit-on-live-table", &key, "viol", serde_json::json!({"class": "", "what": format!("the last frame of a terminal run is not the limit applied to the final table: {}", why), "last_frame": last, "non_terminal_output": plain_text, "frames": frames.len(), "case": info})),
        }
    }
    // static rules, on shard 0
    if ctx.shard == 0 {
        for (q, want_ok) in [
            ("* | limit", true),
            ("* | limit 0", false),
            ("* | limit 1.5", false),
            ("* | limit -0.5", false),
            ("* | limit 0.0", false),
            ("* | limit 3", true),
            ("* | limit -3", true),
            ("* | limit 2.0", true),
            ("* | count | limit 0", false),
        ] {
            let r = imp::run(q, b"a\nb\n", "json", 10);
            let ok = r.compiled && r.panicked.is_none();
            let key = format!("static:{}", q);
            if ok != want_ok {
                ctx.case("static", &key, "viol", serde_json::json!({"what": "static limit rule", "query": q, "expected_accept": want_ok, "accepted": ok}));
            } else {
                ctx.case("static", &key, "pass", serde_json::json!({"query": q, "accepted": ok}));
            }
        }
        // generated: every zero or fractional spelling, of both signs and any magnitude, in any
        // position, is rejected; integral spellings are accepted (P-level), and the model agrees (F)
        let mut r = ctx.rng.fork();
        for i in 0..ctx.budget(2400, 48000) { // (budget is per shard; this block runs on shard 0 only)
            let neg = r.below(2) == 0;
            let ip = *r.pick(&[0u64, 0, 1, 1, 2, 3, 7, 10, 99, 100, 4096, 1000000]);
            let (text, want_ok) = match r.below(6) {
                0 => (format!("{}.{}", ip, r.range(1, 9)), false),
                1 => (format!("{}.0{}", ip, r.range(1, 9)), false),
                2 => (format!("{}{}e-1", ip, r.range(1, 9)), false),
                3 => (format!("{}.000", ip), ip != 0),
                4 => (format!("{}e{}", ip, r.below(3)), ip != 0),
                _ => (format!("{}", ip), ip != 0),
            };
            let text = if neg { format!("-{}", text) } else { text };
            let q = match i % 4 {
                0 => format!("* | limit {}", text),
                1 => format!("* | json | count by k | limit {}", text),
                2 => format!("* | json | sort by n | limit {}", text),
                _ => format!("* | json | limit 5 | limit {}", text),
            };
            let c = run_both(ctx, &q, b"{\"k\":1,\"n\":2}\n{\"k\":2,\"n\":1}\n");
            let ok = c.imp.compiled && c.imp.panicked.is_none() && !c.imp.hung;
            let key = format!("static-gen:{}", q);
            if ok != want_ok {
                ctx.case("static-generated", &key, "viol", serde_json::json!({"what": "static limit rule: zero and fractional limits are rejected, integral ones accepted", "query": q, "expected_accept": want_ok, "accepted": ok, "panic": c.imp.panicked}));
                continue;
            }
            match compare(&c, true) {
                F::Disagree(d) => ctx.case("static-generated", &key, "fdis", serde_json::json!({"what": d, "query": q})),
                _ => ctx.case("static-generated", &key, "pass", serde_json::json!({"query": q, "accepted": ok})),
            }
        }
        // bare limit = 10
        let inp = input(25);
        let r = imp::run("* | json | limit", &inp, "json", 10);
        let got = ids_of_records(&r.stdout);
        let want: Vec<i64> = (0..10).collect();
        if got.as_ref() != Some(&want) {
            ctx.case("static", "bare", "viol", serde_json::json!({"what": "bare limit is not 10", "got": got}));
        } else {
            ctx.case("static", "bare", "pass", serde_json::json!({"query": "* | json | limit"}));
        }
    }
}
