//! Shared helpers: canonical form of the implementation's `-o json` output, RUN requests.
use crate::canon::{self, J};
use crate::enc;
use crate::imp::{self, ImplRun};
use crate::Ctx;

/// does the query produce a table (aggregate) rather than a record stream?
pub fn is_table_query(q: &ag::lang::Query) -> bool {
    fn has(ops: &[ag::lang::Operator]) -> bool {
        ops.iter().any(|o| match o {
            ag::lang::Operator::MultiAggregate(_) | ag::lang::Operator::Sort(_) => true,
            ag::lang::Operator::RenderedAlias(inner) => has(inner),
            _ => false,
        })
    }
    has(&q.operators)
}

/// canonical text of the implementation's JSON output (same grammar as Codec.showOutput)
pub fn canon_impl_json(stdout: &[u8], table: bool, errors: usize) -> Result<String, String> {
    let text = String::from_utf8(stdout.to_vec()).map_err(|_| "stdout is not UTF-8".to_string())?;
    let mut toks: Vec<String> = vec![format!("E{}", errors)];
    if table {
        let j = canon::parse(text.trim_end_matches('\n')).map_err(|e| format!("bad JSON array: {}", e))?;
        let rows = match j {
            J::Arr(rows) => rows,
            _ => return Err("aggregate output is not an array".into()),
        };
        toks.push("TAB".into());
        if rows.is_empty() {
            toks.push("0".into());
            toks.push("0".into());
        } else {
            let cols: Vec<String> = match &rows[0] {
                J::Obj(kvs) => kvs.iter().map(|kv| kv.0.clone()).collect(),
                _ => return Err("row is not an object".into()),
            };
            toks.push(format!("{}", cols.len()));
            for c in &cols {
                toks.push(format!("S{}", enc::hex(c)));
            }
            toks.push(format!("{}", rows.len()));
            for r in &rows {
                canon::tokens(r, false, &mut toks);
            }
        }
    } else {
        let lines: Vec<&str> = text.split('\n').filter(|l| !l.is_empty()).collect();
        toks.push("REC".into());
        toks.push(format!("{}", lines.len()));
        for l in lines {
            let j = canon::parse(l).map_err(|e| format!("bad JSON line: {} in {:?}", e, l))?;
            canon::tokens(&j, false, &mut toks);
        }
    }
    Ok(toks.join(" "))
}

pub struct RunCmp {
    pub imp: ImplRun,
    pub ast: Option<String>,
    pub impl_canon: Option<String>,
    pub model: String,
    pub table: bool,
    pub query: String,
}

/// functions whose value comes from the platform's libm (Rust's and Lean's bindings need not be
/// the same implementation and libm does not promise correct rounding): their results are a
/// parameter of the model, and the comparison allows them a few units in the last place
const LIBM_FUNCS: &[&str] = &["acos(", "asin(", "atan(", "atan2(", "cbrt(", "cos(", "cosh(", "exp(", "expm1(", "hypot(", "log(", "log10(", "log1p(", "sin(", "sinh(", "tan(", "tanh(", "toDegrees(", "toRadians("];

/// equal up to ≤ 4 ulp on `F<16 hex>` tokens
fn equal_up_to_ulps(a: &str, b: &str) -> bool {
    let (ta, tb): (Vec<&str>, Vec<&str>) = (a.split(' ').collect(), b.split(' ').collect());
    if ta.len() != tb.len() {
        return false;
    }
    ta.iter().zip(tb.iter()).all(|(x, y)| {
        if x == y {
            return true;
        }
        match (x.strip_prefix('F').and_then(|h| u64::from_str_radix(h, 16).ok()), y.strip_prefix('F').and_then(|h| u64::from_str_radix(h, 16).ok())) {
            (Some(p), Some(q)) if x.len() == 17 && y.len() == 17 => (p >> 63) == (q >> 63) && p.abs_diff(q) <= 4,
            _ => false,
        }
    })
}

/// run query on both sides with `-o json`
pub fn run_both(ctx: &mut Ctx, query: &str, input: &[u8]) -> RunCmp {
    let imp = imp::run(query, input, "json", if input.len() > 100_000 { 120 } else { 30 });
    let parsed = imp::parse(query).ok().and_then(|p| p.0);
    let (ast, table) = match &parsed {
        Some(q) => (Some(enc::query(q)), is_table_query(q)),
        None => (None, false),
    };
    let model = match &ast {
        Some(a) => {
            let dates = if query.contains("parseDate") { date_table(input, query) } else { String::new() };
            ctx.drv.ask(&format!("RUN\t{}\t{}\t{}", a, enc::hexb(input), dates))
        }
        None => "NOAST".to_string(),
    };
    let impl_canon = if imp.compiled && imp.panicked.is_none() && !imp.hung {
        canon_impl_json(&imp.stdout, table, imp.error_lines).ok()
    } else {
        None
    };
    RunCmp { imp, ast, impl_canon, model, table, query: query.to_string() }
}

/// F-level comparison outcome
pub enum F {
    Agree,
    Skip(String),
    Disagree(String),
}

/// sort the rows of a canonical table text (used when the property does not fix the row order)
pub fn rows_as_multiset(canon: &str) -> String {
    // E<k> TAB <nc> cols.. <nr> rows..   — split rows at top-level "O<nc>" boundaries
    let toks: Vec<&str> = canon.split(' ').collect();
    if toks.len() < 4 || toks[1] != "TAB" {
        return canon.to_string();
    }
    let nc: usize = toks[2].parse().unwrap_or(0);
    let head = 3 + nc + 1;
    if toks.len() < head {
        return canon.to_string();
    }
    let mut rows: Vec<String> = vec![];
    let mut i = head;
    while i < toks.len() {
        let (end, _) = skip_value(&toks, i);
        rows.push(toks[i..end].join(" "));
        i = end;
    }
    rows.sort();
    format!("{} {}", toks[..head].join(" "), rows.join(" "))
}

fn skip_value(toks: &[&str], i: usize) -> (usize, ()) {
    let t = toks[i];
    let b = t.as_bytes();
    match b[0] {
        b'A' => {
            let n: usize = t[1..].parse().unwrap_or(0);
            let mut j = i + 1;
            for _ in 0..n {
                j = skip_value(toks, j).0;
            }
            (j, ())
        }
        b'O' => {
            let n: usize = t[1..].parse().unwrap_or(0);
            let mut j = i + 1;
            for _ in 0..n {
                j += 1; // key
                j = skip_value(toks, j).0;
            }
            (j, ())
        }
        _ => (i + 1, ()),
    }
}

pub fn compare(c: &RunCmp, order_matters: bool) -> F {
    if c.imp.hung {
        return F::Disagree("implementation hung".into());
    }
    if c.imp.contaminated {
        return F::Skip("an earlier run of this worker was still writing to stderr: error lines cannot be attributed".into());
    }
    if c.model.starts_with("SKIP") {
        return F::Skip(c.model[4..].trim().to_string());
    }
    if c.model == "NOAST" {
        // rejected by the parser: the model is driven by the implementation's AST, nothing to compare
        return F::Skip("query rejected by the implementation's parser".into());
    }
    if let Some(p) = &c.imp.panicked {
        if c.model.starts_with("PANIC") || c.model.starts_with("CPANIC") {
            return F::Agree;
        }
        return F::Disagree(format!("implementation panicked ({}) but the model says {}", p, head(&c.model)));
    }
    if c.model.starts_with("PANIC") || c.model.starts_with("CPANIC") {
        return F::Disagree(format!("model predicts a panic ({}) but the implementation did not", c.model));
    }
    if !c.imp.compiled {
        return if c.model.starts_with("CERR") {
            F::Agree
        } else {
            F::Disagree(format!("implementation rejected the query ({}) but the model says {}", c.imp.compile_err, head(&c.model)))
        };
    }
    if c.model.starts_with("CERR") {
        return F::Disagree(format!("model rejects the query ({}) but the implementation compiled it", c.model));
    }
    let ic = match &c.impl_canon {
        Some(x) => x.clone(),
        None => return F::Disagree("implementation output is not well-formed JSON".into()),
    };
    let m = c.model.strip_prefix("OUT ").unwrap_or(&c.model).to_string();
    let (a, b) = if c.table && !order_matters { (rows_as_multiset(&ic), rows_as_multiset(&m)) } else { (ic, m) };
    if a == b {
        F::Agree
    } else if LIBM_FUNCS.iter().any(|f| c.query.contains(f)) && equal_up_to_ulps(&a, &b) {
        // a libm value differs by a few ulp between Rust's and Lean's bindings: outside the model
        F::Skip("libm value differs in the last place (libm is a parameter of the model)".into())
    } else {
        F::Disagree(format!("outputs differ: impl={} model={}", clip(&a), clip(&b)))
    }
}

pub fn head(s: &str) -> String {
    s.chars().take(60).collect()
}
pub fn clip(s: &str) -> String {
    if s.len() > 1500 {
        format!("{}…", &s[..1500])
    } else {
        s.to_string()
    }
}

pub fn case_info(query: &str, input: &[u8]) -> serde_json::Value {
    serde_json::json!({"query": query, "input": String::from_utf8_lossy(input), "input_hex": enc::hexb(input)})
}

/// stable key of a (query, input) case
pub fn ckey(query: &str, input: &[u8]) -> String {
    use std::hash::{Hash, Hasher};
    let mut h = std::collections::hash_map::DefaultHasher::new();
    query.hash(&mut h);
    input.hash(&mut h);
    format!("{:016x}", h.finish())
}

/// prepend a unique `"id": i` member to every JSON object line of `input`
pub fn with_ids(input: &[u8], start: usize) -> Vec<u8> {
    let mut out = vec![];
    let mut i = start;
    for line in input.split_inclusive(|b| *b == b'\n') {
        if line.first() == Some(&b'{') && line.len() > 2 && line[1] != b'}' {
            out.extend(format!("{{\"id\":{},", i).into_bytes());
            out.extend(&line[1..]);
        } else {
            out.extend(line);
        }
        i += 1;
    }
    out
}

/// output lines of a record-mode run, parsed (order-preserving)
pub fn record_lines(stdout: &[u8]) -> Option<Vec<Vec<(String, crate::canon::J)>>> {
    let text = String::from_utf8_lossy(stdout);
    let mut v = vec![];
    for l in text.lines().filter(|l| !l.is_empty()) {
        match crate::canon::normalize(&crate::canon::parse(l).ok()?) {
            crate::canon::J::Obj(kvs) => v.push(kvs),
            _ => return None,
        }
    }
    Some(v)
}


/// `parseDate` is an external function (dtparse) for the model: the harness supplies its value for
/// every string that occurs in the input documents or as a literal in the query
pub fn date_table(input: &[u8], query: &str) -> String {
    fn leaves(j: &crate::canon::J, out: &mut Vec<String>) {
        match j {
            crate::canon::J::Str(s) => out.push(s.clone()),
            crate::canon::J::Arr(v) => v.iter().for_each(|x| leaves(x, out)),
            crate::canon::J::Obj(kvs) => kvs.iter().for_each(|kv| leaves(&kv.1, out)),
            crate::canon::J::Int(i) => out.push(format!("{}", i)),
            crate::canon::J::Float(f) => out.push(format!("{}", f)),
            crate::canon::J::Bool(b) => out.push(format!("{}", b)),
            crate::canon::J::Null => out.push("None".into()),
        }
    }
    let mut strs: Vec<String> = vec![];
    for l in String::from_utf8_lossy(input).lines().take(400) {
        if let Ok(j) = crate::canon::parse(l) {
            leaves(&j, &mut strs);
        }
    }
    // string literals of the query
    let mut cur = String::new();
    let mut quote: Option<char> = None;
    for c in query.chars() {
        match quote {
            Some(q) if c == q => {
                strs.push(cur.clone());
                cur.clear();
                quote = None;
            }
            Some(_) => cur.push(c),
            None if c == '"' || c == '\'' => quote = Some(c),
            None => {}
        }
    }
    strs.sort();
    strs.dedup();
    let mut out = vec![];
    for s in strs.iter().take(300) {
        let v = std::panic::catch_unwind(|| dtparse::parse(s)).ok().and_then(|r| r.ok());
        let txt = match v {
            Some((naive, _off)) => match naive.and_utc().timestamp_nanos_opt() {
                Some(ns) => format!("{}", ns),
                None => continue, // outside i64 nanoseconds: leave the string out (model answers "unmodelled")
            },
            None => "x".to_string(),
        };
        out.push(format!("S{}={}", enc::hex(s), txt));
    }
    out.join(" ")
}


/// kill a child process (SIGKILL) when it is still running after `secs`; the caller sets `.0` once
/// the child has been waited for, and reads `.1` to learn whether the watchdog fired
pub fn kill_after(pid: u32, secs: u64) -> (std::sync::Arc<std::sync::atomic::AtomicBool>, std::sync::Arc<std::sync::atomic::AtomicBool>) {
    use std::sync::atomic::{AtomicBool, Ordering};
    use std::sync::Arc;
    let done = Arc::new(AtomicBool::new(false));
    let fired = Arc::new(AtomicBool::new(false));
    let (d, f) = (done.clone(), fired.clone());
    std::thread::spawn(move || {
        let t0 = std::time::Instant::now();
        while !d.load(Ordering::SeqCst) {
            if t0.elapsed().as_secs() >= secs {
                f.store(true, Ordering::SeqCst);
                unsafe {
                    libc::kill(pid as i32, libc::SIGKILL);
                }
                break;
            }
            std::thread::sleep(std::time::Duration::from_millis(20));
        }
    });
    (done, fired)
}


/// The order of an aggregation that ends the query (or is directly followed by `limit`) is the
/// documented implicit sort: by the aggregate columns, descending — or, when `_timeslice` is a key,
/// by `_timeslice` and then the aggregate columns, ascending.  `pre | agg | tail` must therefore
/// give exactly what `pre | agg | sort by <those columns> <dir> | tail` gives (the explicit sort is
/// judged on its own by C09's reference sort).  Returns Some(description) on a difference.
pub fn implicit_sort_equiv(pre: &str, agg: &str, agg_cols: &[&str], has_timeslice: bool, tail: &str, input: &[u8]) -> Option<(String, String, String, String)> {
    let mut cols: Vec<String> = vec![];
    if has_timeslice {
        cols.push("_timeslice".into());
    }
    cols.extend(agg_cols.iter().map(|c| c.to_string()));
    let dir = if has_timeslice { "asc" } else { "desc" };
    let q1 = format!("{} | {}{}", pre, agg, tail);
    let q2 = format!("{} | {} | sort by {} {}{}", pre, agg, cols.join(", "), dir, tail);
    let r1 = crate::imp::run(&q1, input, "json", 10);
    let r2 = crate::imp::run(&q2, input, "json", 10);
    if !r1.compiled || !r2.compiled || r1.panicked.is_some() || r2.panicked.is_some() {
        return None;
    }
    let norm = |b: &[u8]| -> Option<Vec<crate::canon::J>> {
        match crate::canon::parse(String::from_utf8_lossy(b).trim_end()) {
            Ok(crate::canon::J::Arr(rows)) => Some(rows.iter().map(crate::canon::normalize).collect()),
            _ => None,
        }
    };
    match (norm(&r1.stdout), norm(&r2.stdout)) {
        (Some(a), Some(b)) if a == b => None,
        _ => Some((q1, q2, String::from_utf8_lossy(&r1.stdout).to_string(), String::from_utf8_lossy(&r2.stdout).to_string())),
    }
}

/// JSON documents with a key `k`, numbers `n`, `m` and a timestamp `ts` spread over a few 5-minute slices
pub fn agg_docs(r: &mut crate::rng::Rng, rows: usize) -> Vec<u8> {
    let mut out = vec![];
    for _ in 0..rows {
        let ts = format!("2021-03-04T10:{:02}:{:02}Z", r.below(20), r.below(60));
        out.extend(format!("{{\"k\":\"{}\",\"n\":{},\"m\":{},\"ts\":\"{}\"}}\n", r.pick(&["alpha", "beta", "gamma", "delta"]), r.range(0, 6), r.range(-3, 3), ts).into_bytes());
    }
    out
}
