//! C13: output is deterministic.  P-level: N fresh processes of the real binary (fresh hash seeds)
//! on the same (query, input, flags) must write byte-identical stdout.  F-level: one in-process run
//! equals the model's canonical output (a change that lets hash order escape disagrees with the
//! canonical order with high probability per case).
use super::c15::ensure_binary;
use super::common::*;
use crate::gen;
use crate::rng::Rng;
use crate::Ctx;
use std::io::Write;
use std::process::{Command, Stdio};

fn run_bin(bin: &str, query: &str, mode: &str, input: &[u8]) -> Option<(Vec<u8>, i32)> {
    let mut child = Command::new(bin)
        .args(["-o", mode, query])
        .stdin(Stdio::piped())
        .stdout(Stdio::piped())
        .stderr(Stdio::null())
        .env("NO_COLOR", "1")
        .spawn()
        .ok()?;
    {
        let mut stdin = child.stdin.take()?;
        let inp = input.to_vec();
        // small inputs: write inline (pipe buffer is 64 KiB); larger ones from a thread
        if inp.len() < 60000 {
            let _ = stdin.write_all(&inp);
        } else {
            std::thread::spawn(move || {
                let _ = stdin.write_all(&inp);
            });
        }
    }
    let (done, fired) = kill_after(child.id(), 60);
    let out = child.wait_with_output().ok()?;
    done.store(true, std::sync::atomic::Ordering::SeqCst);
    if fired.load(std::sync::atomic::Ordering::SeqCst) {
        // the run did not end (judged by C11/C17); report it as exit status -9 so that the runs differ
        return Some((out.stdout, -9));
    }
    Some((out.stdout, out.status.code().unwrap_or(-1)))
}

/// the same bytes, written to the binary's stdin in bursts with pauses between them
fn run_bin_paced(bin: &str, query: &str, mode: &str, chunks: &[Vec<u8>], pause_ms: u64) -> Option<(Vec<u8>, i32)> {
    let mut child = Command::new(bin)
        .args(["-o", mode, query])
        .stdin(Stdio::piped())
        .stdout(Stdio::piped())
        .stderr(Stdio::null())
        .env("NO_COLOR", "1")
        .spawn()
        .ok()?;
    let mut stdin = child.stdin.take()?;
    let chunks: Vec<Vec<u8>> = chunks.to_vec();
    let feeder = std::thread::spawn(move || {
        for (i, c) in chunks.iter().enumerate() {
            if i > 0 {
                std::thread::sleep(std::time::Duration::from_millis(pause_ms));
            }
            if stdin.write_all(c).is_err() || stdin.flush().is_err() {
                break;
            }
        }
    });
    let (done, fired) = kill_after(child.id(), 60);
    let out = child.wait_with_output().ok()?;
    done.store(true, std::sync::atomic::Ordering::SeqCst);
    let _ = feeder.join();
    if fired.load(std::sync::atomic::Ordering::SeqCst) {
        return Some((out.stdout, -9));
    }
    Some((out.stdout, out.status.code().unwrap_or(-1)))
}

/// the output must not depend on WHEN the input arrives: the same lines in one piece and in bursts
/// separated by pauses longer than the renderer's 50 ms refresh interval give the same bytes
fn check_arrival_timing(ctx: &mut Ctx, bin: &str) {
    let n = ctx.budget(48, 600);
    for _ in 0..n {
        let mut r = ctx.rng.fork();
        let nlines = 3 + r.below(5);
        // values whose text lengths differ by a few characters from line to line (column widths
        // that carry over from one computed frame to the next would show)
        let lines: Vec<Vec<u8>> = (0..nlines)
            .map(|i| {
                let len = 2 + r.below(12);
                let k: String = std::iter::repeat((b'a' + (i % 5) as u8) as char).take(len).collect();
                format!("{{\"k\":\"{}\",\"n\":{},\"s\":\"{}\"}}\n", k, r.range(0, 100000), "x".repeat(1 + r.below(9))).into_bytes()
            })
            .collect();
        let q = *r.pick(&["* | json | count by k", "* | json | count, sum(n) by k", "* | json | max(n) as m by s, k", "* | json | count by k | sort by k", "* | json | sort by n", "* | json"]);
        let mode = *r.pick(&["legacy", "legacy", "legacy", "json", "logfmt"]);
        let cut = 1 + r.below(nlines - 1);
        let whole: Vec<u8> = lines.concat();
        let chunks = vec![lines[..cut].concat(), lines[cut..].concat()];
        let pause = 120 + r.below(200) as u64;
        let key = ckey(q, &whole);
        let info = serde_json::json!({"query": q, "mode": mode, "input": String::from_utf8_lossy(&whole), "pause_after_line": cut, "pause_ms": pause});
        let a = run_bin_paced(bin, q, mode, &[whole.clone()], 0);
        let b = run_bin_paced(bin, q, mode, &chunks, pause);
        match (a, b) {
            (Some(a), Some(b)) => {
                if a == b {
                    ctx.case("arrival-timing", &key, "pass", info);
                } else {
                    ctx.case("arrival-timing", &key, "viol", serde_json::json!({"class": "C13/output-depends-on-arrival-timing", "what": "the same input in one piece and in two bursts with a pause gives different stdout",
                        "one_piece": clip(&String::from_utf8_lossy(&a.0)), "two_bursts": clip(&String::from_utf8_lossy(&b.0)), "exit": [a.1, b.1], "case": info}));
                }
            }
            _ => ctx.case("arrival-timing", "", "skip", serde_json::json!({"why": "cannot run the binary"})),
        }
    }
}

/// queries that route data through every unordered container of the implementation
fn query(r: &mut Rng) -> (String, &'static str) {
    match r.below(19) {
        18 => ((*r.pick(&["* | json | count by k", "* | json | count, sum(n) by k, b", "* | json | count by k | sort by k", "* | json | count_distinct(k) by b", "* | json | sort by k, n", "* | json | count by k | total(_count) as t"])).to_string(), "number-spellings"),
        16 | 17 => ((*r.pick(&["* | json | sum(x) as s by k, b | sum(s) as total", "* | json | avg(x) as a by k, s | avg(a) as aa, sum(a) as sa", "* | json | sum(x) as s by s | sum(s) as total, count as groups", "* | json | avg(x) as a by k, b, s | p50(a) as med, sum(a) as sa", "* | json | sum(x) as s, count as c by s | sum(s) as t by c"])).to_string(), "agg-of-agg-float"),
        13 | 14 => ((*r.pick(&["* | json", "* | json | sort by n", "* | json | sort by n desc | limit 3", "* | json | fields except n", "* | json | count by n | sort by n"])).to_string(), "near-equal-field-names"),
        0 => ("* | json".into(), "nested-object-key-order"),
        1 => ("* | json | fields o, m, k".into(), "nested-object-key-order"),
        // keys that are not bare column names (computed, nested, escaped): the emitted rows carry
        // them under the key's text, and the stage after the aggregation sees the groups in the
        // order the aggregation emits them
        2 | 15 => ((*r.pick(&["* | json | count by k | where _count > 0", "* | json | count by n > 1, k | where _count > 0", "* | json | count by n + 0, b | total(_count) as t", "* | json | count, sum(n) by length(s), k | _count + 1 as c1", "* | json | count by n % 3 == 0, k, b | fields except b", "* | json | count by o.a, k | where _count > 0", "* | json | count by [\"k\"], n > 0 | total(_count) as t", "* | json | count by k == \"a\", n | count by _count | where _count > 0"])).to_string(), "agg-then-row-operator"),
        3 => ("* | json | count, sum(n) by k, b | _count + 1 as c1 | n as z".into(), "agg-then-row-operator"),
        4 => ("* | json | count by msg | parse \"* user=* took *ms status=*\" from msg as verb, user, ms, status nodrop".into(), "adapter-new-columns"),
        5 => ("* | json | count by s | parse \"*\" from s as p1 nodrop | total(_count) as t".into(), "agg-then-row-operator"),
        6 => ("* | json | count by k".into(), "final-agg-sorted"),
        7 => ("* | json | count, max(n) by k, b | limit 3".into(), "final-agg-sorted"),
        8 => ("* | json | count_distinct(s), min(x) by k | sort by k".into(), "explicit-sort"),
        9 => ("* | json | sort by n".into(), "raw-sort"),
        10 => ("* | json | count by arr".into(), "array-keys"),
        12 if r.chance(50) => ((*r.pick(&["* | json | concat(\"t=\", tags) as c | fields c", "* | json | toUpperCase(meta) as c | fields c", "* | json | where contains(tags, \"\\\"b\\\": 2\") or contains(tags, \"b\") | count", "* | json | substring(tags, 0, 24) as head | count by head", "* | json | concat(meta, tags) as c | count_distinct(c)", "* | json | toLowerCase(deep) as c | count by c"])).to_string(), "nested-object-as-text"),
        12 => ((*r.pick(&["* | json | concat(o, \"\") as c | fields c", "* | json | toUpperCase(o) as c | fields c", "* | json | substring(m, 0, 40) as c | count by c", "* | json | concat(\"<\", o, arr, \">\") as c | count_distinct(c)"])).to_string(), "object-as-text"),
        11 => ((*r.pick(&["* | json | count by big", "* | json | count by big | total(_count) as t", "* | json | count, max(n) by big | limit 3", "* | json | sort by big"])).to_string(), "big-int-keys"),
        _ => (gen::json_pipeline(r, &gen::QueryCfg { allow_agg: true, allow_sort: true, max_stages: 4 }), "generated"),
    }
}

fn has_nested_obj(input: &[u8]) -> bool {
    // a nested object with ≥ 2 members somewhere in the documents
    String::from_utf8_lossy(input).contains("\"o\":{") || String::from_utf8_lossy(input).contains("\"m\":{")
}

pub fn check(ctx: &mut Ctx) {
    let bin = match ensure_binary() {
        Ok(b) => b,
        Err(e) => {
            ctx.case("harness", "", "viol", serde_json::json!({"what": format!("cannot build the agrind binary: {}", e)}));
            return;
        }
    };
    check_arrival_timing(ctx, &bin);
    let n = ctx.budget(160, 3000);
    let reps = if ctx.thorough() { 24 } else { 6 };
    for _ in 0..n {
        let mut r = ctx.rng.fork();
        let (q, family) = query(&mut r);
        let rows = 2 + r.below(14);
        let mut input = gen::json_input(&mut r, rows, &gen::DocCfg { key_domain: 4, numeric_only: false }, 3);
        if family == "big-int-keys" {
            // 64-bit ids above 2^53 that are neighbours as integers but the same double
            input = (0..rows).map(|i| format!("{{\"big\":{},\"n\":{}}}\n", 1152921504606846976i64 + (i as i64 % 7), i % 3)).collect::<String>().into_bytes();
        }
        if family == "number-spellings" {
            // one number written in several ways (1, 1.0, 1e0, 10e-1 …): every spelling must arrive
            // as the same stored value (the premise `hnorm` of C13_emit_order_independent_unconditional:
            // two keys that compare Equal are one HashMap key), otherwise tied rows show the hash order
            let sp: [&[&str]; 4] = [&["1", "1.0", "1e0", "10e-1", "100E-2", "1.000"], &["-3", "-3.0", "-30e-1", "-0.3e1"], &["2.5", "2.50", "25e-1", "0.25E1"], &["0", "0.0", "-0.0", "0e5", "-0"]];
            input = (0..rows.max(6))
                .map(|i| {
                    let g = sp[r.below(4)];
                    format!("{{\"k\":{},\"b\":{},\"n\":{}}}\n", r.pick(g), r.pick(&["true", "false"]), i % 3)
                })
                .collect::<String>()
                .into_bytes();
        }
        if family == "nested-object-as-text" {
            // identical rows whose values hold objects ONE LEVEL DOWN (inside an array, inside an
            // object, two levels deep), each with several entries: their text must not depend on the
            // maps' private iteration order
            let row = "{\"tags\":[{\"a\":1,\"b\":2,\"c\":3,\"d\":4,\"e\":5}],\"meta\":{\"in\":{\"w\":1,\"x\":2,\"y\":3,\"z\":4},\"k\":\"v\"},\"deep\":[[{\"p\":1,\"q\":2,\"r\":3,\"s\":4}],{\"u\":{\"m\":1,\"n\":2,\"o\":3}}],\"flat\":{\"a\":1,\"b\":2}}\n";
            input = row.repeat(4 + r.below(6)).into_bytes();
        }
        if family == "agg-of-agg-float" {
            // many first-level groups whose non-integral values add up differently in different orders
            let n = 12 + r.below(30);
            input = (0..n)
                .map(|i| format!("{{\"k\":\"{}\",\"b\":{},\"s\":\"w{}\",\"x\":{}.{}{}}}\n", r.pick(&["a", "b", "c", "d", "e"]), r.pick(&["true", "false", "null"]), i % 9, r.range(-50, 5000), r.range(0, 9), r.range(1, 9)))
                .collect::<String>()
                .into_bytes();
        }
        if family == "near-equal-field-names" {
            // sibling field names that a lossy sort key would tie (case, blanks, leading zeros,
            // accents), so that any order left to a hash map shows between runs; later rows bring
            // names the earlier ones did not have
            let names = ["Status", "status", "STATUS", "Host", "host", "a", "A", "a ", " a", "1", "01", "001", "é", "e", "E", "n_", "N", "ß", "ss", "SS"];
            input = (0..rows)
                .map(|i| {
                    let mut m: Vec<String> = vec![format!("\"n\":{}", i % 4)];
                    for (j, nm) in names.iter().enumerate() {
                        if (i + j) % 3 != 0 || i == 0 && j < 6 {
                            m.push(format!("\"{}\":\"v{}\"", nm, j));
                        }
                    }
                    format!("{{{}}}\n", m.join(","))
                })
                .collect::<String>()
                .into_bytes();
        }
        let mode = *r.pick(&["json", "json", "logfmt", "legacy"]);
        let mode = if family == "near-equal-field-names" { *r.pick(&["legacy", "legacy", "json"]) } else { mode };
        let key = ckey(&q, &input);
        let info = serde_json::json!({"query": q, "mode": mode, "input": String::from_utf8_lossy(&input)});
        if q.contains("now(") {
            continue;
        }
        let first = match run_bin(&bin, &q, mode, &input) {
            Some(x) => x,
            None => {
                ctx.case(family, &key, "viol", serde_json::json!({"class": "", "what": "cannot run the binary", "case": info}));
                continue;
            }
        };
        let mut differing: Option<Vec<u8>> = None;
        for _ in 1..reps {
            if let Some(x) = run_bin(&bin, &q, mode, &input) {
                if x.0 != first.0 {
                    differing = Some(x.0);
                    break;
                }
            }
        }
        match differing {
            Some(other) => {
                // classify by what differs
                let a = String::from_utf8_lossy(&first.0).to_string();
                let b = String::from_utf8_lossy(&other).to_string();
                let class = classify(&a, &b, mode, &q, &input);
                ctx.case(family, &key, "viol", serde_json::json!({"class": class, "what": "two runs of the same command on the same input wrote different stdout", "run1": clip(&a), "run2": clip(&b), "case": info}));
            }
            None => ctx.case(family, &key, "pass", info.clone()),
        }
        // F-level (json only)
        if mode == "json" && first.1 == 0 {
            let c = run_both(ctx, &q, &input);
            match compare(&c, true) {
                F::Agree => ctx.case("model", &key, "pass", info),
                F::Skip(w) => ctx.case("model", "", "skip", serde_json::json!({"why": w.split(':').next().unwrap_or("").to_string()})),
                F::Disagree(d) => {
                    // an order-only difference of an unsorted table is the nondeterminism itself
                    let (ic, m) = (c.impl_canon.clone().unwrap_or_default(), c.model.strip_prefix("OUT ").unwrap_or("").to_string());
                    if c.table && rows_as_multiset(&ic) == rows_as_multiset(&m) {
                        ctx.case("model", "", "skip", serde_json::json!({"why": "row order of an unsorted table (hash order)"}));
                    } else {
                        ctx.case("model", &key, "fdis", serde_json::json!({"what": d, "case": info}));
                    }
                }
            }
        }
    }
}

fn classify(a: &str, b: &str, mode: &str, q: &str, input: &[u8]) -> &'static str {
    use crate::canon::{self, J};
    if mode == "json" {
        let pa: Vec<Option<J>> = a.lines().map(|l| canon::parse(l).ok().map(|j| canon::normalize(&j))).collect();
        let pb: Vec<Option<J>> = b.lines().map(|l| canon::parse(l).ok().map(|j| canon::normalize(&j))).collect();
        if pa == pb && pa.iter().all(|x| x.is_some()) {
            // same values, different key order: nested objects (top-level keys are sorted / in column order)
            // or the column order of a table
            let ka = first_keys(a);
            let kb = first_keys(b);
            if ka != kb {
                return "C13/adapter-new-columns-hash-order";
            }
            if has_nested_obj(input) {
                return "C13/nested-object-key-order";
            }
            return "";
        }
        if q.contains("concat(") || q.contains("toUpperCase(o)") || q.contains("substring(m") {
            return "C13/object-display-hash-order";
        }
        // same rows in a different order?
        if let (Some(Some(J::Arr(ra))), Some(Some(J::Arr(rb)))) = (pa.first().cloned(), pb.first().cloned()) {
            let mut sa: Vec<String> = ra.iter().map(|x| format!("{:?}", x)).collect();
            let mut sb: Vec<String> = rb.iter().map(|x| format!("{:?}", x)).collect();
            sa.sort();
            sb.sort();
            if sa == sb {
                if q.contains("by arr") || String::from_utf8_lossy(input).contains("[") && (q.contains("sort by") || !q.contains("|  ")) && ties_on_arrays(&ra) {
                    return "C13/rows-tied-on-arrays-objects-keep-hash-order";
                }
                return "C13/unsorted-table-row-order";
            }
        }
        return "";
    }
    // text modes: same multiset of lines?
    let mut la: Vec<&str> = a.lines().collect();
    let mut lb: Vec<&str> = b.lines().collect();
    la.sort();
    lb.sort();
    if la == lb {
        return "C13/unsorted-table-row-order";
    }
    if has_nested_obj(input) {
        return "C13/nested-object-key-order";
    }
    ""
}

fn ties_on_arrays(rows: &[crate::canon::J]) -> bool {
    use crate::canon::J;
    rows.iter().filter(|r| matches!(r, J::Obj(kvs) if kvs.iter().any(|kv| matches!(kv.1, J::Arr(_) | J::Obj(_))))).count() >= 2
}

fn first_keys(s: &str) -> Vec<String> {
    use crate::canon::{self, J};
    match s.lines().next().and_then(|l| canon::parse(l).ok()) {
        Some(J::Arr(rows)) => match rows.first() {
            Some(J::Obj(kvs)) => kvs.iter().map(|kv| kv.0.clone()).collect(),
            _ => vec![],
        },
        Some(J::Obj(kvs)) => kvs.iter().map(|kv| kv.0.clone()).collect(),
        _ => vec![],
    }
}
